"""C18 -- the study handed from `maestro run` to the conductor is the same study;
the snapshot after each poll is loadable and equal to the status file.

Three correspondence parts and two structural (`ast`) obligations.

(a) HAND-OFF.  Generated studies (harness/props/c08.py's generator: 1-6 steps,
    ordinary / funnel dependencies, 0-4 parameters x 0-5 rows, template and
    per-row custom-generator labels, tokens in every field; here additionally
    int / float / str / bool / mixed value tables, execution configurations and
    local / slurm / lsf / flux batch blocks):
      process A (one per chunk): the calls of maestro.run_study up to the
        hand-off -- Study(...), setup_workspace, configure_study,
        setup_environment, Conductor.store_study, Conductor.store_batch -- and
        then, as `-fg` does, Conductor(study).initialize(batch) on the
        IN-MEMORY study; observes the staged graph;
      process B (FRESH, one per case): Conductor.load_study, load_batch,
        Conductor(study).initialize(batch); observes the staged graph;
      for the schema-valid share additionally the literal command line
        `maestro run -n ... [--pgen pgen.py] spec.yaml` (through
        harness/e2e_launcher.py) into a second root, re-loaded by another B.
    Compared: instance names in `values` order, edges, dependency sets, per
    instance cmd / restart / remaining fields / workspace / restart limit /
    parameters, used-parameter table, (throttle, attempts, dry-run) as copied
    into the ExecutionGraph, the batch block.  A != B (or B cannot load / stage
    what A stored and staged) is a VIOLATION.  Inside Coq: the Expand model
    (`c08_agree`) = B's observable (mismatch otherwise).
(b) SNAPSHOTS.  Generated execution histories against the real ExecutionGraph
    (harness/exec_harness.run_history: scripted scheduler, all report kinds,
    restarts, cancels, faults); after EVERY poll the hook does what
    Conductor.monitor_study does -- dag.pickle(path); dag.write_status(dir) --
    the snapshot is re-loaded at once (fresh load) and again, together with all
    other snapshots of the chunk, in a FRESH process; every step's (state, job
    ids, restart count) of the re-loaded graph is compared with the status.csv
    of the same poll and with the live graph.  Plus real `maestro run -fg`
    studies (harness/e2e.py) whose launcher copies <name>.pkl and status.csv
    at every poll.  Any difference / unloadable snapshot is a VIOLATION.
(c) STRUCTURE (T-data by `ast`, evaluated by the theorems' own boolean checkers
    inside Coq): the call sequence of the `while` body of
    Conductor.monitor_study must satisfy `c18_body_case` (pickle and
    write_status both after the last graph-changing call of the iteration, the
    iteration being cancel? ; execute_ready_steps), and every path through
    maestro.run_study must satisfy `c18_handoff_case` (store_study and
    store_batch before any staging / launch, no call on the study between its
    store and its staging).  Exactly what is read is recorded in the evidence
    (`notes.ast_*`).  A source that no longer fits the extractor is recorded as
    not-translatable (no alarm: parts (a) and (b) then carry the tie alone).

PARTIAL by nature: dill's fidelity is runtime behaviour (premise of
C18_stage_function); parts (a) and (b) exercise it, nothing proves it.
"""
import ast
import glob
import json
import os
import random
import shutil
import subprocess
import sys
from collections import Counter

from harness import common

PID = "C18"
QUICK = {"handoff": 60, "hist": 120, "e2e": 10, "fault_studies": 3, "fault_cap": 48}
THOROUGH = {"handoff": 1100, "hist": 1500, "e2e": 90, "fault_studies": 30, "fault_cap": 600}
STUDY_NAME = "c08_study"


# ============================================================================
# (c) structural obligations read from the source text
# ============================================================================
class NotTranslatable(Exception):
    pass


def _find_func(tree, cls, name):
    for n in tree.body:
        if cls is None and isinstance(n, ast.FunctionDef) and n.name == name:
            return n
        if cls is not None and isinstance(n, ast.ClassDef) and n.name == cls:
            for m in n.body:
                if isinstance(m, ast.FunctionDef) and m.name == name:
                    return m
    raise NotTranslatable("%s.%s not found" % (cls, name))


def _calls_of_expr(e):
    """Call nodes of an expression, inner (argument) calls before outer ones."""
    out = []

    def go(n):
        for c in ast.iter_child_nodes(n):
            go(c)
        if isinstance(n, ast.Call):
            out.append(n)
    if e is not None:
        go(e)
    return out


def _is_graph_ref(n, aliases):
    if isinstance(n, ast.Name) and n.id in aliases:
        return True
    return isinstance(n, ast.Attribute) and isinstance(n.value, ast.Name) and n.value.id == "self" \
        and n.attr == "_exec_dag"


def monitor_body_actions(repo):
    """The call sequence of the while-body of Conductor.monitor_study."""
    src = open(os.path.join(repo, "maestrowf", "conductor.py")).read()
    fn = _find_func(ast.parse(src), "Conductor", "monitor_study")
    aliases = set()
    loops = []
    for st in fn.body:
        if isinstance(st, ast.Assign) and len(st.targets) == 1 and isinstance(st.targets[0], ast.Name) \
                and _is_graph_ref(st.value, set()):
            aliases.add(st.targets[0].id)
        if isinstance(st, (ast.While, ast.For)):
            loops.append(st)
    if len(loops) != 1 or not isinstance(loops[0], ast.While):
        raise NotTranslatable("monitor_study: expected exactly one top-level while loop")
    acts, detail = [], []

    def classify(call):
        f = call.func
        if isinstance(f, ast.Attribute) and _is_graph_ref(f.value, aliases):
            a = {"cancel_study": "MCancel", "execute_ready_steps": "MExec", "pickle": "MPickle",
                 "write_status": "MStatus"}.get(f.attr, "MMutate")
            return a, "dag." + f.attr
        for arg in list(call.args) + [k.value for k in call.keywords]:
            if _is_graph_ref(arg, aliases):
                return "MMutate", "call with the graph as argument"
        return "MOther", ast.unparse(f)[:40]

    def stmts(body):
        for st in body:
            if isinstance(st, (ast.While, ast.For, ast.FunctionDef, ast.ClassDef, ast.AsyncFor, ast.AsyncWith)):
                raise NotTranslatable("monitor_study loop: nested %s" % type(st).__name__)
            if isinstance(st, ast.If):
                exprs(st.test)
                stmts(st.body)
                stmts(st.orelse)
            elif isinstance(st, ast.Try):
                stmts(st.body)
                for h in st.handlers:
                    stmts(h.body)
                stmts(st.orelse)
                stmts(st.finalbody)
            elif isinstance(st, ast.With):
                for it in st.items:
                    exprs(it.context_expr)
                stmts(st.body)
            elif isinstance(st, ast.Assign) and any(isinstance(t, ast.Name) and t.id in aliases for t in st.targets):
                raise NotTranslatable("monitor_study loop re-binds the graph variable")
            else:
                exprs(st)

    def exprs(node):
        for c in _calls_of_expr(node):
            a, d = classify(c)
            acts.append(a)
            detail.append("%s:%d %s" % (a, c.lineno, d))

    exprs(loops[0].test)
    stmts(loops[0].body)
    if loops[0].orelse:
        raise NotTranslatable("while-else")
    return acts, detail


def run_study_paths(repo):
    """Every path through maestro.run_study as a sequence of hand-off actions."""
    src = open(os.path.join(repo, "maestrowf", "maestro.py")).read()
    fn = _find_func(ast.parse(src), None, "run_study")
    study_names, cond_names = set(), set()
    for n in ast.walk(fn):
        if isinstance(n, ast.Assign) and len(n.targets) == 1 and isinstance(n.targets[0], ast.Name) \
                and isinstance(n.value, ast.Call) and isinstance(n.value.func, ast.Name):
            if n.value.func.id == "Study":
                study_names.add(n.targets[0].id)
            if n.value.func.id == "Conductor":
                cond_names.add(n.targets[0].id)
    if len(study_names) != 1:
        raise NotTranslatable("run_study: expected one variable bound to Study(...)")
    detail = []

    def is_study(n):
        return isinstance(n, ast.Name) and n.id in study_names

    def classify(call):
        f = call.func
        args = list(call.args) + [k.value for k in call.keywords]
        if isinstance(f, ast.Attribute) and isinstance(f.value, ast.Name) and f.value.id == "Conductor":
            if f.attr == "store_study":
                return "HStoreStudy"
            if f.attr == "store_batch":
                return "HStoreBatch"
            return "HMutate" if any(is_study(a) for a in args) else "HOther"
        if isinstance(f, ast.Name) and f.id == "Conductor":
            return "HOther"                      # constructor: checked separately to make no calls
        if isinstance(f, ast.Name) and f.id == "Study":
            return "HOther"
        if isinstance(f, ast.Attribute) and isinstance(f.value, ast.Name) and f.value.id in cond_names:
            return "HStage" if f.attr == "initialize" else "HMutate"
        if isinstance(f, ast.Attribute) and is_study(f.value):
            return "HStage" if f.attr == "stage" else "HMutate"
        if isinstance(f, ast.Name) and f.id == "start_process":
            return "HLaunch"
        if any(is_study(a) for a in args):
            return "HMutate"
        return "HOther"

    def relevant(body):
        return any(classify(c) != "HOther" for st in body for c in _calls_of_expr(st))

    def is_exit(st):
        if isinstance(st, (ast.Return, ast.Raise)):
            return True
        return isinstance(st, ast.Expr) and isinstance(st.value, ast.Call) and \
            ast.unparse(st.value.func) in ("sys.exit", "exit")

    def paths(body):
        """list of (actions, terminated)"""
        res = [([], False)]
        for st in body:
            nxt = []
            for acts, done in res:
                if done:
                    nxt.append((acts, True))
                    continue
                if isinstance(st, ast.If) and (relevant(st.body) or relevant(st.orelse)
                                               or any(is_exit(x) for x in st.body + st.orelse)):
                    pre = [classify(c) for c in _calls_of_expr(st.test)]
                    for br in (st.body, st.orelse):
                        for a2, d2 in paths(br):
                            nxt.append((acts + pre + a2, d2))
                elif isinstance(st, (ast.For, ast.While, ast.Try, ast.With)) and relevant([st]):
                    raise NotTranslatable("run_study: hand-off call inside %s" % type(st).__name__)
                else:
                    a2 = [classify(c) for c in _calls_of_expr(st)]
                    nxt.append((acts + a2, is_exit(st)))
            res = nxt
            if len(res) > 256:
                raise NotTranslatable("run_study: too many paths")
        return res

    out = []
    for acts, _ in paths(fn.body):
        core = [a for a in acts if a != "HOther"]
        if any(a in ("HStoreStudy", "HStage", "HLaunch") for a in core) and core not in out:
            out.append(core)
    for n in ast.walk(fn):
        if isinstance(n, ast.Call):
            c = classify(n)
            if c != "HOther":
                detail.append("%s:%d %s" % (c, n.lineno, ast.unparse(n.func)))
    # side conditions the classification relies on
    csrc = ast.parse(open(os.path.join(repo, "maestrowf", "conductor.py")).read())
    init = _find_func(csrc, "Conductor", "__init__")
    if _calls_of_expr(init):
        raise NotTranslatable("Conductor.__init__ makes calls (it may change the study)")
    initialize = _find_func(csrc, "Conductor", "initialize")
    stage_calls = [c for c in _calls_of_expr(initialize)
                   if isinstance(c.func, ast.Attribute) and c.func.attr == "stage"
                   and ast.unparse(c.func.value) == "self._study"]
    if len(stage_calls) != 1:
        raise NotTranslatable("Conductor.initialize does not call self._study.stage() exactly once")
    first_study_call = min((c.lineno, c.col_offset) for c in _calls_of_expr(initialize)
                           if "self._study" in ast.unparse(c.func))
    if first_study_call != (stage_calls[0].lineno, stage_calls[0].col_offset):
        raise NotTranslatable("Conductor.initialize calls the study before staging it")
    return out, sorted(set(detail), key=lambda s: int(s.split(":")[1].split(" ")[0]))


AST_HEADER = "From MWF Require Import Handoff.Handoff Handoff.Snapshot."


def structural(ck):
    ck.cov["obligations"] += 2
    try:
        acts, detail = monitor_body_actions(common.REPO)
        ck.notes["ast_monitor_body"] = {"file": "maestrowf/conductor.py Conductor.monitor_study, body of the while loop",
                                        "sequence": acts, "calls": detail,
                                        "checked": "c18_body_case (Handoff/Snapshot.v) on this sequence: pickle and write_status "
                                                   "both after the last cancel_study/execute_ready_steps/other call on the graph; "
                                                   "modulo graph-neutral calls the body is [cancel; execute; pickle; status]"}
        bad, errs = common.coq_failing("C18_ast_body_p%d" % os.getpid(), AST_HEADER, "list maction", "c18_body_case",
                                       [common.g_list(acts)])
        if errs:
            ck.proof_failures.append(("coqc failed on the monitor-loop call sequence", errs[0][1]))
        elif bad:
            ck.proof_failures.append(("monitor_study loop body no longer satisfies c18_body_case "
                                      "(C18_snapshot_rows_any_body does not apply): " + " ".join(acts), "\n".join(detail)))
        else:
            ck.cov["discharged"] += 1
    except NotTranslatable as e:
        ck.notes["ast_monitor_body"] = "not-translatable: %s (correspondence part (b) carries the tie)" % e
    except Exception as e:
        ck.notes["ast_monitor_body"] = "not-translatable: %r" % (e,)
    try:
        paths, detail = run_study_paths(common.REPO)
        ck.notes["ast_run_study"] = {"file": "maestrowf/maestro.py run_study (+ Conductor.__init__ makes no call; "
                                             "Conductor.initialize's first call on the study is self._study.stage())",
                                     "paths": paths, "calls": detail,
                                     "checked": "c18_handoff_case (Handoff/Handoff.v) on every path that stores, stages or launches: "
                                                "Conductor.store_study and store_batch precede conductor.initialize / start_process; "
                                                "no call on (or passing) the study object between store_study and the staging"}
        if not paths:
            raise NotTranslatable("no path of run_study stores or stages a study")
        bad, errs = common.coq_failing("C18_ast_handoff_p%d" % os.getpid(), AST_HEADER, "list haction", "c18_handoff_case",
                                       [common.g_list(p) for p in paths])
        if errs:
            ck.proof_failures.append(("coqc failed on the run_study call sequences", errs[0][1]))
        elif bad:
            ck.proof_failures.append(("run_study no longer satisfies c18_handoff_case (C18_store_before_stage does not "
                                      "apply) on path: " + " ".join(paths[bad[0]]), "\n".join(detail)))
        else:
            ck.cov["discharged"] += 1
    except NotTranslatable as e:
        ck.notes["ast_run_study"] = "not-translatable: %s (correspondence part (a) carries the tie)" % e
    except Exception as e:
        ck.notes["ast_run_study"] = "not-translatable: %r" % (e,)


# ============================================================================
# (a) hand-off
# ============================================================================
def gen_batch(rng):
    r = rng.random()
    if r < 0.3:
        return {"type": "local"}
    if r < 0.4:
        return {"type": "local", "shell": rng.choice(["/bin/bash", "/bin/sh"])}
    if r < 0.65:
        b = {"type": "slurm", "host": "quartz", "bank": "baasic", "queue": rng.choice(["pbatch", "pdebug"])}
        if rng.random() < 0.5:
            b["nodes"] = rng.choice([1, 2, "4"])
        if rng.random() < 0.3:
            b["reservation"] = "res-1"
        if rng.random() < 0.3:
            b["qos"] = "high"
        if rng.random() < 0.3:
            b["flags"] = {"export": "ALL", "mail-type": rng.choice(["END", True, 3])}
        return b
    if r < 0.9:
        b = {"type": "lsf", "host": "lassen", "bank": "guests", "queue": "pbatch"}
        if rng.random() < 0.6:
            b["nodes"] = rng.choice([1, 2])
        if rng.random() < 0.3:
            b["version"] = rng.choice(["1.0", 1.5])
        return b
    return {"type": "flux", "host": "x", "bank": "b", "queue": "q", "version": "0.49.0", "allow_nan": False}


# batch-block values of every type the specification loader (yaml FullLoader) can produce
BATCH_EXTRAS = [
    ("tuple", "!!python/tuple [1, two, 3.5]"), ("omap", "!!omap [a: 1, b: 2]"), ("pairs", "!!pairs [a: 1, a: 2]"),
    ("set", "!!set {a, b, 3}"), ("date", "2001-12-14"), ("timestamp", "2001-12-14T21:59:43.10-05:00"),
    ("timestamp2", "2001-12-14 21:59:43"), ("binary", "!!binary aGVsbG8gd29ybGQ="), ("null", "~"), ("inf", ".inf"),
    ("nested", "{k: [1, {z: !!python/tuple [a, [b, ~]]}, 2001-01-01], m: !!set {1: null}}"),
    ("bools", "[yes, no, true, on]"), ("keys", "{1: a, 2.5: b}"), ("text", "\"line1\\nline2 \\u00e9\""),
    ("bigint", "123456789012345678901234567890"), ("numbers", "[0x1f, 1_000, 1e3, -0.0, 1.5e-7]"),
    ("emptyish", "[[], {}, '', ~]"),
]


def effective_batch(case):
    """the batch block as the specification loader hands it to run_study (typed values)"""
    import yaml
    b = dict(case["batch"])
    for key, text in case.get("batch_extra", []):
        b.update(yaml.load("x_%s: %s" % (key, text), yaml.FullLoader))
    return b


def canon(x):
    """order-free, type-preserving, JSON-able rendering of a batch block"""
    import datetime
    if isinstance(x, dict):
        return ["dict", sorted(([canon(k), canon(v)] for k, v in x.items()), key=repr)]
    if isinstance(x, (set, frozenset)):
        return ["set", sorted((canon(v) for v in x), key=repr)]
    if isinstance(x, tuple):
        return ["tuple", [canon(v) for v in x]]
    if isinstance(x, list):
        return ["list", [canon(v) for v in x]]
    if isinstance(x, bytes):
        return ["bytes", x.hex()]
    if isinstance(x, (datetime.date, datetime.datetime)):
        return [type(x).__name__, x.isoformat()]
    return [type(x).__name__, repr(x)]


def gen_handoff_case(rng, c08):
    stream = rng.choice(["valid", "valid", "valid", "prefix", "exotic"])
    case = c08.gen_case(rng, stream)
    # typed value tables (what a custom generator may hand over)
    for p in case["params"]:
        r = rng.random()
        n = len(p["values"])
        if r < 0.2:
            p["values"] = [rng.choice([True, False]) for _ in range(n)]
        elif r < 0.35:
            p["values"] = [rng.choice([True, 0, 1.5, "x", 2, "True", 1e-05, -3]) for _ in range(n)]
        elif r < 0.45:
            p["values"] = [rng.choice([0.1, 2.0, 1e+20, -0.5]) for _ in range(n)]
        if isinstance(p.get("label"), list) and len(p["label"]) != n:
            p["label"] = "%s.%s" % (p["key"], case.get("ltoken") or "%%")
        if isinstance(p.get("label"), list):
            p["label"] = ["%s-%s" % (p["key"][:1], str(v).replace(".", "_")) for v in p["values"]]
    # every configure_study setting, non-default in most cases
    case["rlimit"] = rng.choice([0, 1, 2, 3, 5])
    case["cfg"] = {"throttle": rng.choice([0, 1, 2, 3, 7]), "attempts": rng.choice([1, 2, 3, 4]),
                   "dry": rng.random() < 0.35, "use_tmp": rng.random() < 0.4, "hash_ws": rng.random() < 0.5}
    case["batch"] = gen_batch(rng)
    if rng.random() < 0.5:
        case["batch_extra"] = [list(x) for x in rng.sample(BATCH_EXTRAS, rng.randint(1, 3))]
    if case["params"] and stream != "exotic" and rng.random() < 0.3:
        case["pgen_kind"] = rng.choice(PGEN_KINDS)
        if case["pgen_kind"] in ("cls", "fmt"):      # instances of a class of the generator file; the case lists their str()
            p = case["params"][0]
            p["values"] = [v if isinstance(v, (int, str)) and not isinstance(v, bool) else str(v) for v in p["values"]]
    return case


def spec_yaml(case, c08, with_params):
    import yaml
    spec = {"description": {"name": STUDY_NAME, "description": "generated"}}
    if case["batch"] != {"type": "local"} or case.get("batch_extra"):
        spec["batch"] = effective_batch(case)
    study = []
    for st in case["steps"]:
        study.append({"name": st["name"], "description": st["description"], "run": dict(st["run"])})
    spec["study"] = study
    if with_params:
        spec["global.parameters"] = {p["key"]: {"values": list(p["values"]), "label": p["label"]}
                                     for p in case["params"]}
    return yaml.safe_dump(spec, default_flow_style=False, sort_keys=False)


PGEN_KINDS = ["sub", "cls", "fn", "dyn", "glob", "fmt", "chain", "closure"]


def pgen_text(case):
    """The custom generator file.  `pgen_kind` (None or one of PGEN_KINDS): the file additionally
    defines -- and leaves reachable from the study -- things dill has to store BY VALUE (the file is
    not importable by the conductor); str() of every value is the plain value the case lists:
      sub      a ParameterGenerator subclass            cls  a value class
      fn       a helper function and a lambda kept on the generator
      dyn      a value class whose __str__ eval()s an expression over module-level constants / imports
      glob     ... reaches the module-level table through globals()[...]
      fmt      a value class with __str__ / __repr__ / __format__
      chain    a helper calling another module-level helper that reads a module-level constant
      closure  values rendered by closures / lambdas over module-level names"""
    kind = case.get("pgen_kind")
    p0 = case["params"][0]["values"] if case["params"] else []
    lines = ["import math", "from maestrowf.datastructures.core import ParameterGenerator", "", "",
             "TABLE = %r" % (list(p0),), "ONE = 1", "", "",
             "class Level(object):", "    def __init__(self, v):", "        self.v = v", "",
             "    def __str__(self):", "        return str(self.v)", "", "",
             "class Dyn(object):", "    def __init__(self, src):", "        self.src = src", "",
             "    def __str__(self):", "        return str(eval(self.src))", "", "",
             "class Glob(object):", "    def __init__(self, i):", "        self.i = i", "",
             "    def __str__(self):", "        return str(globals()['TABLE'][self.i * globals()['ONE']])", "", "",
             "class Fmt(object):", "    def __init__(self, v):", "        self.v = v", "",
             "    def __str__(self):", "        return '%s' % (self.v,)", "",
             "    def __repr__(self):", "        return 'Fmt(%r)' % (self.v,)", "",
             "    def __format__(self, spec):", "        return format(str(self.v), spec)", "", "",
             "class Lazy(object):", "    def __init__(self, f):", "        self.f = f", "",
             "    def __str__(self):", "        return str(self.f())", "", "",
             "def scale(x):", "    return x", "", "",
             "def pick(i):", "    return TABLE[i * ONE]", "", "",
             "def outer(i):", "    return pick(int(math.floor(i + 0.5)))", "", "",
             "def make(k):", "    def f():", "        return TABLE[k]", "    return f", "", "",
             "class MyGen(ParameterGenerator):", "    def __init__(self, **kw):",
             "        super(MyGen, self).__init__(**kw)", "        self.note = 'own subclass'", "", "",
             "def get_custom_generator(env, **kwargs):",
             "    p = %s(%s)" % ("MyGen" if kind == "sub" else "ParameterGenerator",
                                "ltoken=%r" % case["ltoken"] if case.get("ltoken") is not None else "")]
    for n, p in enumerate(case["params"]):
        vals = repr(list(p["values"]))
        k = range(len(p["values"]))
        if n == 0:
            if kind == "cls":
                vals = "[%s]" % ", ".join("Level(%r)" % v for v in p["values"])
            elif kind == "fn":
                vals = "[%s]" % ", ".join("scale(%r)" % v for v in p["values"])
            elif kind == "dyn":
                vals = "[%s]" % ", ".join("Dyn('TABLE[%d * int(math.sqrt(ONE))]')" % i for i in k)
            elif kind == "glob":
                vals = "[%s]" % ", ".join("Glob(%d)" % i for i in k)
            elif kind == "fmt":
                vals = "[%s]" % ", ".join("Fmt(%r)" % v for v in p["values"])
            elif kind == "chain":
                vals = "[%s]" % ", ".join("Lazy(lambda i=%d: outer(i))" % i for i in k)
            elif kind == "closure":
                vals = "[%s]" % ", ".join(("Lazy(make(%d))" if i % 2 == 0 else "Lazy(lambda: TABLE[%d])") % i for i in k)
        if p.get("name"):
            lines.append("    p.add_parameter(%r, %s, %r, %r)" % (p["key"], vals, p.get("label"), p["name"]))
        else:
            lines.append("    p.add_parameter(%r, %s, %r)" % (p["key"], vals, p.get("label")))
    if kind in ("fn", "chain"):
        lines += ["    p.helper = outer", "    p.post = lambda x: scale(x)"]
    lines.append("    return p")
    return "\n".join(lines) + "\n"


def build_study_pgen(case, root, pgen, c08):
    """c08.build_study with the parameters produced by the REAL maestro.load_parameter_generator"""
    from maestrowf.datastructures.core import Study, StudyStep, StudyEnvironment
    from maestrowf.datastructures.environment import Variable
    from maestrowf.maestro import load_parameter_generator
    env = StudyEnvironment()
    env.add(Variable("OUTPUT_PATH", root))
    env.add(Variable("SPECROOT", os.path.dirname(root)))
    params = load_parameter_generator(pgen, env, {"OUTPUT_PATH": root})
    steps = []
    for st in case["steps"]:
        s = StudyStep()
        s.name = st["name"]
        s.description = st["description"]
        for k, v in st["run"].items():
            s.run[k] = v if not isinstance(v, list) else list(v)
        steps.append(s)
    return Study(STUDY_NAME, {"name": STUDY_NAME, "description": "generated"},
                 studyenv=env, parameters=params, steps=steps, out_path=root)


def yaml_params_ok(case):
    if case.get("ltoken") is not None:          # a generator with its own label token exists only as a pgen file
        return False
    return all(isinstance(p.get("label"), str) and p["label"] and not p.get("name") and p["values"]
               for p in case["params"])


def _norm(x):
    return json.loads(json.dumps(x, sort_keys=True, default=str))


def _observe(case, study, dag, root, c08):
    o = c08.observe_dag(case, study, dag, root)
    o["cfg"] = [int(dag._submission_throttle), int(dag._submission_attempts), bool(dag.dry_run),
                bool(getattr(dag, "_tmp_dir", ""))]
    o["adapter"] = canon(dag._adapter)
    return o


def sub_store(inp, outp):
    """process A: [{case, root, spec, pgen}] -> observations of the in-memory staging"""
    from harness.props import c08
    c08.quiet()
    from maestrowf.conductor import Conductor
    res = []
    for job in json.load(open(inp)):
        case, root = job["case"], job["root"]
        r = {"stored": False}
        os.makedirs(os.path.dirname(root), exist_ok=True)
        try:
            if case.get("pgen_kind"):
                study = build_study_pgen(case, root, job["pgen"], c08)
            else:
                study = c08.build_study(case, root)
        except Exception as e:
            r.update({"ok": False, "err": 1, "exc": type(e).__name__, "msg": str(e)[:200]})
            res.append(r)
            continue
        try:
            cfg = case["cfg"]
            study.setup_workspace()
            study.configure_study(throttle=cfg["throttle"], submission_attempts=cfg["attempts"],
                                  restart_limit=case["rlimit"], use_tmp=cfg["use_tmp"], hash_ws=cfg["hash_ws"],
                                  dry_run=cfg["dry"])
            study.setup_environment()
            batch = effective_batch(case)
            Conductor.store_study(study)
            Conductor.store_batch(study.output_path, batch)
            r["stored"] = True
            r["batch"] = canon(batch)
        except Exception as e:
            r.update({"ok": False, "err": 5, "exc": type(e).__name__, "msg": str(e)[:300]})
            res.append(r)
            continue
        try:
            conductor = Conductor(study)
            conductor.initialize(batch, 1)
            dag = conductor._exec_dag
        except Exception as e:
            r.update({"ok": False, "err": 2, "exc": type(e).__name__, "msg": str(e)[:200]})
            res.append(r)
            continue
        try:
            r.update(_observe(case, study, dag, root, c08))
            r["batch"] = canon(batch)
        except Exception as e:
            r.update({"ok": False, "err": 3, "exc": type(e).__name__, "msg": str(e)[:200]})
        try:
            conductor.cleanup()
        except Exception:
            pass
        # is the YAML form of this case a specification the command line accepts?
        r["yaml_ok"] = False
        if job.get("spec"):
            try:
                from maestrowf.specification import YAMLSpecification
                sp_ = YAMLSpecification.load_specification(job["spec"])
                r["yaml_ok"] = True
                # what run_study hands over on the command-line path: the batch block as the specification
                # loader delivers it (it turns tuples into lists), type defaulting to local
                sb = dict(sp_.batch) if sp_.batch else {"type": "local"}
                sb.setdefault("type", "local")
                r["spec_batch"] = canon(sb)
            except Exception as e:
                r["yaml_exc"] = type(e).__name__
        res.append(r)
    json.dump(res, open(outp, "w"))


def sub_load(root, casef, outp, real_root=None, cwd=None):
    """process B (fresh): what the conductor entry point does with a stored study.  `root` is the
    directory argument AS SPELLED (relative, `.`, with `..`, trailing slash, a symlink ...), to be
    resolved from `cwd`; everything observed is expressed relative to `real_root`."""
    from harness.props import c08
    c08.quiet()
    case = json.load(open(casef))
    outp = os.path.abspath(outp)
    if cwd:
        os.chdir(cwd)
    spelled, root = root, (real_root or root)
    r = {}
    try:
        from maestrowf.conductor import Conductor
        study = Conductor.load_study(spelled)
        batch = Conductor.load_batch(spelled)
        r["batch"] = canon(batch)
    except Exception as e:
        r.update({"ok": False, "err": 6, "exc": type(e).__name__, "msg": str(e)[:300]})
        json.dump(r, open(outp, "w"))
        return
    try:
        conductor = Conductor(study)
        conductor.initialize(batch, 1)
        dag = conductor._exec_dag
    except Exception as e:
        r.update({"ok": False, "err": 2, "exc": type(e).__name__, "msg": str(e)[:200]})
        json.dump(r, open(outp, "w"))
        return
    try:
        r.update(_observe(case, study, dag, root, c08))
    except Exception as e:
        r.update({"ok": False, "err": 3, "exc": type(e).__name__, "msg": str(e)[:200]})
    try:
        conductor.cleanup()
    except Exception:
        pass
    json.dump(r, open(outp, "w"))


def sub_loadsnap(root, casef, outp):
    """fresh process: the execution graph the real `conductor` entry point left in <root>/<name>.pkl"""
    from harness.props import c08
    c08.quiet()
    case = json.load(open(casef))
    r = {}
    try:
        from maestrowf.conductor import Conductor
        from maestrowf.datastructures.core.executiongraph import ExecutionGraph
        study = Conductor.load_study(root)
        study.used_params = {}
        dag = ExecutionGraph.unpickle(os.path.join(root, STUDY_NAME + ".pkl"))
        r.update(_observe(case, study, dag, root, c08))
        r["states"] = sorted({str(v.status.name) for k, v in dag.values.items() if v is not None})
    except Exception as e:
        r.update({"ok": False, "err": 6, "exc": type(e).__name__, "msg": str(e)[:300]})
    json.dump(r, open(outp, "w"))


SPELLINGS = ["abs", "rel", "dot", "dotdot", "slash", "symlink"]


def spell(root, how, linkdir):
    """(directory argument, cwd) for one spelling of the same study directory"""
    if how == "rel":
        return os.path.basename(root), os.path.dirname(root)
    if how == "dot":
        return ".", root
    if how == "dotdot":
        return os.path.join(root, "..", os.path.basename(root)), None
    if how == "slash":
        return root + os.sep, None
    if how == "symlink":
        lnk = os.path.join(linkdir, "lnk-" + os.path.basename(os.path.dirname(root)))
        if not os.path.islink(lnk):
            os.symlink(root, lnk)
        return lnk, None
    return root, None


def _self(args, timeout=600):
    from harness import e2e
    cmd = [e2e.PY, "-m", "harness.props.c18"] + [str(a) for a in args]
    try:
        p = subprocess.run(cmd, cwd=common.VERIF, env=e2e.base_env(), text=True, errors="replace",
                           stdout=subprocess.PIPE, stderr=subprocess.STDOUT, timeout=timeout)
        return p.returncode, (p.stdout or "")[-2000:]
    except subprocess.TimeoutExpired:
        return 124, "timeout"


COMPARE_KEYS = ("ok", "err", "exc", "used", "nodes", "cfg", "adapter", "batch")


def diff_obs(a, b, root_a, root_b):
    if bool(a.get("ok")) != bool(b.get("ok")):
        bad = b if a.get("ok") else a
        return "%s staged, %s could not be staged: %s: %s" % (
            "the in-memory study" if a.get("ok") else "the re-loaded study",
            "the re-loaded study" if a.get("ok") else "the in-memory study", bad.get("exc"), str(bad.get("msg"))[:300])
    a = json.loads(json.dumps({k: a.get(k) for k in COMPARE_KEYS}).replace(root_a, "/R"))
    b = json.loads(json.dumps({k: b.get(k) for k in COMPARE_KEYS}).replace(root_b, "/R"))
    if a == b:
        return None
    for k in COMPARE_KEYS:
        if a.get(k) != b.get(k):
            if k == "nodes" and a.get(k) and b.get(k):
                na, nb = a[k], b[k]
                if [n["name"] for n in na] != [n["name"] for n in nb]:
                    return "instance names/order: %s vs %s" % ([n["name"] for n in na][:8], [n["name"] for n in nb][:8])
                for x, y in zip(na, nb):
                    for f in x:
                        if x.get(f) != y.get(f):
                            return "instance %s field %s: %r vs %r" % (x["name"], f, x.get(f), y.get(f))
            return "%s: %r vs %r" % (k, str(a.get(k))[:200], str(b.get(k))[:200])
    return "differ"


def shm_dir(ck, tag):
    """a scratch directory on ANOTHER file system than TMPDIR (/verif/_work/tmp for every sub-process,
    see e2e.base_env): /dev/shm is a tmpfs; '' (with a note) when it cannot be used"""
    base = "/dev/shm/verif_c18_%d" % os.getpid()
    try:
        d = os.path.join(base, tag)
        os.makedirs(d, exist_ok=True)
        if os.stat(d).st_dev == os.stat(common.WORK).st_dev:
            raise OSError("same file system as /verif/_work")
        return d
    except OSError as e:
        ck.notes["cross_filesystem_cases"] = "skipped: /dev/shm not usable (%s)" % e
        return ""


def shm_sweep():
    shutil.rmtree("/dev/shm/verif_c18_%d" % os.getpid(), ignore_errors=True)


def handoff_part(ck, cases, c08, tag="C18_handoff"):
    from harness import e2e
    tag = e2e.utag(tag)
    work = os.path.join(common.WORK, tag)
    shutil.rmtree(work, ignore_errors=True)
    os.makedirs(work)
    shm = shm_dir(ck, tag)
    jobs = []
    for i, case in enumerate(cases):
        d = os.path.join(work, "h%d" % i)
        os.makedirs(d)
        on_shm = bool(shm) and i % 3 == 1          # output root on another file system than TMPDIR
        rbase = os.path.join(shm, "h%d" % i) if on_shm else d
        os.makedirs(rbase, exist_ok=True)
        job = {"case": case, "root": os.path.join(rbase, "out"), "dir": d, "spec": None, "pgen": None,
               "spelling": SPELLINGS[i % len(SPELLINGS)], "shm": on_shm, "rbase": rbase}
        try:
            yp = yaml_params_ok(case) and not case.get("pgen_kind")
            with open(os.path.join(d, "spec.yaml"), "w") as f:
                f.write(spec_yaml(case, c08, with_params=yp and bool(case["params"])))
            job["spec"] = os.path.join(d, "spec.yaml")
            if case["params"] and not yp:
                with open(os.path.join(d, "pgen.py"), "w") as f:
                    f.write(pgen_text(case))
                job["pgen"] = os.path.join(d, "pgen.py")
        except Exception as e:       # a case that has no YAML form is simply not run through the command line
            job["spec"] = None
            job["noyaml"] = repr(e)[:100]
        with open(os.path.join(d, "case.json"), "w") as f:
            json.dump(case, f)
        jobs.append(job)
    # process A, in chunks
    nchunk = min(common.NCPU, max(1, len(jobs) // 4))
    chunks = [jobs[k::nchunk] for k in range(nchunk)]

    def run_a(kc):
        k, chunk = kc
        inp, outp = os.path.join(work, "a%d.in.json" % k), os.path.join(work, "a%d.out.json" % k)
        json.dump(chunk, open(inp, "w"))
        rc, out = _self(["store", inp, outp])
        try:
            return json.load(open(outp))
        except Exception:
            return [{"ok": False, "err": 9, "exc": "ProcessA", "msg": "rc=%d %s" % (rc, out[-400:]), "stored": False}] * len(chunk)
    for chunk, res in zip(chunks, e2e.pmap(run_a, list(enumerate(chunks)))):
        for job, r in zip(chunk, res):
            job["A"] = r

    # process B, one fresh process per stored study; the command-line variant for the schema-valid ones
    def run_b(job):
        if not job["A"].get("stored"):
            return None
        outp = os.path.join(job["dir"], "b.json")
        arg, cwd = spell(job["root"], job["spelling"], job["dir"])
        rc, out = _self(["load", arg, os.path.join(job["dir"], "case.json"), outp, job["root"], cwd or ""])
        try:
            return json.load(open(outp))
        except Exception:
            return {"ok": False, "err": 9, "exc": "ProcessB", "msg": "rc=%d %s" % (rc, out[-400:])}

    def run_cli(job):
        a = job["A"]
        case = job["case"]
        if not (a.get("stored") and a.get("yaml_ok") and a.get("ok")):
            return None
        if case["cfg"]["dry"] and case["batch"].get("type") != "local":
            return None      # the foreground dry run would instantiate the slurm/lsf/flux adapter (C15's business; flux is absent)
        root2 = os.path.join(job["rbase"], "cli")
        # `-o` as spelled on the command line (relative to the cwd the command is started in)
        ospelled, cli_cwd = {"rel": ("cli", job["rbase"]), "dot": ("./cli", job["rbase"]), "slash": ("cli" + os.sep, job["rbase"]),
                             "dotdot": (os.path.join("..", os.path.basename(job["rbase"]), "cli"), job["rbase"])}.get(
            job["spelling"], (root2, job["dir"]))
        # --dry launches even with -n (detached); a dry run is therefore done in the foreground: the study
        # is stored before it starts, and that stored study is what the fresh process loads
        argv = (["run", "--dry", "-fg", "-y"] if case["cfg"]["dry"] else ["run", "-n"]) + \
               ["-s", 1, "--attempts", case["cfg"]["attempts"], "--throttle", case["cfg"]["throttle"],
                "--rlimit", case["rlimit"], "-o", ospelled]
        if case["cfg"]["hash_ws"]:
            argv.append("--hashws")
        if case["cfg"]["use_tmp"]:
            argv.append("--usetmp")
        if job["pgen"]:
            argv += ["--pgen", job["pgen"]]
        argv.append(job["spec"])
        rc, out = e2e.launch("maestro", argv, cli_cwd, {"E2E_POLL_SLEEP": "1", "E2E_MAX_POLLS": "200"})
        if rc != 0:
            return {"ok": False, "err": 7, "exc": "maestro run -n", "msg": "rc=%d %s" % (rc, out[-500:])}
        outp = os.path.join(job["dir"], "c.json")
        rc, out = _self(["load", root2, os.path.join(job["dir"], "case.json"), outp])
        try:
            r = json.load(open(outp))
        except Exception:
            r = {"ok": False, "err": 9, "exc": "ProcessB(cli)", "msg": "rc=%d %s" % (rc, out[-400:])}
        r["root"] = root2
        return r
    for job, b in zip(jobs, e2e.pmap(run_b, jobs)):
        job["B"] = b
    ncli = max(4, len(jobs) // 3)
    cli_jobs = [j for j in jobs if j["A"].get("yaml_ok") and j["case"].get("pgen_kind")] + \
               [j for j in jobs if j["A"].get("yaml_ok") and not j["case"].get("pgen_kind")][:ncli]
    for job, c in zip(cli_jobs, e2e.pmap(run_cli, cli_jobs)):
        job["C"] = c

    # the real `conductor` entry point on the stored study, its directory argument spelled in the job's way
    # (dry-run studies with a local batch block only: nothing is executed, no scheduler adapter is needed)
    def run_entry(job):
        a, case = job["A"], job["case"]
        if not (a.get("stored") and a.get("ok") and case["cfg"]["dry"] and case["batch"].get("type") == "local"):
            return None
        arg, cwd = spell(job["root"], job["spelling"], job["dir"])
        rc, out = e2e.launch("conductor", ["-t", 1, arg], cwd or job["dir"], {"E2E_POLL_SLEEP": "1", "E2E_MAX_POLLS": "200"})
        if rc != 0:
            return {"ok": False, "err": 7, "exc": "conductor", "msg": "rc=%d %s" % (rc, out[-500:])}
        outp = os.path.join(job["dir"], "d.json")
        rc, out = _self(["loadsnap", job["root"], os.path.join(job["dir"], "case.json"), outp])
        try:
            return json.load(open(outp))
        except Exception:
            return {"ok": False, "err": 9, "exc": "loadsnap", "msg": "rc=%d %s" % (rc, out[-400:])}
    for job, dres in zip(jobs, e2e.pmap(run_entry, jobs)):
        job["D"] = dres

    # compare
    dist = Counter()
    lits, lit_jobs = [], []
    for job in jobs:
        case, a, b = job["case"], job["A"], job["B"]
        slim = {k: case[k] for k in ("rlimit", "params", "steps", "cfg", "batch", "batch_extra", "stream", "pgen_kind", "ltoken") if k in case}
        dist["stream:" + case["stream"]] += 1
        dist["batch:" + case["batch"]["type"]] += 1
        for key, _t in case.get("batch_extra", []):
            dist["batch_value:" + key] += 1
        for p in case["params"]:
            kinds = sorted({type(v).__name__ for v in p["values"]})
            dist["values:" + "+".join(kinds or ["none"])] += 1
            dist["label:" + ("per-row" if isinstance(p.get("label"), list) else "template" if p.get("label") else "default")] += 1
        nontriv = bool(a.get("ok")) and len(a.get("nodes", [])) > 2
        ck.count("handoff:" + json.dumps(slim, sort_keys=True, default=str), nontrivial=nontriv)
        if a.get("err") == 9:
            ck.mismatch("hand-off: process A did not complete", slim, a.get("msg", ""))
            continue
        if case.get("pgen_kind"):
            dist["pgen_file_defines:" + case["pgen_kind"]] += 1
        if "ickl" in str(a.get("exc", "")) or "pickle" in str(a.get("msg", "")).lower():
            ck.violation("hand-off: the study cannot be written out (%s in %s): %s" % (
                a.get("exc"), "store_study/store_batch" if a.get("err") == 5 else "Conductor.initialize (store_metadata)",
                a.get("msg")), slim)
            continue
        if not a.get("stored"):
            dist["A:rejected-before-store(err %s)" % a.get("err")] += 1
            if a.get("err") == 5:
                ck.violation("hand-off: the study could not be stored: %s: %s" % (a.get("exc"), a.get("msg")), slim)
            continue
        if b is None or b.get("err") in (6, 9):
            ck.violation("hand-off: the stored study could not be re-loaded in a fresh process: %s: %s"
                         % ((b or {}).get("exc"), (b or {}).get("msg")), slim)
            continue
        dd = diff_obs(a, b, job["root"], job["root"])
        if dd:
            ck.violation("hand-off: the re-loaded study (directory argument spelled '%s'%s) stages differently from the "
                         "in-memory study: %s" % (job["spelling"], ", output root on /dev/shm" if job["shm"] else "", dd),
                         dict(slim, spelling=job["spelling"]))
            continue
        dist["A=B:" + ("staged" if a.get("ok") else "both raise err %s" % a.get("err"))] += 1
        dist["spelling:" + job["spelling"]] += 1
        if job["shm"]:
            dist["output_root_on_other_filesystem"] += 1
        dres = job.get("D")
        if dres is not None:
            if dres.get("err") in (6, 7, 9):
                ck.violation("hand-off: the `conductor` entry point (directory argument spelled '%s') failed on the stored "
                             "dry-run study: %s: %s" % (job["spelling"], dres.get("exc"), dres.get("msg")), dict(slim, spelling=job["spelling"]))
                continue
            dres = dict(dres, used=a.get("used"), batch=a.get("batch"))
            # the remaining-dependency sets shrink while the graph executes: not part of the staging
            for nd, na in zip(dres.get("nodes") or [], a.get("nodes") or []):
                nd["deps"] = na.get("deps")
            dd2 = diff_obs(a, dres, job["root"], job["root"])
            if dd2:
                ck.violation("hand-off: the snapshot left by the `conductor` entry point (directory argument spelled '%s') "
                             "differs from the in-memory staging: %s" % (job["spelling"], dd2), dict(slim, spelling=job["spelling"]))
                continue
            if dres.get("states") != ["DRYRUN"]:
                ck.violation("hand-off: the conductor entry point on the stored dry-run study left states %r" % dres.get("states"),
                             dict(slim, spelling=job["spelling"]))
                continue
            dist["conductor_entry:" + job["spelling"]] += 1
        if a.get("ok"):
            dist["instances:%02d" % min(len(a["nodes"]) - 1, 20)] += 1
        c = job.get("C")
        if c is not None:
            a_cli = dict(a, batch=a["spec_batch"], adapter=a["spec_batch"]) if a.get("spec_batch") else a
            dc = diff_obs(a_cli, c, job["root"], c.get("root", job["root"]))
            if c.get("err") in (6, 7, 9):
                ck.violation("hand-off through the command line (`maestro run -n` then a fresh load) failed: %s: %s"
                             % (c.get("exc"), c.get("msg")), slim)
                continue
            if dc:
                ck.violation("hand-off through the command line: the study stored by `maestro run` stages differently "
                             "from the in-memory study: " + dc, slim)
                continue
            dist["cli:" + ("pgen" if job["pgen"] else "yaml-params" if case["params"] else "no-params")] += 1
        # model
        dist["cfg:hash_ws=%s,use_tmp=%s,dry=%s" % tuple(case["cfg"][k] for k in ("hash_ws", "use_tmp", "dry"))] += 1
        if case["cfg"]["hash_ws"]:
            dist["model:skipped(hash_ws not in the Expand model)"] += 1
        elif b.get("ok") or b.get("err") in (1, 2):
            try:
                lits.append(c08.g_case(case, c08.relativise(b, job["root"])))
                lit_jobs.append((slim, b))
            except Exception as e:
                dist["model:not-representable"] += 1
    bad, errs = common.coq_failing(tag, c08.HEADER, "spec * result obs", "c08_agree", lits)
    for e in errs:
        ck.mismatch("coqc failed on the hand-off cases file", None, e[1])
    for i in bad[:5]:
        ck.mismatch("hand-off: the Expand model and the staging of the re-loaded study differ", lit_jobs[i][0],
                    json.dumps(lit_jobs[i][1])[:2500])
    dist["model_compared"] = len(lits)
    shutil.rmtree(work, ignore_errors=True)
    shm_sweep()
    return dict(sorted(dist.items())), len(jobs)


# ============================================================================
# (b) snapshots
# ============================================================================
def rows_of_graph(dag):
    rows = []
    for key in dag.status_subtree:
        v = dag.values[key]
        rows.append([v.name, str(v.status.name), str(v.jobid[-1]) if v.jobid else "--", str(v.restarts),
                     [str(j) for j in v.jobid]])
    return rows


def sub_snapcheck(d, outp):
    """fresh process: unpickle every snapshot under d -> rows"""
    import logging
    logging.disable(logging.CRITICAL)
    from maestrowf.datastructures.core.executiongraph import ExecutionGraph
    res = {}
    for p in sorted(glob.glob(os.path.join(d, "**", "*.pkl"), recursive=True)):
        if p.endswith(".study.pkl"):
            continue
        try:
            res[os.path.relpath(p, d)] = rows_of_graph(ExecutionGraph.unpickle(p))
        except Exception as e:
            res[os.path.relpath(p, d)] = "EXC:%s:%s" % (type(e).__name__, str(e)[:200])
    json.dump(res, open(outp, "w"))


def csv_rows(path):
    from harness import e2e
    return [[nm, state, job, restarts] for (nm, state, job, restarts, _w, _p) in e2e.parse_status(path)]


def snapshot_histories(ck, n, rng, tag="C18_snap"):
    from harness import exec_harness as H
    from harness import exec_props as EP
    from harness import e2e
    H._setup()
    from maestrowf.datastructures.core.executiongraph import ExecutionGraph
    tag = e2e.utag(tag)
    work = os.path.join(common.WORK, tag)
    shutil.rmtree(work, ignore_errors=True)
    os.makedirs(work)
    nchunk = common.NCPU
    cases, dist = [], Counter()
    shm = shm_dir(ck, tag)
    import tempfile
    old_tmp = tempfile.tempdir
    tempfile.tempdir = os.path.join(common.WORK, "tmp")     # the temp dir of this process, as for every sub-process
    os.makedirs(tempfile.tempdir, exist_ok=True)
    for i in range(n):
        chunk = os.path.join(work, "k%d" % (i % nchunk))
        os.makedirs(chunk, exist_ok=True)
        live = os.path.join(shm, "live%d" % i) if (shm and i % 3 == 0) else os.path.join(work, "live%d" % i)
        if shm and i % 3 == 0:
            dist["live_dir_on_other_filesystem"] += 1
        shape, nodes = H.gen_graph(rng)
        cfg = H.gen_cfg(rng, len(nodes))
        prof = rng.choice(list(H.PROFILES))
        problems = []

        def hook(dag, case, k, i=i, chunk=chunk, live=live, problems=problems):
            pk = os.path.join(live, "study.pkl")
            try:
                dag.pickle(pk)                       # Conductor.monitor_study: dag.pickle(pkl_path)
                dag.write_status(live)               #                          dag.write_status(dir)
            except Exception as e:
                problems.append("poll %d: the snapshot / status file could not be written: %s: %s"
                                % (k, type(e).__name__, str(e)[:200]))
                return
            shutil.copyfile(pk, os.path.join(chunk, "h%d_p%d.pkl" % (i, k)))
            shutil.copyfile(os.path.join(live, "status.csv"), os.path.join(chunk, "h%d_p%d.csv" % (i, k)))
            try:
                g2 = ExecutionGraph.unpickle(pk)     # a fresh load, at once
                r2 = rows_of_graph(g2)
                r1 = rows_of_graph(dag)
                if r1 != r2:
                    problems.append("poll %d: re-loaded snapshot differs from the live graph: %r vs %r" % (k, r2[:4], r1[:4]))
                rc = csv_rows(os.path.join(live, "status.csv"))
                if [r[:4] for r in r2] != rc:
                    problems.append("poll %d: re-loaded snapshot rows %r differ from status.csv %r" % (k, [r[:4] for r in r2][:4], rc[:4]))
            except Exception as e:
                problems.append("poll %d: the snapshot cannot be loaded: %s: %s" % (k, type(e).__name__, str(e)[:200]))
        c = H.run_history(nodes, cfg, rng, profile=prof, max_polls=12, fair_after=rng.choice([None, 3, 6]),
                          fair_bound=40, root=live, after_poll=hook)
        c["problems"] = problems
        c["idx"] = i
        cases.append(c)
        dist["polls:%02d" % min(len(c["polls"]), 20)] += 1
        dist["nodes:%d" % len(nodes)] += 1
        dist["end:" + (c["polls"][-1]["status"] if c["polls"] else "none")] += 1
    # every snapshot again, in fresh processes
    chunks = sorted(glob.glob(os.path.join(work, "k*")))

    def fresh(chunk):
        outp = chunk + ".rows.json"
        rc, out = _self(["snapcheck", chunk, outp])
        try:
            return json.load(open(outp))
        except Exception:
            return {"__error__": "rc=%d %s" % (rc, out[-400:])}
    nsnap = 0
    by_case = {c["idx"]: c for c in cases}
    for chunk, res in zip(chunks, e2e.pmap(fresh, chunks)):
        if "__error__" in res:
            ck.mismatch("snapshots: the fresh re-loading process did not complete", None, res["__error__"])
            continue
        for rel, rows in res.items():
            nsnap += 1
            i, k = [int(x[1:]) for x in os.path.basename(rel)[:-4].split("_")]
            c = by_case[i]
            if isinstance(rows, str):
                c["problems"].append("poll %d: the snapshot cannot be loaded in a fresh process: %s" % (k, rows))
                continue
            rc_ = csv_rows(os.path.join(chunk, rel[:-4] + ".csv"))
            if [r[:4] for r in rows] != rc_:
                c["problems"].append("poll %d: snapshot re-loaded in a fresh process shows %r, status.csv of the same poll %r"
                                     % (k, [r[:4] for r in rows][:4], rc_[:4]))
            live_rows = c["polls"][k]["rows"] if k < len(c["polls"]) else None
            if live_rows is not None:
                byname = {r[0]: r for r in rows}
                for x, lr in enumerate(live_rows):
                    r = byname.get("n%d" % x)
                    if r is None or [r[1], [int(j) for j in r[4]], int(r[3])] != [lr[0], lr[1], lr[2]]:
                        c["problems"].append("poll %d: step n%d re-loaded as %r, live graph had %r" % (k, x, r, lr))
                        break
    for c in cases:
        ck.count("snap:" + EP.case_key(c), nontrivial=EP.nontrivial(c), n=max(1, len(c["polls"])))
        if c["problems"]:
            ck.violation("snapshot: " + c["problems"][0], dict(EP.strip(c), problems=c["problems"][:5]))
    dist["snapshots_reloaded_in_fresh_process"] = nsnap
    tempfile.tempdir = old_tmp
    shutil.rmtree(work, ignore_errors=True)
    shm_sweep()
    return dict(sorted(dist.items())), nsnap


def _pair_check(rows, csv_path, pkl_exists):
    """final snapshot vs final status file -> None or what is wrong"""
    has_csv = os.path.exists(csv_path)
    if not pkl_exists and not has_csv:
        return None                               # the conductor went down before its first poll ended: neither was written
    if pkl_exists != has_csv:
        return "status.csv %s but the snapshot %s" % ("exists" if has_csv else "is missing", "exists" if pkl_exists else "is missing")
    if isinstance(rows, str):
        return "the snapshot cannot be loaded in a fresh process: %s" % rows
    try:
        rc_ = csv_rows(csv_path)
    except Exception as e:
        return "status.csv unreadable: %r" % (e,)
    if [x[:4] for x in rows] != rc_:
        diff = [(a, b) for a, b in zip([x[:4] for x in rows], rc_) if a != b][:4]
        return "snapshot and status.csv disagree on step states: (snapshot, status.csv) = %r" % (diff,)
    return None


def fault_histories(ck, nstudies, rng, cap, tag="C18_fault"):
    """Histories through the REAL conductor (`conductor` entry point: cleanup() in its finally;
    `maestro run -fg`) under the scripted scheduler, with a poll ABORTED by an exception raised from
    write_script / submit / check_jobs / a status query answering ERROR -- at EVERY call index the
    fault-free run of the study makes.  After the process has ended (normally or not) the snapshot
    <name>.pkl, re-loaded in a fresh process, must show the step states of status.csv."""
    from harness import e2e
    tag = e2e.utag(tag)
    work = os.path.join(common.WORK, tag + "_runs")
    shutil.rmtree(work, ignore_errors=True)
    os.makedirs(work)
    bases = []
    for i in range(nstudies):
        case = e2e.gen_abort_study(rng, "submit")
        case["faults"], case["expect_abort"] = [], None
        if i % 2 == 1:                       # a TIMEDOUT + restart in the history
            st = rng.choice(case["steps"])
            st["restart"] = True
            st["reports"] = ["RUNNING", "TIMEDOUT", "RUNNING", "FINISHED"]
        bases.append(case)
    base_res = e2e.pmap(e2e.run_scripted_case, [(c, os.path.join(work, "b%d" % i), "conductor") for i, c in enumerate(bases)])
    jobs, base_jobs = [], []
    for i, (case, res) in enumerate(zip(bases, base_res)):
        d = os.path.join(work, "b%d" % i)
        try:
            log = [json.loads(ln) for ln in open(os.path.join(d, "adapter.log")).read().split("\n") if ln]
        except Exception:
            log = []
        counts = Counter(e.get("call") for e in log)
        if res["rc"] not in (0, 2, 3):
            ck.mismatch("fault histories: the fault-free run did not reach a verdict (rc=%r)" % res["rc"], {"case": case}, res.get("tail", ""))
        base_jobs.append({"case": case, "dir": d, "mode": "conductor", "fault": None, "rc": res["rc"]})
        points = [(k, n) for k in ("write_script", "submit", "check_jobs") for n in range(counts.get(k, 0))]
        points += [("qerror", n) for n in range(1, counts.get("check_jobs", 0))]
        for (k, n) in points:
            c2 = json.loads(json.dumps(case))
            if k == "qerror":
                c2["qcodes"] = ["OK"] * n + ["ERROR"]
            else:
                c2["faults"] = [{"call": k, "n": n, "exc": rng.choice(["OSError", "ValueError", "RuntimeError"])}]
            jobs.append({"case": c2, "dir": os.path.join(work, "f%d_%s_%d" % (i, k, n)),
                         "mode": "conductor" if (n + len(k)) % 3 else "fg", "fault": [k, n]})
    todo = jobs if len(jobs) <= cap else rng.sample(jobs, cap)
    results = e2e.pmap(e2e.run_scripted_case, [(j["case"], j["dir"], j["mode"]) for j in todo])
    for j, r in zip(todo, results):
        j["rc"] = r["rc"]
    outp = os.path.join(work, "rows.json")
    rc, out = _self(["snapcheck", work, outp])
    try:
        rows = json.load(open(outp))
    except Exception:
        ck.mismatch("fault histories: the fresh re-loading process did not complete", None, "rc=%d %s" % (rc, out[-400:]))
        rows = None
    dist = Counter()
    n = 0
    for j in base_jobs + todo:
        if rows is None:
            break
        rel = os.path.join(os.path.relpath(j["dir"], work), "out", e2e.STUDY + ".pkl")
        what = _pair_check(rows.get(rel), os.path.join(j["dir"], "out", "status.csv"), rel in rows)
        n += 1
        dist["fault:" + (j["fault"][0] if j["fault"] else "none")] += 1
        dist["mode:" + j["mode"]] += 1
        dist["exit:%s" % j.get("rc")] += 1
        if rel not in rows:
            dist["went_down_before_the_first_poll_ended"] += 1
        ck.count("fault:" + json.dumps([j["case"]["steps"], j["fault"], j["mode"]], sort_keys=True), nontrivial=j["fault"] is not None)
        if what:
            ck.violation("after the conductor ended (%s; fault: %s; exit %s) %s" % (
                "`conductor` entry point, cleanup() in its finally" if j["mode"] == "conductor" else "`maestro run -fg`",
                "none" if not j["fault"] else "%s call #%d %s" % (j["fault"][0], j["fault"][1],
                                                                  "answers ERROR" if j["fault"][0] == "qerror" else "raises"),
                j.get("rc"), what), {"kind": "fault-history", "case": j["case"], "mode": j["mode"], "fault": j["fault"]})
    shutil.rmtree(work, ignore_errors=True)
    e2e.sweep()
    return dict(sorted(dist.items())), n


def long_chain(ck, nsteps, tag="C18_chain"):
    """One LONG dependency chain (record -> record links, if the implementation keeps any, make the
    object graph as deep as the chain): (i) an ExecutionGraph of nsteps chained steps pickled and
    re-loaded as monitor_study does; (ii) the same study as local steps through the real
    `maestro run -fg`: every per-poll snapshot and the final one re-loaded in a fresh process and
    compared with the status.csv of the same poll."""
    from harness import e2e
    from harness import exec_harness as H
    tag = e2e.utag(tag)
    work = os.path.join(common.WORK, tag + "_runs")
    shutil.rmtree(work, ignore_errors=True)
    os.makedirs(work)
    replay = {"kind": "long-chain", "steps": nsteps}
    n = 0
    # (i) in process
    try:
        H._setup()
        from maestrowf.datastructures.core.executiongraph import ExecutionGraph
        nodes = [{"parents": [] if i == 0 else [i - 1], "children": [i + 1] if i + 1 < nsteps else [],
                  "scheduled": False, "has_restart": False, "rlimit": 0} for i in range(nsteps)]
        live = os.path.join(work, "live")
        os.makedirs(live)
        dag = H.build_dag(nodes, {"throttle": 0, "attempts": 1, "dry": False}, live)
        pk = os.path.join(live, "chain.pkl")
        try:
            dag.pickle(pk)
            dag.write_status(live)
            r2 = rows_of_graph(ExecutionGraph.unpickle(pk))
            if [r[:4] for r in r2] != csv_rows(os.path.join(live, "status.csv")):
                ck.violation("long chain (%d steps): re-loaded snapshot differs from status.csv" % nsteps, replay)
        except Exception as e:
            ck.violation("long chain (%d chained steps): the execution-graph snapshot cannot be written / re-loaded: %s: %s"
                         % (nsteps, type(e).__name__, str(e)[:200]), replay)
        n += 1
    except Exception as e:
        ck.mismatch("long chain: harness could not build the graph: %r" % (e,), replay, "")
    # (ii) the real command line
    steps = [{"name": "c%03d" % i, "deps": [] if i == 0 else ["c%03d" % (i - 1)], "use": [], "codes": [[0]],
              "restart": False, "cancel": False, "shape": [], "end": "exit"} for i in range(nsteps)]
    case = {"shape": "chain", "scenario": "allok", "steps": steps, "params": [], "attempts": 1, "throttle": 0, "rlimit": 1,
            "hashws": False, "usetmp": False, "cancel": "no", "max_polls": nsteps + 20}
    d = os.path.join(work, "run")
    res = e2e.run_study_case((case, d, "fg"))
    if res["rc"] != 0:
        ck.violation("long chain (%d local steps, `maestro run -fg`): exit code %r, not 0; output tail: %s"
                     % (nsteps, res["rc"], res.get("tail", "")[-700:]), replay)
    else:
        outp = os.path.join(work, "rows.json")
        rc, out = _self(["snapcheck", d, outp])
        try:
            rows = json.load(open(outp))
        except Exception:
            rows = None
            ck.mismatch("long chain: the fresh re-loading process did not complete", replay, "rc=%d %s" % (rc, out[-400:]))
        if rows is not None:
            npolls = len(glob.glob(os.path.join(d, "snap", "status.*.csv")))
            pairs = [(os.path.join("snap", "graph.%d.pkl" % k), os.path.join(d, "snap", "status.%d.csv" % k)) for k in range(npolls)]
            pairs.append((os.path.join("out", e2e.STUDY + ".pkl"), os.path.join(d, "out", "status.csv")))
            for k, (pk, cs) in enumerate(pairs):
                what = _pair_check(rows.get(pk), cs, pk in rows)
                n += 1
                if what:
                    ck.violation("long chain (%d local steps, `maestro run -fg`), poll %d: %s" % (nsteps, k, what), replay)
                    break
            if npolls + 1 < nsteps:
                ck.mismatch("long chain: only %d polls for %d chained steps" % (npolls + 1, nsteps), replay, "")
    ck.count("long-chain:%d" % nsteps, nontrivial=True, n=max(1, n))
    shutil.rmtree(work, ignore_errors=True)          # (no sweep here: this runs beside the hand-off part)
    return {"steps": nsteps, "snapshots_compared": n}, n


def snapshot_e2e(ck, n, rng, tag="C18_e2e"):
    """real `maestro run -fg` runs: <name>.pkl and status.csv as monitor_study left them at every poll"""
    from harness import e2e
    tag = e2e.utag(tag)
    work = os.path.join(common.WORK, tag + "_runs")      # (WORK/tag itself is the Coq scratch of e2e.evaluate)
    shutil.rmtree(work, ignore_errors=True)
    items = [{"case": e2e.gen_local_study(rng, shape=rng.choice(["chain", "diamond", "layered", "funnel", "random"])),
              "mode": rng.choice(["fg", "fg", "conductor"]), "dir": os.path.join(work, "c%d" % i)} for i in range(n)]
    shm = shm_dir(ck, tag)
    for i, it in enumerate(items):
        if shm and i % 2 == 1:
            it["dir"] = os.path.join(shm, "c%d" % i)
    side = common.Check("C19", ck.tier, ck.seed)          # C19's clauses are not C18's verdict
    summ = e2e.evaluate(side, tag, items, keep_dirs=True)
    if side.concrete or side.corr_failures:
        ck.notes["e2e_side_findings"] = [w for w, _ in side.concrete][:3] + [w for w, _, _ in side.corr_failures][:3]
    outp = os.path.join(work, "rows.json")
    os.makedirs(work, exist_ok=True)
    rc, out = _self(["snapcheck", work, outp])
    try:
        res = json.load(open(outp))
        if shm:
            rc, out = _self(["snapcheck", shm, outp + ".shm"])
            res.update(json.load(open(outp + ".shm")))
    except Exception:
        ck.mismatch("e2e snapshots: the fresh re-loading process did not complete", None, "rc=%d %s" % (rc, out[-400:]))
        shutil.rmtree(work, ignore_errors=True)
        return {}, 0
    nsnap = 0
    for it, r in zip(items, summ):
        d = it["dir"]
        rel = os.path.relpath(d, shm if (shm and d.startswith(shm)) else work)
        pairs = [(os.path.join(rel, "snap", "graph.%d.pkl" % k), os.path.join(d, "snap", "status.%d.csv" % k))
                 for k in range(max(0, r["polls"] - 1))]
        pairs.append((os.path.join(rel, "out", e2e.STUDY + ".pkl"), os.path.join(d, "out", "status.csv")))
        for k, (pk, cs) in enumerate(pairs):
            rows = res.get(pk)
            nsnap += 1
            what = None
            if rows is None:
                what = "poll %d: no snapshot %s was written" % (k, pk)
            elif isinstance(rows, str):
                what = "poll %d: the snapshot cannot be loaded in a fresh process: %s" % (k, rows)
            else:
                try:
                    rc_ = csv_rows(cs)
                    if [x[:4] for x in rows] != rc_:
                        what = "poll %d: snapshot shows %r, status.csv of the same poll %r" % (k, [x[:4] for x in rows][:5], rc_[:5])
                except Exception as e:
                    what = "poll %d: status.csv unreadable: %r" % (k, e)
            if what:
                ck.violation("snapshot written by the real monitor loop (`maestro run`/`conductor`): " + what,
                             {"case": it["case"], "mode": it["mode"]})
                break
        ck.count("e2e-snap:" + e2e.case_key(it["case"], it["mode"]), nontrivial=r["polls"] >= 2, n=max(1, r["polls"]))
    shutil.rmtree(work, ignore_errors=True)
    return {"studies": len(items), "snapshots": nsnap, "modes": dict(Counter(it["mode"] for it in items))}, nsnap


# ============================================================================
def corpus_cases():
    out = []
    for f in sorted(glob.glob(os.path.join(common.CORPUS, PID, "*.json"))):
        try:
            d = json.load(open(f))
            d = d.get("case", d)
            if "steps" in d and "batch" in d:
                d.setdefault("stream", "corpus")
                out.append(d)
        except Exception:
            pass
    return out


def run(ck):
    import time
    t0 = time.time()
    ck.build_proofs()
    t1 = time.time()
    structural(ck)
    t2 = time.time()
    from harness.props import c08
    budget = QUICK if ck.tier != "thorough" else THOROUGH
    rng = random.Random(ck.seed * 15485863 + 18)
    cases = corpus_cases() + [gen_handoff_case(rng, c08) for _ in range(budget["handoff"])]
    import threading
    chain_out = {}
    th = threading.Thread(target=lambda: chain_out.update(r=long_chain(ck, 200)))     # sub-processes only overlap
    th.start()
    d1, n1 = handoff_part(ck, cases, c08)
    th.join()
    t3 = time.time()
    d2, n2 = snapshot_histories(ck, budget["hist"], rng)
    t4 = time.time()
    d3, n3 = snapshot_e2e(ck, budget["e2e"], rng)
    t5 = time.time()
    d4, n4 = fault_histories(ck, budget["fault_studies"], rng, budget["fault_cap"])
    t6 = time.time()
    d5, n5 = chain_out.get("r", ({"error": "long chain did not complete"}, 0))
    t7 = time.time()
    ck.notes["timing_s"] = {"proofs": round(t1 - t0, 1), "structural": round(t2 - t1, 1), "handoff": round(t3 - t2, 1),
                            "snapshot_histories": round(t4 - t3, 1), "snapshot_e2e": round(t5 - t4, 1), "fault_histories": round(t6 - t5, 1), "long_chain": round(t7 - t6, 1)}
    for c in cases[:2]:
        ck.sample({k: c[k] for k in ("params", "steps", "cfg", "batch")})
    ck.cov["traces_validated_against_impl"] = n1 + n2 + n3 + n4 + n5
    ck.cov["input_distribution"] = {"handoff": d1, "snapshot_histories": d2, "snapshot_e2e": d3, "fault_histories": d4, "long_chain": d5}
    ck.cov["rule"] = ("(a) corpus + seeded studies from C08's generator (streams valid/prefix/exotic) with typed value tables "
                      "(int/float/str/bool/mixed), template / per-row / default labels, execution configuration and "
                      "local/slurm/lsf/flux batch blocks: store in one process, load + stage in a fresh process per study, "
                      "a third through the literal `maestro run -n [--pgen]` command line; non-trivial = staged with >= 2 "
                      "instances. (b) seeded execution histories (all report kinds, cancels, query faults, restarts; a share "
                      "driven to completion) with pickle + write_status after every poll, re-loaded at once and in fresh "
                      "processes; real `maestro run -fg` / `conductor` runs with per-poll copies of <name>.pkl and status.csv. "
                      "(c) call sequences of monitor_study's loop and run_study's paths read with ast and judged in Coq.")
    ck.cov["residual"] = ("PARTIAL: that dill returns the object graph it was given (load (store D) = D, premise of "
                          "C18_stage_function) and that a snapshot can always be written is runtime behaviour of dill/CPython: "
                          "exercised by parts (a) and (b) on the generated domain, not modelled, not proved. hash_ws/use_tmp "
                          "configurations are not in the Expand model (compared implementation-to-implementation only).")

    def search():
        r2 = random.Random(ck.seed + 181818)
        ck2 = common.Check(PID, ck.tier, ck.seed)
        handoff_part(ck2, [gen_handoff_case(r2, c08) for _ in range(300)], c08, tag="C18_search_h")
        if not ck2.concrete:
            snapshot_histories(ck2, 400, r2, tag="C18_search_s")
        return ck2.concrete[0] if ck2.concrete else None

    # (b') histories through the REAL Slurm/LSF adapters (fake cluster, incl. id-only acceptance output): the graph is
    # snapshotted with dill after every poll and loaded back at once, as Conductor.monitor_study does (harness/exec_real.py)
    try:
        from harness import exec_real
        n6, d6 = exec_real.snapshot_histories(ck, 60 if ck.tier == "quick" else 1500)
        ck.cov["traces_validated_against_impl"] = ck.cov.get("traces_validated_against_impl", 0) + n6
        ck.cov.setdefault("input_distribution", {})["real_adapter_snapshot_histories"] = d6
    except Exception:
        import traceback
        ck.mismatch("the real-adapter snapshot part could not run to completion", None, traceback.format_exc()[-3000:])
    from harness import e2e
    e2e.sweep()
    shm_sweep()
    rc = ck.finish(search=search)
    e2e.sweep()
    shm_sweep()
    return rc


def replay(ck, path):
    from harness.props import c08
    d = json.load(open(path))
    d = d.get("case", d)
    if d.get("kind") == "long-chain":
        print(long_chain(ck, int(d.get("steps", 200)), tag="C18_replay_chain"))
    elif d.get("kind") == "fault-history":
        from harness import e2e
        work = os.path.join(common.WORK, e2e.utag("C18_replay_fault"))
        shutil.rmtree(work, ignore_errors=True)
        os.makedirs(work)
        jd = os.path.join(work, "f")
        r = e2e.run_scripted_case((d["case"], jd, d.get("mode", "conductor")))
        outp = os.path.join(work, "rows.json")
        _self(["snapcheck", work, outp])
        rows = json.load(open(outp))
        rel = os.path.join("f", "out", e2e.STUDY + ".pkl")
        print("exit code", r["rc"])
        print("snapshot  :", rows.get(rel))
        try:
            print("status.csv:", csv_rows(os.path.join(jd, "out", "status.csv")))
        except Exception as e:
            print("status.csv:", repr(e))
        what = _pair_check(rows.get(rel), os.path.join(jd, "out", "status.csv"), rel in rows)
        if what:
            ck.violation("after the conductor ended: " + what, d)
        shutil.rmtree(work, ignore_errors=True)
    elif "steps" in d and "batch" in d:
        d.setdefault("stream", "replay")
        dist, _ = handoff_part(ck, [d], c08, tag="C18_replay")
        print(json.dumps(dist, indent=1))
    elif "pins" in d:
        from harness import exec_harness as H
        print("snapshot replay: re-running the stored history with pickle/write_status after every poll")
        H._setup()
        from maestrowf.datastructures.core.executiongraph import ExecutionGraph
        live = os.path.join(common.WORK, "C18_replay_live")
        probs = []

        def hook(dag, case, k):
            pk = os.path.join(live, "study.pkl")
            dag.pickle(pk)
            dag.write_status(live)
            r2 = rows_of_graph(ExecutionGraph.unpickle(pk))
            rc_ = csv_rows(os.path.join(live, "status.csv"))
            print("poll", k, "snapshot", [r[:4] for r in r2], "status.csv", rc_)
            if [r[:4] for r in r2] != rc_:
                probs.append(k)
        try:
            H.run_history(d["nodes"], d["cfg"], random.Random(0), scripted_pins=d["pins"], root=live, after_poll=hook)
        except Exception as e:
            print("EXC", repr(e))
            probs.append(-1)
        return 1 if probs else 0
    elif "case" in d:
        dd, _ = snapshot_e2e(ck, 0, random.Random(0))
    for w, _ in ck.concrete:
        print("VIOLATION:", w)
    for w, _, det in ck.corr_failures:
        print("MISMATCH:", w, det[-1500:])
    return 1 if (ck.concrete or ck.corr_failures) else 0


if __name__ == "__main__":
    mode = sys.argv[1]
    if mode == "store":
        sub_store(sys.argv[2], sys.argv[3])
    elif mode == "load":
        sub_load(sys.argv[2], sys.argv[3], sys.argv[4], sys.argv[5] if len(sys.argv) > 5 else None,
                 (sys.argv[6] or None) if len(sys.argv) > 6 else None)
    elif mode == "loadsnap":
        sub_loadsnap(sys.argv[2], sys.argv[3], sys.argv[4])
    elif mode == "snapcheck":
        sub_snapcheck(sys.argv[2], sys.argv[3])
    else:
        sys.exit(64)

"""C15 -- batch scripts request exactly the declared resources and launcher.

Correspondence between the real `write_script` of SlurmScriptAdapter,
LSFScriptAdapter, LocalScriptAdapter and FluxScriptAdapter (the real
`__init__`, `get_header`, `get_parallelize_command`, `_write_script`; the
absent `flux` Python module is replaced by a stub broker handle that only
answers `attr_get("version")`) and the Gallina models Sched/Header.v +
Sched/Launcher.v, plus the monitor `C15_ok` of Sched/Readers.v (the predicate
Props/C15.v proves of the model, for all four back-ends) evaluated on the
IMPLEMENTATION's scripts: the directive reader (sbatch / bsub / flux info
lines) applied to the real header returns exactly the effective resources, no
launcher token survives, every replacement reads back (srun / jsrun / flux
run) to the requested counts, over-allocations are rejected with a diagnostic
and only then, a step with neither nodes nor procs is local with its command
verbatim, and never an internal error inside the domain H15.
Everything on the model side runs inside Coq (vm_compute over cases files).

A case = back-end, batch block (keyword arguments of the adapter), step name,
description, cmd, restart, the ordered resource keys of the run block, and the
decomposition of cmd/restart into text pieces and launcher tokens of the
documented forms (re-derived by `tokenize` when absent; Coq checks that the
pieces concatenate to the command, else the case is outside H15).

Streams:
  corpus      corpus/C15/*.json (always first; F11 / K6 witnesses)
  small       exhaustive small scope: back-end x nodes in {absent,int,str} x
              procs in {absent,int,str} x token layouts x walltime shapes
  structured  seeded, mostly valid: any subset of the schema's resource keys,
              ints or substituted decimal strings, 1-3 command lines with 0-2
              tokens of every documented form each, restart in 1/3 of cases,
              counts mostly within the step's totals
  sequence    ONE adapter instance writes 2-5 steps in a row (plus an exhaustive
              rich/lean small scope per back-end): per-instance state must not
              leak from one step's script into the next
  rewrite     steps with one name written one after the other into the SAME
              workspace directory: nothing of the older file may survive
  graphs      two or three real ExecutionGraphs in ONE process, same batch type,
              DIFFERENT batch blocks (bank / queue / host / reservation / qos ..),
              scripts generated the way the engine does (generate_scripts() or a
              dry execute_ready_steps()), also interleaved A, B, A: every script
              of a graph is judged against that graph's own batch block
  ops         the engine's sequence of operations on ONE adapter instance and step:
              write_script -> submit (process layer / flux bindings faked) ->
              check_jobs -> write_script AGAIN (a restart / resubmission rewrites
              both scripts): the second scripts must equal the first and the
              model's; submit / check_jobs must leave step.run and the adapter's
              batch dictionary as they were
  exotic      seeded: malformed tokens, zero/empty/odd values, unsafe
              characters, missing batch keys, unicode text (never inside a
              token's brackets)
"""
import glob
import json
import os
import random
import re
import shutil

from harness import common

PID = "C15"
BROKER = "0.49.0-stub"

HEADER = """From Coq Require Import List Arith NArith Bool.
From MWF Require Import Base.Str Gen.HeaderData Sched.Header Sched.Launcher Sched.Readers.
Import ListNotations.
Local Open Scope N_scope.
Definition I := VInt.
Definition S_ := VStr.
Definition B_ := VBool.
Definition F_ := VFloat.
Definition T_ := PText.
Definition mk (be : backend) (kw : dict) (args : list (str * str)) (br : str)
              (n d c r : str) (rs : dict) (cp rp : list piece) : case :=
  {| c_be := be; c_batch := {| b_kw := kw; b_args := args |}; c_broker := br;
     c_step := {| st_name := n; st_desc := d; st_cmd := c; st_restart := r; st_res := rs |};
     c_cmd := cp; c_restart := rp |}.
Definition X := OExc.
Definition K (sched : bool) (n t : str) (r : option (str * str)) : obs :=
  OScript {| sc_sched := sched; sc_name := n; sc_text := t; sc_restart := r |}.
Definition sep : N := 1114112.
Definition flat (o : obs) : list N :=
  match o with
  | OExc Diag => [0]
  | OExc Internal => [1]
  | OScript sc => [2; if sc_sched sc then 1 else 0] ++ sc_name sc ++ [sep] ++ sc_text sc ++ [sep]
                  ++ match sc_restart sc with Some (n, t) => n ++ [sep] ++ t | None => [] end
  end.
(* failing indices must print as plain numerals *)
Local Close Scope N_scope.
"""

SCHEMA_KEYS = ["nodes", "procs", "gpus", "cores per task", "tasks per rs", "rs per node",
               "cpus per rs", "bind", "bind gpus", "walltime", "reservation", "exclusive",
               "nested", "waitable", "priority", "qos"]
COUNT_KEYS = ["cores per task", "tasks per rs", "rs per node", "cpus per rs"]


# ----------------------------------------------------------------------------
# Gallina literals
# ----------------------------------------------------------------------------
def gs(t):
    """python str -> Gallina term of type str."""
    parts, cur = [], []

    def flush():
        if cur:
            parts.append('s "%s"' % "".join(cur))
            del cur[:]
    prev = ""
    for c in t:
        if prev + c in ("(*", "*)"):
            flush()
        prev = c
        if 32 <= ord(c) < 127:
            cur.append('""' if c == '"' else c)
        else:
            flush()
            parts.append("[%d%%N]" % ord(c))
    flush()
    if not parts:
        return "[]"
    if len(parts) == 1:
        return "(%s)" % parts[0]
    return "(" + " ++ ".join(parts) + ")"


def g_val(v):
    if v is None:
        return "VNone"
    if isinstance(v, bool):
        return "(B_ %s)" % common.g_bool(v)
    if isinstance(v, int):
        assert v >= 0
        return "(I %d)" % v
    if isinstance(v, float) and v.is_integer() and 0 <= v < 1e16:
        return "(F_ %d)" % int(v)           # an integral float: what YAML gives for 30.0 / 6.0e+1
    if isinstance(v, str):
        return "(S_ %s)" % gs(v)
    raise ValueError("value outside the model: %r" % (v,))


def g_dict(items):
    return common.g_list(["(%s, %s)" % (gs(k), g_val(v)) for k, v in items])


def g_pieces(ps):
    out = []
    for p in ps:
        if p[0] == "T":
            out.append("T_ %s" % gs(p[1]))
        elif p[0] == "B":
            out.append("PBare")
        elif p[0] == "NP":
            out.append("PTok (TNP %s %s %d)" % (gs(p[1]), gs(p[2]), p[3]))
        elif p[0] == "PN":
            out.append("PTok (TPN %s %s %d)" % (gs(p[1]), gs(p[2]), p[3]))
        elif p[0] == "P":
            out.append("PTok (TP %s)" % gs(p[1]))
        elif p[0] == "L":
            out.append("PTok (TLegacy %s %s %d)" % (gs(p[1]), gs(p[2]), p[3]))
        else:
            raise ValueError(p)
    return common.g_list(out)


BACKENDS = {"slurm": "Slurm", "lsf": "Lsf", "flux": "Flux", "local": "Local"}


def g_case(c):
    kw = [(k, v) for k, v in c["batch"].items() if k not in ("type", "args")]
    args = c["batch"].get("args") or {}
    gargs = common.g_list(["(%s, %s)" % (gs(str(k)), gs(str(v))) for k, v in args.items()])
    return "mk %s %s %s %s %s %s %s %s %s %s %s" % (
        BACKENDS[c["backend"]], g_dict(kw), gargs, gs(BROKER), gs(c["name"]), gs(c["desc"]),
        gs(c["cmd"]), gs(c["restart"]), g_dict([tuple(x) for x in c["res"]]),
        g_pieces(pieces_of(c, "cmd")), g_pieces(pieces_of(c, "restart")))


def g_obs(o):
    if o.get("exc"):
        return "X %s" % o["exc"]
    r = o["restart"]
    return "K %s %s %s %s" % (common.g_bool(o["sched"]), gs(o["name"]), gs(o["text"]),
                              "None" if r is None else "(Some (%s, %s))" % (gs(r[0]), gs(r[1])))


# ----------------------------------------------------------------------------
# pieces: the documented token forms
# ----------------------------------------------------------------------------
VAR = "$(LAUNCHER)"
_FORMS = [
    (re.compile(r"\[(\d+)n,( *)(\d+)p\]"), lambda m: ["NP", m.group(1), m.group(3), len(m.group(2))]),
    (re.compile(r"\[(\d+)p,( *)(\d+)n\]"), lambda m: ["PN", m.group(1), m.group(3), len(m.group(2))]),
    (re.compile(r"\[(\d+)p\]"), lambda m: ["P", m.group(1)]),
    (re.compile(r"\[(\d+),( *)(\d+)\]"), lambda m: ["L", m.group(1), m.group(3), len(m.group(2))]),
]


def tokenize(cmd):
    ps, i, text = [], 0, []
    while i < len(cmd):
        if cmd.startswith(VAR, i):
            if text:
                ps.append(["T", "".join(text)])
                text = []
            i += len(VAR)
            for rx, mk in _FORMS:
                m = rx.match(cmd, i)
                if m:
                    ps.append(mk(m))
                    i = m.end()
                    break
            else:
                ps.append(["B"])
        else:
            text.append(cmd[i])
            i += 1
    if text:
        ps.append(["T", "".join(text)])
    return ps


def piece_text(p):
    if p[0] == "T":
        return p[1]
    if p[0] == "B":
        return VAR
    if p[0] == "NP":
        return "%s[%sn,%s%sp]" % (VAR, p[1], " " * p[3], p[2])
    if p[0] == "PN":
        return "%s[%sp,%s%sn]" % (VAR, p[1], " " * p[3], p[2])
    if p[0] == "P":
        return "%s[%sp]" % (VAR, p[1])
    if p[0] == "L":
        return "%s[%s,%s%s]" % (VAR, p[1], " " * p[3], p[2])
    raise ValueError(p)


def pieces_of(c, which):
    key = which + "_pieces"
    if c.get(key) is None:
        c[key] = tokenize(c[which])
    return c[key]


# ----------------------------------------------------------------------------
# the implementation side
# ----------------------------------------------------------------------------
class Impl:
    def __init__(self):
        import logging
        logging.disable(logging.CRITICAL)
        os.environ.pop("FLUX_URI", None)
        self.err = {}
        self.cls = {}
        try:
            from maestrowf.datastructures.core.study import StudyStep
            self.StudyStep = StudyStep
        except Exception as e:
            raise RuntimeError("cannot import StudyStep: %r" % (e,))
        for key, mod, name in (("slurm", "slurmscriptadapter", "SlurmScriptAdapter"),
                               ("lsf", "lsfscriptadapter", "LSFScriptAdapter"),
                               ("local", "localscriptadapter", "LocalScriptAdapter"),
                               ("flux", "fluxscriptadapter", "FluxScriptAdapter")):
            try:
                m = __import__("maestrowf.interfaces.script." + mod, fromlist=[name])
                self.cls[key] = getattr(m, name)
            except Exception as e:          # a mutated tree may not import
                self.err[key] = e
        if "flux" in self.cls:
            try:
                from maestrowf.interfaces.script import FluxFactory

                class _Handle:
                    def attr_get(self, key):
                        return BROKER
                self.flux_handle = _Handle()
                for iface in FluxFactory.factories.values():
                    iface.flux_handle = self.flux_handle
            except Exception as e:
                self.err["flux"] = e
                self.cls.pop("flux", None)
        self.ws = os.path.join(common.WORK, "C15-ws-%d" % os.getpid())
        shutil.rmtree(self.ws, ignore_errors=True)
        os.makedirs(self.ws)

    def close(self):
        shutil.rmtree(self.ws, ignore_errors=True)

    @staticmethod
    def classify(e):
        if isinstance(e, (ValueError, RuntimeError)) or type(e) is Exception:
            return "Diag"
        return "Internal"

    @staticmethod
    def _read(p):
        with open(p, newline="") as f:
            return f.read()

    def _clean(self):
        for f in os.listdir(self.ws):
            try:
                os.remove(os.path.join(self.ws, f))
            except OSError:
                shutil.rmtree(os.path.join(self.ws, f), ignore_errors=True)

    def _step(self, c):
        step = self.StudyStep()
        step.name = c["name"]
        step.description = c["desc"]
        step.run["cmd"] = c["cmd"]
        if c["restart"]:
            step.run["restart"] = c["restart"]
        for k, v in c["res"]:
            step.run[k] = v
        return step

    def run_sequence(self, seq):
        """ONE adapter instance (the batch block of the first case) writes the
        scripts of all the steps of `seq` in order, the way ExecutionGraph does;
        `pre` lists calls made on the shared instance before write_script
        (get_header / get_parallelize_command), whose results are discarded."""
        try:
            be = seq[0]["backend"]
            if be not in self.cls:
                raise self.err.get(be) or ImportError(be)
            kw = dict(seq[0]["batch"])
            if "args" in kw:
                kw["args"] = dict(kw["args"])
            adapter = self.cls[be](**kw)
        except Exception as e:
            return [{"exc": self.classify(e), "cls": type(e).__name__, "msg": str(e)[:160]} for _ in seq]
        out = []
        for c in seq:
            self._clean()
            try:
                step = self._step(c)
                for call in c.get("pre") or []:
                    try:
                        if call == "header":
                            adapter.get_header(step)
                        elif call == "par":
                            adapter.get_parallelize_command(step.run.get("procs"), step.run.get("nodes"))
                        elif call == "cmd":
                            adapter.get_scheduler_command(step)
                    except Exception:
                        pass
                sched, path, rpath = adapter.write_script(self.ws, step)
                out.append({"sched": bool(sched), "name": os.path.basename(path), "text": self._read(path),
                            "restart": None if not rpath else [os.path.basename(rpath), self._read(rpath)]})
            except Exception as e:
                out.append({"exc": self.classify(e), "cls": type(e).__name__, "msg": str(e)[:160]})
        return out

    def _graph_once(self, steps, root, mode):
        """a real ExecutionGraph over `steps` (one batch block), scripts generated by the
        engine; observables of the written prefix, then the exception (if any)"""
        from maestrowf.datastructures.core.executiongraph import ExecutionGraph
        exc = None
        dag = None
        try:
            dag = ExecutionGraph(submission_attempts=1, submission_throttle=0, use_tmp=False, dry_run=True)
            dag.add_description("study", "two graphs")
            dag.add_node("_source", None)
            for i, c in enumerate(steps):
                dag.add_step(c["name"], self._step(c), os.path.join(root, "s%d" % i), 0)
                dag.add_connection("_source", c["name"])
            kw = dict(steps[0]["batch"])
            if "args" in kw:
                kw["args"] = dict(kw["args"])
            dag.set_adapter(kw)
            if mode == "execute_ready_steps":
                dag.execute_ready_steps()
            else:
                dag.generate_scripts()
        except Exception as e:
            exc = e
        out = []
        for c in steps:
            rec = None
            try:
                rec = dag.values[c["name"]]
            except Exception:
                pass
            path = getattr(rec, "script", "") if rec is not None else ""
            if path:
                try:
                    rpath = rec.restart_script
                    out.append({"sched": bool(rec.to_be_scheduled), "name": os.path.basename(path),
                                "text": self._read(path),
                                "restart": None if not rpath else [os.path.basename(rpath), self._read(rpath)]})
                    continue
                except Exception as e:
                    exc = exc or e
            e = exc or RuntimeError("the engine wrote no script for the step")
            out.append({"exc": self.classify(e) if exc else "Internal", "cls": type(e).__name__, "msg": str(e)[:160]})
            return out
        if exc is not None and out:
            out[-1] = {"exc": "Internal", "cls": type(exc).__name__, "msg": str(exc)[:160]}
        return out

    def run_graphs(self, group):
        """the graphs of `group` (lists of steps, one batch block each) are built and have
        their scripts generated one after the other in THIS process"""
        self._clean()
        out = []
        for gi, steps in enumerate(group):
            mode = steps[0]["graphs"][3]
            remaining, part = list(steps), 0
            while remaining:
                try:
                    got = self._graph_once(remaining, os.path.join(self.ws, "g%d_%d" % (gi, part)), mode)
                except Exception as e:         # e.g. the module does not import
                    got = [{"exc": "Internal", "cls": type(e).__name__, "msg": str(e)[:160]}]
                got = got[:len(remaining)] or [{"exc": "Internal", "cls": "NoObservable", "msg": ""}]
                out.extend(got)
                remaining = remaining[len(got):]
                part += 1
        return out

    def _written(self, ret):
        sched, path, rpath = ret
        return {"sched": bool(sched), "name": os.path.basename(path), "text": self._read(path),
                "restart": None if not rpath else [os.path.basename(rpath), self._read(rpath)]}

    @staticmethod
    def _dict_diff(a, b):
        keys = sorted(set(a) | set(b), key=str)
        return {str(k): [repr(a.get(k, "<absent>")), repr(b.get(k, "<absent>"))] for k in keys
                if k not in a or k not in b or a[k] != b[k] or type(a[k]) is not type(b[k])}

    def run_ops(self, c):
        """write_script -> submit -> check_jobs -> write_script again, on one adapter instance and
        one step (what the engine does when it restarts or resubmits a record).  The observable is
        the SECOND pair of scripts; `ops` says what else happened."""
        import copy
        from harness.props import c07_adapters as F
        self._clean()
        ops = {"first_equal": None, "submit": None, "check": None, "run_changed": {}, "batch_changed": {}}
        try:
            be = c["backend"]
            if be not in self.cls:
                raise self.err.get(be) or ImportError(be)
            kw = dict(c["batch"])
            if "args" in kw:
                kw["args"] = dict(kw["args"])
            adapter = self.cls[be](**kw)
            step = self._step(c)
            first = self._written(adapter.write_script(self.ws, step))
        except Exception as e:
            return {"exc": self.classify(e), "cls": type(e).__name__, "msg": str(e)[:160], "ops": ops}
        run0 = copy.deepcopy(dict(step.run))
        batch0 = copy.deepcopy(dict(getattr(adapter, "_batch", {})))
        path = os.path.join(self.ws, first["name"])

        def drive():
            try:
                rec = adapter.submit(step, path, self.ws)
                ops["submit"] = "ok"
            except Exception as e:
                ops["submit"] = "%s: %s" % (type(e).__name__, str(e)[:120])
                return
            try:
                adapter.check_jobs([rec.job_identifier])
                ops["check"] = "ok"
            except Exception as e:
                ops["check"] = "%s: %s" % (type(e).__name__, str(e)[:120])
        try:
            if be == "flux":
                with F.FakeFluxInstalled() as ff:
                    for cls_, _old in ff.classes:
                        cls_.flux_handle = self.flux_handle
                    F.WORLD.reset(pool=[101, 102, 103])
                    drive()
            else:
                with F.ProcLayer(F.ProcWorld(pool=["4101", "4102", "4103"])):
                    drive()
        except Exception as e:
            ops["submit"] = ops["submit"] or "%s: %s" % (type(e).__name__, str(e)[:120])
        ops["run_changed"] = self._dict_diff(run0, dict(step.run))
        ops["batch_changed"] = self._dict_diff(batch0, dict(getattr(adapter, "_batch", {})))
        try:
            second = self._written(adapter.write_script(self.ws, step))
        except Exception as e:
            second = {"exc": self.classify(e), "cls": type(e).__name__, "msg": str(e)[:160]}
        ops["first_equal"] = (second == first)
        if second != first:
            ops["first"] = first
        second["ops"] = ops
        return second

    def run_rewrite(self, group):
        """the steps of `group` (same step name) are written one after the other
        into the SAME workspace directory, each by a fresh adapter instance (a
        re-run of a study into an existing workspace); the observable is what
        is in the files after each write"""
        self._clean()
        return [self.run(c, clean=False) for c in group]

    def run(self, c, clean=True):
        if clean:
            self._clean()
        try:
            be = c["backend"]
            if be not in self.cls:
                raise self.err.get(be) or ImportError(be)
            kw = dict(c["batch"])
            if "args" in kw:
                kw["args"] = dict(kw["args"])
            adapter = self.cls[be](**kw)
            step = self.StudyStep()
            step.name = c["name"]
            step.description = c["desc"]
            step.run["cmd"] = c["cmd"]
            if c["restart"]:
                step.run["restart"] = c["restart"]
            for k, v in c["res"]:
                step.run[k] = v
            sched, path, rpath = adapter.write_script(self.ws, step)
            return {"sched": bool(sched), "name": os.path.basename(path), "text": self._read(path),
                    "restart": None if not rpath else [os.path.basename(rpath), self._read(rpath)]}
        except Exception as e:
            return {"exc": self.classify(e), "cls": type(e).__name__, "msg": str(e)[:160]}


# ----------------------------------------------------------------------------
# generators
# ----------------------------------------------------------------------------
WORDS = ["a.out", "./app", "echo hi", "hostname", "python run.py --n 4", "sleep 1", "lulesh -s 10",
         "mpi_hello > out.txt", "date", "cd $(WORKSPACE)", "./sim -i in.dat | tee log"]
NAMES = ["step", "run-sim", "post_process", "lulesh 1", "a", "step.SIZE.10", "Build Code", "x_y-z.0"]
# white space other than the blank in a step name: the Slurm job name neutralises every character
# the unicode \s matches, LSF and Flux only the blank (each judged by what the real adapter writes)
WS_NAMES = ["tab\there", "vt\x0bff\x0cend", "nb\u00a0sp", "em\u2003space x", "nel\u0085name", " lead\ttrail\u00a0",
            "fs\x1cgs\x1d", "thin\u2009ls\u2028", "zwsp\u200bkept"]
DESCS = ["d", "Run the simulation", "two\nlines", "say \"hi\"", "tabs\tand more", ""]


def count_val(rng, n):
    r = rng.random()
    if r < 0.55:
        return n
    if r < 0.95:
        return str(n)
    return "0%d" % n


def gen_token(rng, maxn, maxp, over=False):
    """a launcher token of a documented form, mostly within (maxn, maxp)."""
    n = rng.randint(1, max(1, maxn or 3))
    p = rng.randint(1, max(1, maxp or 8))
    if over:
        if rng.random() < 0.5:
            n = (maxn or 2) + rng.randint(1, 3)
        else:
            p = (maxp or 4) + rng.randint(1, 5)
    sp = rng.choice([0, 0, 1, 1, 2])
    ns, psx = str(n), str(p)
    if rng.random() < 0.05:
        ns = "0" + ns
    f = rng.random()
    if f < 0.2:
        return ["B"]
    if f < 0.5:
        return ["NP", ns, psx, sp]
    if f < 0.65:
        return ["P", psx]
    if f < 0.8:
        return ["PN", psx, ns, sp]
    return ["L", ns, psx, sp]


EXOTIC_TOKENS = ["$(LAUNCHER)[2n]", "$(LAUNCHER)[]", "$(LAUNCHER)[x]", "$(LAUNCHER)[1n,2p", "$(LAUNCHER)[2p,3p]",
                 "$(LAUNCHER)[1n,1n,2p]", "$(LAUNCHER)[ 1n , 2p ]", "$(LAUNCHER)[1,2,3]", "$(LAUNCHER)[a,1,2]",
                 "$(LAUNCHER)[p]", "$(LAUNCHER)[1n2p]", "$(LAUNCHER)[1 n,2 p]", "$(LAUNCHER)[$(LAUNCHER)[1p]]",
                 "$(LAUNCHER)[1,\t2]", "$(LAUNCHER)[,1,2]", "$(LAUNCHER)[1p]]", "$(LAUNCHER)[[1p]", "$(LAUNCHER",
                 "$(LAUNCHER)[1_0p]", "$(LAUNCHER)[2p,1]", "$(LAUNCHER)[+1,2]", "$(LAUNCHER)[1,2]x[3p]",
                 "$(LAUNCHER)[1n, 2P]", "$(launcher)", "$(LAUNCHER)[9999999999999999999999p]", "$(LAUNCHER)[0p]",
                 "$(LAUNCHER)[0n,0p]", "$(LAUNCHER)[1.5p]", "$(LAUNCHER)[-1n,2p]"]


def gen_cmd(rng, maxn, maxp, exotic=False):
    """-> (text, pieces or None)"""
    ps = []
    nlines = rng.choice([1, 1, 1, 2, 2, 3])
    budget_over = rng.random() < 0.12
    for li in range(nlines):
        ntok = rng.choice([0, 1, 1, 1, 2, 2])
        line = []
        if rng.random() < 0.4 or ntok == 0:
            line.append(["T", rng.choice(WORDS) + (" " if ntok else "")])
        for ti in range(ntok):
            line.append(gen_token(rng, maxn, maxp, over=budget_over and rng.random() < 0.5))
            line.append(["T", " " + rng.choice(WORDS) + rng.choice(["", "", " &", "; ", " && "])])
        if li < nlines - 1:
            line.append(["T", "\n"])
        ps.extend(line)
    # merge adjacent texts
    merged = []
    for p in ps:
        if p[0] == "T" and merged and merged[-1][0] == "T":
            merged[-1] = ["T", merged[-1][1] + p[1]]
        else:
            merged.append(list(p))
    text = "".join(piece_text(p) for p in merged)
    if exotic:
        k = rng.randint(1, 2)
        for _ in range(k):
            tok = rng.choice(EXOTIC_TOKENS)
            pos = rng.choice([0, len(text), rng.randint(0, len(text))])
            text = text[:pos] + tok + rng.choice([" ", "", "\n"]) + text[pos:]
        if rng.random() < 0.3:
            text = rng.choice(["# comment first\n", "\n", "  ", "#SBATCH --nodes=99\n", "été ", "\r\n"]) + text
        return text, None
    return text, merged


def base_batch(rng, be):
    b = {"type": be, "host": "quartz", "bank": "baasic", "queue": "pbatch"}
    if be == "local":
        b = {"type": "local"}
        if rng.random() < 0.3:
            b["shell"] = rng.choice(["/bin/bash", "/bin/tcsh", "/usr/bin/env bash"])
        return b
    if rng.random() < 0.35:
        b["nodes"] = count_val(rng, rng.randint(1, 4))
    if rng.random() < 0.25:
        b["procs"] = count_val(rng, rng.randint(1, 16))
    if rng.random() < 0.25:
        b["reservation"] = rng.choice(["res1", "dat-1", ""])
    if rng.random() < 0.25:
        b["qos"] = rng.choice(["standby", "normal", "exempt"])
    if rng.random() < 0.08:
        b["gpus"] = rng.choice([1, 2, "4"])
    if rng.random() < 0.15:
        b["shell"] = rng.choice(["/bin/bash", "/bin/tcsh", "/bin/sh"])
    if be == "flux":
        if rng.random() < 0.3:
            b["args"] = dict(rng.sample([("mpi", "spectrum"), ("cpu-affinity", "per-task"), ("verbose", 2)],
                                        rng.randint(1, 2)))
        if rng.random() < 0.15:
            b["uri"] = rng.choice(["local:///run/flux/local", "ssh://host/tmp/flux-1"])
        if rng.random() < 0.2:
            b["version"] = "0.49.0"
    return b


def gen_res(rng, exotic=False):
    """ordered resource keys of the run block -> (list of [k, v], maxn, maxp)"""
    res = []
    r = rng.random()
    maxn = maxp = 0
    if r < 0.12:
        pass                                    # neither: a local step
    elif r < 0.30:
        maxn = rng.randint(1, 4)
    elif r < 0.48:
        maxp = rng.choice([1, 2, 4, 8, 16, 36, 72])
    else:
        maxn = rng.randint(1, 4)
        maxp = maxn * rng.choice([1, 2, 4, 18, 36])
    if maxn:
        res.append(["nodes", count_val(rng, maxn)])
    if maxp:
        res.append(["procs", count_val(rng, maxp)])
    keys = [k for k in SCHEMA_KEYS if k not in ("nodes", "procs")]
    rng.shuffle(keys)
    for k in keys[:rng.choice([0, 1, 1, 2, 3, 5, 9])]:
        if k in COUNT_KEYS:
            v = count_val(rng, rng.randint(1, 4))
        elif k == "gpus":
            v = rng.choice([0, 1, 2, "1", "4"])
        elif k == "walltime":
            # every form the schema admits: integer, integral float (30.0, 6.0e+1), digit text, colon forms,
            # day forms, "inf", 0
            v = rng.choice(["00:10:00", "01:30:00", "10", 30, "2:00", "00:00:30", "1:59:59", 0, "12:00:01",
                            30.0, 6.0e+1, 90.0, 0.0, 1.0, "90", "05:30", "1-02:03:04", "2-00", "inf", "0", "120.0"])
        elif k == "reservation":
            v = rng.choice(["myres", "dat_2"])
        elif k == "exclusive":
            v = rng.choice([True, True, False, "True"])
        elif k in ("nested", "waitable"):
            v = rng.choice([True, False])
        elif k == "priority":
            v = rng.choice(["high", "LOW", "medium"])
        elif k == "qos":
            v = rng.choice(["standby", "expedite"])
        elif k == "bind":
            v = rng.choice(["rs", "none", "packed:2"])
        elif k == "bind gpus":
            v = rng.choice(["none", "per_rs"])
        res.append([k, v])
    rng.shuffle(res)
    if exotic:
        for _ in range(rng.randint(1, 2)):
            k = rng.choice(SCHEMA_KEYS + ["queue", "bank", "job-name"])
            v = rng.choice(["", 0, "0", "abc", "1 2", "2-4", " 3", "3 ", "1_0", "+2", "-1", True, False, None, "x\"y",
                            "a b", "$(N)", "1;rm", "--evil", "é", "00:10", "1:2:3:4", "inf", "::", "a:b:c", "1.5",
                            "00:00:61", "-1:00:00"])
            res = [kv for kv in res if kv[0] != k] + [[k, v]]
        maxn = maxn or 0
    return res, maxn, maxp


def gen_case(rng, stream):
    exotic = stream == "exotic"
    be = rng.choices(["slurm", "lsf", "flux", "local"], [42, 24, 22, 12])[0]
    b = base_batch(rng, be)
    res, maxn, maxp = gen_res(rng, exotic)
    cmd, cp = gen_cmd(rng, maxn, maxp, exotic and rng.random() < 0.7)
    restart, rp = "", []
    if rng.random() < 0.33:
        restart, rp = gen_cmd(rng, maxn, maxp, exotic and rng.random() < 0.3)
    if exotic and be != "local" and rng.random() < 0.06:
        b.pop(rng.choice(["host", "bank", "queue"]))
    if exotic and rng.random() < 0.1:
        b["nodes"] = rng.choice(["", 0, "x", None])
    name = rng.choice(NAMES)
    if rng.random() < (0.1 if exotic else 0.06):
        name = rng.choice(WS_NAMES)
    elif exotic and rng.random() < 0.2:
        name = rng.choice(["näme", "a b c", "with\"quote", "semi;colon", "-dash", "sp  ace"])
    c = {"backend": be, "batch": b, "name": name, "desc": rng.choice(DESCS), "cmd": cmd, "restart": restart,
         "res": res, "cmd_pieces": cp, "restart_pieces": rp, "stream": stream}
    return c


def gen_sequence(rng, sid):
    """2-5 steps for ONE adapter instance: rich steps first, lean ones later,
    sometimes the same step twice, sometimes other adapter calls in between."""
    be = rng.choices(["slurm", "lsf", "flux", "local"], [45, 25, 25, 5])[0]
    b = base_batch(rng, be)
    n = rng.randint(2, 5)
    seq = []
    for i in range(n):
        if seq and rng.random() < 0.15:
            c = json.loads(json.dumps(strip_case(rng.choice(seq)), default=str))
        else:
            res, maxn, maxp = gen_res(rng)
            if i > 0 and rng.random() < 0.6:          # a lean later step
                keep = rng.choice([["procs"], ["nodes"], ["nodes", "procs"], ["procs", "walltime"]])
                res = [kv for kv in res if kv[0] in keep]
                if not any(kv[0] in ("nodes", "procs") for kv in res):
                    res.append(["procs", rng.choice([1, 2, 4])])
                maxn = next((int(v) for k, v in res if k == "nodes"), 0)
                maxp = next((int(v) for k, v in res if k == "procs"), 0)
            elif i == 0 and rng.random() < 0.7:       # a rich first step
                have = set(k for k, _ in res)
                for k, v in (("nodes", 2), ("procs", 4), ("walltime", "00:10:00"), ("gpus", 2),
                             ("exclusive", True), ("qos", "standby"), ("reservation", "myres"),
                             ("cores per task", 2)):
                    if k not in have and rng.random() < 0.7:
                        res.append([k, v])
                maxn = next((int(v) for k, v in res if k == "nodes"), 0)
                maxp = next((int(v) for k, v in res if k == "procs"), 0)
            cmd, cp = gen_cmd(rng, maxn, maxp)
            restart, rp = ("", [])
            if rng.random() < 0.2:
                restart, rp = gen_cmd(rng, maxn, maxp)
            c = {"backend": be, "batch": b, "name": rng.choice(NAMES), "desc": rng.choice(["d", "Run it", ""]),
                 "cmd": cmd, "restart": restart, "res": res, "cmd_pieces": cp, "restart_pieces": rp}
        c["stream"] = "sequence"
        c["seq"] = [sid, i, n]
        c["pre"] = rng.choice([[], [], [], ["header"], ["par"], ["cmd"], ["header", "par"]])
        seq.append(c)
    return seq


def gen_rewrite(rng, gid):
    """2-3 steps with ONE name for one workspace directory: mostly a rich, long
    script first and a leaner, shorter one afterwards; sometimes the same twice"""
    be = rng.choices(["slurm", "lsf", "flux", "local"], [40, 22, 22, 16])[0]
    b = base_batch(rng, be)
    name = rng.choice(NAMES)
    group = []
    for i in range(rng.choice([2, 2, 3])):
        if group and rng.random() < 0.2:
            c = json.loads(json.dumps(strip_case(group[-1]), default=str))
        else:
            res, maxn, maxp = gen_res(rng)
            if i == 0:
                have = set(k for k, _ in res)
                for k, v in (("nodes", 4), ("procs", 16), ("walltime", "01:30:00"), ("gpus", 2),
                             ("exclusive", True), ("reservation", "myres")):
                    if k not in have and rng.random() < 0.6:
                        res.append([k, v])
            else:
                keep = rng.choice([["procs"], ["nodes", "procs"], ["procs", "walltime"], []])
                res = [kv for kv in res if kv[0] in keep]
            maxn = next((int(v) for k, v in res if k == "nodes"), 0)
            maxp = next((int(v) for k, v in res if k == "procs"), 0)
            cmd, cp = gen_cmd(rng, maxn, maxp)
            if i > 0:
                cmd, cp = cmd.split("\n")[0] or "a.out", None      # shorter
            restart, rp = ("", [])
            if rng.random() < (0.6 if i == 0 else 0.15):
                restart, rp = gen_cmd(rng, maxn, maxp)
            c = {"backend": be, "batch": b, "name": name, "desc": rng.choice(["d", "Run the simulation", ""]),
                 "cmd": cmd, "restart": restart, "res": res, "cmd_pieces": cp, "restart_pieces": rp}
        c["stream"] = "rewrite"
        c["rewrite"] = [gid, i]
        group.append(c)
    return group


def other_batch(rng, b):
    """the same batch type, a different block"""
    o = dict(b)
    if "args" in o:
        o["args"] = dict(o["args"])
    if o["type"] == "local":
        o["shell"] = "/bin/tcsh" if o.get("shell", "/bin/bash") != "/bin/tcsh" else "/bin/sh"
        return o
    ks = rng.sample(["bank", "queue", "host"], rng.randint(1, 3))
    for k in ks:
        o[k] = {"bank": ["science", "guests", "wbronze"], "queue": ["pdebug", "pshort", "plong"],
                "host": ["ruby", "lassen", "corona"]}[k][rng.randrange(3)]
    if rng.random() < 0.4:
        if o.get("reservation"):
            o.pop("reservation")
        else:
            o["reservation"] = "other-res"
    if rng.random() < 0.3:
        o["qos"] = "expedite" if o.get("qos") != "expedite" else "normal"
    if rng.random() < 0.25:
        o["nodes"] = 3 if o.get("nodes") != 3 else 5
    if rng.random() < 0.15:
        o[rng.choice(["bank", "queue", "host", "reservation"])] = ""     # a setting left blank
    return o


def gen_graphs(rng, gid):
    """2-3 graphs of 1-2 steps, same batch type, different blocks; the third is graph A's block
    again (A, B, A) or one more block"""
    be = rng.choices(["slurm", "lsf", "flux", "local"], [45, 30, 20, 5])[0]
    a = base_batch(rng, be)
    blocks = [a, other_batch(rng, a)]
    if rng.random() < 0.6:
        blocks.append(a if rng.random() < 0.6 else other_batch(rng, blocks[1]))
    mode = rng.choice(["generate_scripts", "execute_ready_steps"])
    group = []
    for gi, b in enumerate(blocks):
        steps = []
        names = rng.sample(NAMES, rng.choice([1, 1, 2]))
        for si, name in enumerate(names):
            res, maxn, maxp = gen_res(rng)
            cmd, cp = gen_cmd(rng, maxn, maxp)
            restart, rp = ("", [])
            if rng.random() < 0.2:
                restart, rp = gen_cmd(rng, maxn, maxp)
            # the engine substitutes $(WORKSPACE) in the command before the adapter sees it: not the subject here
            cmd, cp, restart, rp = json.loads(json.dumps([cmd, cp, restart, rp]).replace("$(WORKSPACE)", "./ws"))
            steps.append({"backend": be, "batch": b, "name": name, "desc": rng.choice(["d", "Run it", ""]),
                          "cmd": cmd, "restart": restart, "res": res, "cmd_pieces": cp, "restart_pieces": rp,
                          "stream": "graphs", "graphs": [gid, gi, si, mode]})
        group.append(steps)
    return group


def gen_ops(rng, i):
    """a scheduled step (often declaring only one of nodes / procs, with a restart command) for the
    write -> submit -> check -> write again sequence"""
    c = gen_case(rng, "structured")
    if rng.random() < 0.5:
        drop = rng.choice(["nodes", "procs"])
        if any(k == ("procs" if drop == "nodes" else "nodes") and v for k, v in c["res"]):
            c["res"] = [kv for kv in c["res"] if kv[0] != drop]
            c["cmd"], c["cmd_pieces"] = VAR + " ./app input", [["B"], ["T", " ./app input"]]
            c["restart"], c["restart_pieces"] = VAR + " ./app --restart", [["B"], ["T", " ./app --restart"]]
            if c["backend"] != "local" and rng.random() < 0.5:
                c["batch"]["nodes"] = rng.choice([2, 4])
    c["stream"] = "ops"
    return c


def small_ops():
    """every back-end x (nodes only | procs only | both | neither) x batch-level nodes absent | 4"""
    out = []
    for be in ("slurm", "lsf", "flux", "local"):
        for res in ([["nodes", 2]], [["procs", 8]], [["nodes", 2], ["procs", 8]], [["nodes", "2"]], [["procs", "8"]], []):
            for bn in (None, 4):
                if be == "local" and (bn or res):
                    continue
                b = {"type": be} if be == "local" else {"type": be, "host": "h", "bank": "b", "queue": "q"}
                if bn:
                    b["nodes"] = bn
                ps = [["B"], ["T", " ./app input"]] if be != "local" else [["T", "./app input"]]
                rp = [["B"], ["T", " ./app --restart"]] if be != "local" else [["T", "./app --restart"]]
                out.append({"backend": be, "batch": b, "name": "s1", "desc": "d",
                            "cmd": "".join(piece_text(p) for p in ps), "restart": "".join(piece_text(p) for p in rp),
                            "res": [list(kv) for kv in res] + ([["walltime", "00:10:00"]] if res else []),
                            "cmd_pieces": ps, "restart_pieces": rp, "stream": "ops"})
    return out


def small_graphs():
    """every back-end, both ways of generating: A then B, and A, B, A"""
    out, gid = [], 0
    for be in ("slurm", "lsf", "flux"):
        a = {"type": be, "host": "h1", "bank": "bankA", "queue": "qA", "reservation": "resA"}
        b = {"type": be, "host": "h2", "bank": "bankB", "queue": "qB"}
        for mode in ("generate_scripts", "execute_ready_steps"):
            blank = {"type": be, "host": "h3", "bank": "", "queue": "qC"}
            for blocks in ((a, b), (a, b, a), (b, a), (blank, a)):
                group = []
                for gi, blk in enumerate(blocks):
                    group.append([{"backend": be, "batch": blk, "name": "s1", "desc": "d",
                                   "cmd": "$(LAUNCHER) ./sim", "restart": "", "res": [["nodes", 1], ["procs", 4]],
                                   "cmd_pieces": None, "restart_pieces": None, "stream": "graphs",
                                   "graphs": ["small%d" % gid, gi, 0, mode]}])
                out.append(group)
                gid += 1
    return out


def small_rewrites():
    """every back-end (local too): rich then lean, lean then rich, the same twice,
    restart script present then absent"""
    rich = {"res": [["nodes", 4], ["procs", 16], ["walltime", "01:30:00"], ["gpus", 2], ["exclusive", True]],
            "cmd": "$(LAUNCHER)[4n,16p] ./sim --long-option 1\n$(LAUNCHER) ./post", "restart": "$(LAUNCHER) ./sim --restart"}
    lean = {"res": [["nodes", 1], ["procs", 4]], "cmd": "$(LAUNCHER) ./sim", "restart": ""}
    loc_rich = {"res": [], "cmd": "echo a long first line of the command\necho second line", "restart": "echo restart"}
    loc_lean = {"res": [], "cmd": "echo hi", "restart": ""}
    out, gid = [], 0
    for be in ("slurm", "lsf", "flux", "local"):
        b = {"type": be} if be == "local" else {"type": be, "host": "h", "bank": "b", "queue": "q"}
        variants = {"r": rich, "l": lean, "R": loc_rich, "L": loc_lean}
        for order in ("rl", "lr", "rr", "RL", "LR", "RR", "rL", "Rl"):
            group = []
            for i, ch in enumerate(order):
                v = variants[ch]
                group.append({"backend": be, "batch": b, "name": "s1", "desc": "d", "cmd": v["cmd"],
                              "restart": v["restart"], "res": [list(kv) for kv in v["res"]], "cmd_pieces": None,
                              "restart_pieces": None, "stream": "rewrite", "rewrite": ["small%d" % gid, i]})
            out.append(group)
            gid += 1
    return out


def small_sequences():
    """every scheduled back-end: a step declaring many keys, then a lean step
    (and the other way round, and the rich one twice)"""
    rich = [["nodes", 2], ["procs", 4], ["walltime", "00:10:00"], ["gpus", 2], ["exclusive", True],
            ["reservation", "myres"], ["cores per task", 2]]
    leans = [[["procs", 2]], [["nodes", 1]], [["procs", 2], ["nodes", 1]]]
    out, sid = [], 0
    for be in ("slurm", "lsf", "flux"):
        b = {"type": be, "host": "h", "bank": "b", "queue": "q"}
        for lean in leans:
            for order in ("rl", "lr", "rrl"):
                steps = {"r": ("rich", rich, "$(LAUNCHER)[1n,2p] a.out"), "l": ("lean", lean, "b.out")}
                seq = []
                for i, ch in enumerate(order):
                    nm, res, cmd = steps[ch]
                    seq.append({"backend": be, "batch": b, "name": nm, "desc": "d", "cmd": cmd, "restart": "",
                                "res": [list(kv) for kv in res], "cmd_pieces": None, "restart_pieces": None,
                                "stream": "sequence", "seq": ["small%d" % sid, i, len(order)], "pre": []})
                out.append(seq)
                sid += 1
    return out


SMALL_LAYOUTS = [
    ("none", [["T", "a.out"]]),
    ("bare", [["B"], ["T", " a.out"]]),
    ("np", [["NP", "1", "2", 0], ["T", " a.out"]]),
    ("np-sp", [["NP", "2", "4", 1], ["T", " a.out"]]),
    ("p", [["P", "2"], ["T", " a.out"]]),
    ("pn", [["PN", "2", "1", 1], ["T", " a.out"]]),
    ("legacy", [["L", "1", "2", 0], ["T", " a.out"]]),
    ("legacy-sp", [["L", "1", "2", 1], ["T", " a.out"]]),
    ("over-n", [["NP", "3", "2", 0], ["T", " a.out"]]),
    ("over-p", [["P", "5"], ["T", " a.out"]]),
    ("two-on-line", [["NP", "1", "2", 0], ["T", " a.out; "], ["NP", "1", "2", 1], ["T", " b.out"]]),
    ("two-lines-sum-over", [["NP", "1", "2", 1], ["T", " a\n"], ["NP", "2", "2", 1], ["T", " b"]]),
    ("mixed", [["B"], ["T", " a\n"], ["P", "1"], ["T", " b"]]),
    ("same-twice", [["P", "2"], ["T", " a\n"], ["P", "2"], ["T", " b"]]),
]


def small_scope(tier):
    cases = []
    walls = [None, "00:10:00", 10] if tier == "thorough" else [None, "00:10:00"]
    for be in ("slurm", "lsf", "flux", "local"):
        for nodes in (None, 2, "2"):
            for procs in (None, 4, "4"):
                for lname, ps in SMALL_LAYOUTS:
                    for w in walls:
                        if be == "local" and (w is not None or lname not in ("none", "bare", "np")):
                            continue
                        res = []
                        if nodes is not None:
                            res.append(["nodes", nodes])
                        if procs is not None:
                            res.append(["procs", procs])
                        if w is not None:
                            res.append(["walltime", w])
                        b = {"type": be} if be == "local" else {"type": be, "host": "h", "bank": "b", "queue": "q"}
                        cmd = "".join(piece_text(p) for p in ps)
                        restart_ps = ps if (lname in ("np", "mixed") and w is None) else []
                        cases.append({"backend": be, "batch": b, "name": "s1", "desc": "d", "cmd": cmd,
                                      "restart": "".join(piece_text(p) for p in restart_ps), "res": res,
                                      "cmd_pieces": [list(p) for p in ps], "restart_pieces": [list(p) for p in restart_ps],
                                      "stream": "small"})
    # every back-end x every form of walltime the schema admits
    for be in ("slurm", "lsf", "flux", "local"):
        for w in (30, 30.0, 6.0e+1, 0.0, 0, "30", "00:30:00", "30:00", "1-00:00:00", "inf", "30.0", True):
            b = {"type": be} if be == "local" else {"type": be, "host": "h", "bank": "b", "queue": "q"}
            ps = [["B"], ["T", " ./sim"]]
            cases.append({"backend": be, "batch": b, "name": "s1", "desc": "d",
                          "cmd": "".join(piece_text(p) for p in ps), "restart": "",
                          "res": [["nodes", 1], ["procs", 4], ["walltime", w]],
                          "cmd_pieces": [list(p) for p in ps], "restart_pieces": [], "stream": "small"})
    # every back-end x every kind of white space in the step name
    for be in ("slurm", "lsf", "flux", "local"):
        for name in WS_NAMES:
            b = {"type": be} if be == "local" else {"type": be, "host": "h", "bank": "b", "queue": "q"}
            ps = [["B"], ["T", " ./sim"]] if be != "local" else [["T", "echo hi"]]
            res = [] if be == "local" else [["nodes", 1], ["procs", 4]]
            cases.append({"backend": be, "batch": b, "name": name, "desc": "d",
                          "cmd": "".join(piece_text(p) for p in ps), "restart": "", "res": res,
                          "cmd_pieces": [list(p) for p in ps], "restart_pieces": [], "stream": "small"})
    return cases


def load_corpus():
    out = []
    for p in sorted(glob.glob(os.path.join(common.CORPUS, PID, "*.json"))):
        try:
            d = json.load(open(p))
        except (OSError, ValueError):
            continue
        c = d.get("case", d)
        c = dict(c)
        c.setdefault("restart", "")
        c.setdefault("desc", "d")
        c.setdefault("name", "s1")
        c.setdefault("res", [])
        c["stream"] = "corpus"
        c["corpus_file"] = os.path.relpath(p, common.VERIF)
        out.append(c)
    return out


def strip_case(c):
    return {k: v for k, v in c.items() if k not in ("stream", "corpus_file")}


# ----------------------------------------------------------------------------
# evaluation
# ----------------------------------------------------------------------------
def literals(cases, obs):
    return ["(%s, %s)" % (g_case(c), g_obs(o)) for c, o in zip(cases, obs)]


def classify_cases(tag, cases, obs):
    """-> (bad, errs, detail) where detail[i] = dict(corr=bool, mon=bool, sigs=set) for bad i"""
    lits = literals(cases, obs)
    bad, errs = common.coq_failing(tag, HEADER, "case * obs", "case_ok", lits)
    detail = {}
    if bad and not errs:
        sub = [lits[i] for i in bad]
        fns = {"corr": "corr_ok", "mon": "monitor_ok",
               "K6_batch_gpus": "(fun co => negb (K6_batch_gpus (fst co)))",
               "K6_lsf_header": "(fun co => negb (K6_lsf_header (fst co)))",
               "K6_lsf_nodes_only": "(fun co => negb (K6_lsf_nodes_only (fst co)))"}
        res = {}
        for k, fn in fns.items():
            b2, e2 = common.coq_failing(tag + "-" + k, HEADER, "case * obs", fn, sub)
            errs.extend(e2)
            res[k] = set(b2)
        for j, i in enumerate(bad):
            detail[i] = {"corr": j not in res["corr"], "mon": j not in res["mon"],
                         "sigs": set(k for k in fns if k.startswith("K6") and j in res[k])}
    return bad, errs, detail


def model_obs_text(c):
    out = common.coq_eval("C15-replay", HEADER, "flat (run_model (%s))" % g_case(c))
    m = re.search(r"=\s*\[(.*?)\]\s*:\s*list N", out, re.S)
    if not m:
        return "could not evaluate the model: " + out[-400:]
    nums = [int(x) for x in re.findall(r"\d+", m.group(1))]
    if nums[:1] == [0]:
        return {"exc": "Diag"}
    if nums[:1] == [1]:
        return {"exc": "Internal"}
    parts, cur = [], []
    for n in nums[2:]:
        if n == 1114112:
            parts.append("".join(cur))
            cur = []
        else:
            cur.append(chr(n))
    parts.append("".join(cur))
    d = {"sched": bool(nums[1]), "name": parts[0], "text": parts[1] if len(parts) > 1 else ""}
    d["restart"] = [parts[2], parts[3]] if len(parts) > 3 else None
    return d


def shape(c, o):
    """distinctness key: back-end, typed resource keys, token forms, outcome"""
    def ty(v):
        return type(v).__name__[0]
    toks = tuple(p[0] for p in pieces_of(c, "cmd") if p[0] != "T")
    rtoks = tuple(p[0] for p in pieces_of(c, "restart") if p[0] != "T")
    return (c["backend"], tuple(sorted((k, ty(v)) for k, v in c["res"])),
            tuple(sorted(k for k in c["batch"] if k not in ("type", "host", "bank", "queue"))),
            toks, rtoks, o.get("exc") or ("S" if o.get("sched") else "L"))


KNOWN_SIG = {}     # signature name -> (id, what) from KNOWN_FINDINGS.txt


def run_all(impl, cases, seqs, rewrites=(), graphs=(), ops=()):
    """observables: a fresh adapter and directory per single case; one shared
    adapter per sequence; one shared directory per rewrite group; real
    ExecutionGraphs one after the other per graphs group"""
    obs = [impl.run(c) for c in cases]
    for seq in seqs:
        obs.extend(impl.run_sequence(seq))
    for grp in rewrites:
        obs.extend(impl.run_rewrite(grp))
    for grp in graphs:
        obs.extend(impl.run_graphs(grp))
    for c in ops:
        obs.append(impl.run_ops(c))
    return (cases + [c for seq in seqs for c in seq] + [c for grp in rewrites for c in grp]
            + [c for grp in graphs for g in grp for c in g] + list(ops)), obs


def evaluate(ck, cases, impl, tag, count=True, seqs=(), rewrites=(), graphs=(), ops=()):
    cases, obs = run_all(impl, cases, list(seqs), list(rewrites), list(graphs), list(ops))
    bad, errs, detail = classify_cases(tag, cases, obs)
    hist = ck.cov.setdefault("input_distribution", {})
    if count:
        for c, o in zip(cases, obs):
            ntok = sum(1 for p in pieces_of(c, "cmd") + pieces_of(c, "restart") if p[0] != "T")
            sched = any(k in ("nodes", "procs") and v for k, v in c["res"])
            ck.count(shape(c, o), nontrivial=sched and (ntok > 0 or len(c["res"]) > 2))
            for key in ("stream:" + c["stream"], "backend:" + c["backend"],
                        "tokens:%d" % min(ntok, 4), "reskeys:%d" % min(len(c["res"]), 6),
                        "outcome:" + (o.get("exc") or ("scheduled" if o.get("sched") else "local")),
                        "restart:" + ("yes" if c["restart"] else "no")):
                hist[key] = hist.get(key, 0) + 1
            for p in pieces_of(c, "cmd") + pieces_of(c, "restart"):
                if p[0] != "T":
                    hist["form:" + p[0]] = hist.get("form:" + p[0], 0) + 1
            for k, v in c["res"]:
                hist["key:%s:%s" % (k, type(v).__name__)] = hist.get("key:%s:%s" % (k, type(v).__name__), 0) + 1
            ck.sample({"case": strip_case(c), "impl": o})
    for e in errs:
        ck.mismatch("coqc failed on a C15 cases file", None, e[1])
    if count:
        # how many cases lie inside the hygiene domain H15 (where the theorems speak)
        lits = literals(cases, obs)
        ind, e2 = common.coq_failing(tag + "-dom", HEADER, "case * obs", "(fun co => negb (H15 (fst co)))", lits)
        if not e2:
            dom = ck.cov.setdefault("in_domain_H15", {})
            for i in ind:
                k = cases[i]["backend"] + ":" + cases[i]["stream"]
                dom[k] = dom.get(k, 0) + 1
            dom["total"] = dom.get("total", 0) + len(ind)
    findings = []
    for c, o in zip(cases, obs):
        op = o.get("ops")
        if not op:
            continue
        if count:
            oc = ck.cov.setdefault("ops_outcomes", {})
            for k_ in ("submit:" + ("ok" if op["submit"] == "ok" else "raised" if op["submit"] else "not reached"),
                       "check_jobs:" + ("ok" if op["check"] == "ok" else "raised" if op["check"] else "not reached")):
                oc[c["backend"] + ":" + k_] = oc.get(c["backend"] + ":" + k_, 0) + 1
        cj = {"case": strip_case(c), "impl": {k: v for k, v in o.items() if k != "ops"}, "operations": op,
              "note": "one adapter instance, one step: write_script, submit, check_jobs, write_script again"}
        if op["first_equal"] is False:
            findings.append(("violation", "the scripts written again after submit / check_jobs differ from the ones "
                             "written first (backend %s): a restarted step no longer requests what it declares"
                             % c["backend"], cj))
        elif op["run_changed"]:
            findings.append(("violation", "submit / check_jobs changed the step's run dictionary (backend %s): %s"
                             % (c["backend"], json.dumps(op["run_changed"])[:200]), cj))
        elif op["batch_changed"]:
            findings.append(("violation", "submit / check_jobs changed the adapter's batch dictionary (backend %s): %s"
                             % (c["backend"], json.dumps(op["batch_changed"])[:200]), cj))
    for i in bad:
        d = detail.get(i)
        if d is None:
            continue
        c, o = cases[i], obs[i]
        cj = {"case": strip_case(c), "impl": o}
        if c.get("seq"):
            sid = c["seq"][0]
            cj["sequence"] = [strip_case(x) for x in cases if x.get("seq") and x["seq"][0] == sid]
            cj["note"] = ("step %d of %d written by ONE adapter instance; a fresh instance (= the stateless model) "
                          "gives a different script" % (c["seq"][1] + 1, c["seq"][2]))
        if c.get("graphs"):
            gid = c["graphs"][0]
            cj["graphs_before_in_this_process"] = [
                {"graph": x["graphs"][1], "batch": x["batch"], "step": x["name"]} for x in cases
                if x.get("graphs") and x["graphs"][0] == gid and x["graphs"][1] < c["graphs"][1]]
            cj["note"] = ("graph %d of its group, scripts generated by ExecutionGraph.%s(); judged against this "
                          "graph's own batch block" % (c["graphs"][1] + 1, c["graphs"][3]))
            if not d["corr"]:
                fresh = impl.run(c)
                if fresh != o and "exc" not in fresh:
                    what = ("the scripts of an ExecutionGraph depend on the graphs generated earlier in the process: "
                            "they do not request this graph's batch settings" if c["graphs"][1] > 0 else
                            "what an ExecutionGraph generates for a batch block and step differs from what the adapter "
                            "constructed with that block writes")
                    findings.append(("violation", "%s (backend %s)" % (what, c["backend"]), dict(cj, fresh_process=fresh)))
                    continue
        if not d["mon"]:
            known = [KNOWN_SIG[s_] for s_ in d["sigs"] if s_ in KNOWN_SIG]
            if known:
                for kid, what in known:
                    ck.known_hit(kid, what)
            else:
                findings.append(("violation", "C15_ok is false on the implementation's script "
                                 "(backend %s, outcome %s)" % (c["backend"], o.get("exc") or "script"), cj))
        if c.get("rewrite"):
            gid = c["rewrite"][0]
            cj["written_before_into_same_directory"] = [strip_case(x) for x in cases
                                                        if x.get("rewrite") and x["rewrite"][0] == gid
                                                        and x["rewrite"][1] < c["rewrite"][1]]
        if not d["corr"] and c.get("rewrite") and c["rewrite"][1] > 0 and d["mon"]:
            fresh = impl.run(c)
            if fresh != o:
                findings.append(("violation", "the script file depends on what the workspace held before "
                                 "(backend %s)" % c["backend"], dict(cj, fresh_directory=fresh)))
                continue
        if not d["corr"] and c.get("seq") and d["mon"]:
            # the shared instance disagrees with the stateless model although the script is still right
            # for the step: per-instance state influences generation -- a violation of "write_script is a
            # function of (batch block, step)"
            fresh = impl.run(c)
            if fresh != o:
                findings.append(("violation", "script depends on what the adapter instance generated before "
                                 "(backend %s)" % c["backend"], dict(cj, fresh_instance=fresh)))
                continue
        if not d["corr"]:
            # the model's observable is spelled out for the first few only
            # (one coqc call each)
            nshown = sum(1 for f in findings if f[0] == "mismatch")
            mo = model_obs_text(c) if nshown < 3 else "(not evaluated: see the first mismatches)"
            # a disagreement on a case that only exhibits a known finding is
            # still a disagreement: the model describes the code as it is
            findings.append(("mismatch", "model and implementation disagree (backend %s)" % c["backend"], cj, mo))
    return obs, bad, findings


def still_violates(impl, c):
    """monitor false on the implementation's observable, no known signature"""
    c = dict(c)
    c["cmd_pieces"] = None
    c["restart_pieces"] = None
    o = impl.run(c)
    bad, errs, detail = classify_cases("C15-shrink", [c], [o])
    if errs or not bad:
        return None
    d = detail[0]
    if d["mon"] or any(s_ in KNOWN_SIG for s_ in d["sigs"]):
        return None
    return {"case": strip_case(c), "impl": o}


def shrink(impl, cj, budget=30):
    """greedy: drop the restart, resource keys, optional batch keys, command
    lines, while the implementation still violates the monitor"""
    best = cj
    c = dict(cj["case"])
    c.setdefault("stream", "shrink")

    def attempt(cand):
        nonlocal best, c, budget
        if budget <= 0:
            return False
        budget -= 1
        r = still_violates(impl, cand)
        if r is not None:
            best, c = r, dict(cand)
            return True
        return False
    if c.get("restart"):
        attempt(dict(c, restart=""))
    for k, _ in list(c["res"]):
        attempt(dict(c, res=[kv for kv in c["res"] if kv[0] != k]))
    for k in [k for k in c["batch"] if k not in ("type", "host", "bank", "queue")]:
        attempt(dict(c, batch={a: b for a, b in c["batch"].items() if a != k}))
    lines = c["cmd"].split("\n")
    if len(lines) > 1:
        for i in range(len(lines)):
            cand = "\n".join(lines[:i] + lines[i + 1:])
            if cand and attempt(dict(c, cmd=cand)):
                break
    for field, val in (("desc", "d"), ("name", "s1")):
        if c.get(field) != val:
            attempt(dict(c, **{field: val}))
    return best


def report(ck, findings, impl=None):
    shrunk = False
    for f in findings:
        if f[0] == "violation":
            cj = f[2]
            if impl is not None and not shrunk and "sequence" not in cj and "operations" not in cj \
                    and not cj.get("written_before_into_same_directory") \
                    and "graphs_before_in_this_process" not in cj:
                shrunk = True
                try:
                    cj = shrink(impl, cj)
                except Exception:           # shrinking is best effort
                    cj = f[2]
            ck.violation(f[1], cj)
        else:
            ck.mismatch(f[1], f[2], json.dumps(f[3], default=str)[:3000])


def run(ck):
    for k in ck.known:
        if k.get("signature"):
            KNOWN_SIG[k["signature"]] = (k.get("id", "K6"), k.get("what", ""))
    # the tie to the regenerated CODE: HeaderGen.v (translate/tcode_header.py) is proved equal,
    # function by function, to the model the theorems are about
    ck.build_proofs(extra_targets=["theories/Sched/HeaderGenProofs.vo"])
    try:
        from translate import regen
        for g, why in regen.broken_for(PID):
            ck.notes.setdefault("translators_failed_closed", []).append([g, why])
    except Exception:
        pass
    rng = random.Random(ck.seed)
    impl = Impl()
    try:
        cases = load_corpus()
        ncorpus = len(cases)
        cases += small_scope(ck.tier)
        n_struct, n_exo = (450, 250) if ck.tier == "quick" else (9000, 5000)
        cases += [gen_case(rng, "structured") for _ in range(n_struct)]
        cases += [gen_case(rng, "exotic") for _ in range(n_exo)]
        n_seq = 70 if ck.tier == "quick" else 1500
        seqs = small_sequences() + [gen_sequence(rng, i) for i in range(n_seq)]
        ck.cov["sequences"] = {"count": len(seqs), "steps": sum(len(q) for q in seqs)}
        n_rw = 40 if ck.tier == "quick" else 1000
        rws = small_rewrites() + [gen_rewrite(rng, i) for i in range(n_rw)]
        ck.cov["rewrites"] = {"groups": len(rws), "writes": sum(len(g) for g in rws)}
        n_gr = 25 if ck.tier == "quick" else 600
        grs = small_graphs() + [gen_graphs(rng, i) for i in range(n_gr)]
        ck.cov["graphs"] = {"groups": len(grs), "graphs": sum(len(g) for g in grs),
                            "scripts": sum(len(q) for g in grs for q in g)}
        n_ops = 40 if ck.tier == "quick" else 800
        opc = small_ops() + [gen_ops(rng, i) for i in range(n_ops)]
        ck.cov["ops"] = {"cases": len(opc)}
        obs, bad, findings = evaluate(ck, cases, impl, "C15", seqs=seqs, rewrites=rws, graphs=grs, ops=opc)
        cases = cases + [c for q in seqs for c in q] + [c for g in rws for c in g] \
            + [c for g in grs for q in g for c in q] + opc
        report(ck, findings, impl)
        ck.cov["traces_validated_against_impl"] = len(cases)
        ck.cov["rule"] = (
            "corpus (%d) + exhaustive small scope (back-end x nodes/procs absent|int|str x 14 token layouts x "
            "walltime shapes; back-end x walltime as int / integral float (30.0, 6.0e+1, 0.0) / digit text / "
            "H:M:S / M:S / D-H:M:S / inf / float text / bool; back-end x step names with tab / VT / FF / FS / NBSP / NEL / U+2003 / U+2009 / U+2028 / "
            "U+200B) + seeded structured cases (any subset of the schema's resource keys, ints or decimal "
            "strings, every documented token form, 0-2 tokens per line, 1-3 lines, restart in 1/3) + seeded exotic "
            "cases (malformed tokens, odd values, unsafe characters, missing batch keys). Every case: real "
            "write_script vs model (script text, name, restart, to_be_scheduled, exception class) and C15_ok on the "
            "real script, both evaluated inside Coq. Non-trivial = scheduled step with a launcher token or >2 "
            "resource keys; distinct = (back-end, typed resource keys, batch keys, token forms, outcome). "
            "Sequence stream: ONE adapter instance per back-end writes 2-5 steps in a row (rich steps first, lean "
            "later, repeats, get_header / get_parallelize_command / get_scheduler_command interleaved); every script "
            "must equal the stateless model's for that step alone and satisfy C15_ok with the step's own "
            "effective resources. Rewrite stream: for every back-end (local too) 2-3 steps with one name are "
            "written one after the other into the SAME directory (rich/long first, lean/short later, the same "
            "twice, restart present then absent); the file content after each write is judged like a fresh one. "
            "Graphs stream: in ONE process two or three real ExecutionGraphs of the same batch type with different "
            "batch blocks (bank / queue / host / reservation / qos / nodes) generate their scripts through "
            "generate_scripts() or a dry execute_ready_steps(), also A, B, A; every script file is read back and "
            "judged (model equality and C15_ok) against its own graph's batch block and step. "
            "Ops stream: on one adapter instance and step, write_script, submit (process layer / flux bindings "
            "faked), check_jobs, write_script again: the second cmd and restart scripts are judged like any other "
            "(model equality, C15_ok) and must be byte-identical to the first; step.run and the adapter's batch "
            "dictionary are compared (deep copies) before and after submit / check_jobs." % ncorpus)

        def search():
            r2 = random.Random(ck.seed + 7919)
            extra = [gen_case(r2, "structured") for _ in range(2500)] + [gen_case(r2, "exotic") for _ in range(1500)]
            sq = [gen_sequence(r2, "s%d" % i) for i in range(400)]
            rw = [gen_rewrite(r2, "r%d" % i) for i in range(300)]
            gr = [gen_graphs(r2, "g%d" % i) for i in range(150)]
            op2 = [gen_ops(r2, i) for i in range(200)]
            _, _, f2 = evaluate(ck, extra, impl, "C15-search", count=False, seqs=sq, rewrites=rw, graphs=gr, ops=op2)
            for f in f2:
                if f[0] == "violation":
                    try:
                        return f[1], shrink(impl, f[2])
                    except Exception:
                        return f[1], f[2]
            return None
        return ck.finish(search=search)
    finally:
        impl.close()


def replay(ck, path):
    d = json.load(open(path))
    c = d.get("case", d)
    if "case" in c and "backend" not in c:
        c = c["case"]
    c = dict(c)
    c.setdefault("stream", "replay")
    impl = Impl()
    try:
        o = impl.run(c)
        bad, errs, detail = classify_cases("C15-replay-eval", [c], [o])
        mo = model_obs_text(c)
        print("case:", json.dumps(strip_case(c), default=str))
        print("implementation:", json.dumps(o, default=str))
        print("model:", json.dumps(mo, default=str))
        if errs:
            print("coqc failed:", errs[0][1][-800:])
            return 1
        if not bad:
            print("verdict: agree, C15_ok holds")
            return 0
        dd = detail[0]
        print("verdict: correspondence=%s C15_ok=%s known-signatures=%s" % (dd["corr"], dd["mon"], sorted(dd["sigs"])))
        return 1
    finally:
        impl.close()

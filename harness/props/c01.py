"""C01 -- see DESIGN.md section 5.  Proofs: coq/theories/Props/C01.v; correspondence
and monitor: harness/exec_props.py (monitor family 1 of Exec/ExecTrace.v)."""
from harness import exec_props as X

BIAS = {}
TINY = {"cfgs": [{"throttle": 0, "attempts": 1, "dry": False}, {"throttle": 1, "attempts": 1, "dry": False}],
        "depth_quick": 3, "depth_thorough": 4, "graphs_quick": 3, "enum": {},
        "limit_quick": 1500, "limit_thorough": 15000}


def run(ck):
    return X.run_exec(ck, 1, BIAS, tiny=TINY)


def replay(ck, path):
    return X.replay_exec(ck, 1, path)

"""C01 -- see DESIGN.md section 5.  Proofs: coq/theories/Props/C01.v; correspondence
and monitor: harness/exec_props.py (monitor family 1 of Exec/ExecTrace.v)."""
import json

from harness import exec_props as X
from harness import c01_staged

BIAS = {}
TINY = {"cfgs": [{"throttle": 0, "attempts": 1, "dry": False}, {"throttle": 1, "attempts": 1, "dry": False}],
        "depth_quick": 3, "depth_thorough": 4, "graphs_quick": 3, "enum": {},
        "limit_quick": 1500, "limit_thorough": 15000}


def run(ck):
    # extra: the same property on graphs staged by the real Study.stage(), expected parents from the
    # Coq expansion model (harness/c01_staged.py, Exec/ExecStaged.v)
    return X.run_exec(ck, 1, BIAS, tiny=TINY, extra=c01_staged.run_extra)


def replay(ck, path):
    d = json.load(open(path))
    d = d.get("case", d)
    if isinstance(d, dict) and d.get("kind") == "c01-staged":
        return c01_staged.replay_staged(ck, d)
    return X.replay_exec(ck, 1, path)

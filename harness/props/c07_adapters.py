"""C07, adapter layer -- "live jobs are cancelled" through the REAL scheduler adapters.

harness/exec_props.py drives the real ExecutionGraph with a SCRIPTED adapter, so
the cancel code of the real adapters is never executed there.  This module
executes it, for every adapter class of /repo:

    LocalScriptAdapter, SlurmScriptAdapter, LSFScriptAdapter   (process layer replaced:
        module-level start_process / Popen, maestrowf.utils.start_process, subprocess.Popen)
    FluxScriptAdapter x every interface of maestrowf/interfaces/script/_flux/
        (in-memory fake `flux`, `flux.job`, `flux.job.list`, `flux.constants`: JobID with the
         f58 text form, JobList(handle, ids=..).jobs() -> JobInfo(.id, .status_abbrev) -- a
         JobList is NOT iterable, as in flux-core --, flux.job.cancel raising for chosen ids,
         flux.job.submit, JobspecV1)

 (a) cancel_jobs([]) -> a CancellationRecord (has .cancel_status), no process / no RPC
 (b) generated id lists (1-6 ids, prefixes of one another, no duplicates) x generated failing
     subsets (every position): a cancel is ATTEMPTED for every id (own argument of the
     scancel / bkill command line, exact token; flux.job.cancel called with it), nothing
     else is cancelled, no exception, CancellationRecord with OK iff nothing failed
 (c) through the graph: real ExecutionGraph + real adapter, jobs put in flight by real
     submissions through the stubbed process layer / fake flux (and, for every adapter, by
     writing the in-progress ledger directly), a few scripted status polls, then
     dag.cancel_study(): no exception (also with nothing in flight), is_canceled set, ids
     handed to the scheduler == last job id of every step in progress (oracle: the stub's own
     ledger of issued and not yet terminated jobs).

Every case carries a logging configuration ("log": default | debug = what `maestro -d 1` sets up:
root and maestrowf loggers at DEBUG with a formatting handler); generated cases alternate between the
two, and (a)-(c) are required under both ("logging with side effects": a debug message that consumes a
one-shot iterator, a guard on isEnabledFor(DEBUG) that changes what is cancelled).

A failure = ck.violation(what, case) where `case` (adapter, ids, failing ids, ...) replays
with `replay_case(case)`; corpus/C07/adapters/*.json is run first.
"""
import glob
import itertools
import json
import os
import random
import shlex
import shutil
import sys
import types

from harness import common

PID = "C07"
CORPUS_DIR = os.path.join(common.CORPUS, PID, "adapters")

QUICK = {"unit": 150, "e2e": 20, "inject": 12}
THOROUGH = {"unit": 900, "e2e": 150, "inject": 80}

FAIL_RCS = [1, 2, 127, 255, -9, 3]
B58 = "123456789ABCDEFGHJKLMNPQRSTUVWXYZabcdefghijkmnopqrstuvwxyz"

CANCEL_PROGS = {"slurm": "scancel", "lsf": "bkill"}


# ----------------------------------------------------------------------------
# f58 job ids (flux >= 0.26 stores the text form and rebuilds JobID from it)
# ----------------------------------------------------------------------------
def f58enc(n):
    if n == 0:
        return "ƒ1"
    s = ""
    while n:
        n, r = divmod(n, 58)
        s = B58[r] + s
    return "ƒ" + s


def f58dec(s):
    body = s[1:] if s[:1] in ("ƒ", "f") else s
    if not body:
        raise ValueError("malformed f58 id %r" % s)
    n = 0
    for ch in body:
        i = B58.find(ch)
        if i < 0:
            raise ValueError("malformed f58 id %r" % s)
        n = n * 58 + i
    return n


# ----------------------------------------------------------------------------
# fake flux
# ----------------------------------------------------------------------------
class FluxWorld:
    """State shared by the fake flux modules."""

    def __init__(self):
        self.reset()

    def reset(self, fail=(), pool=None, unknown=(), dead=None, order=None):
        self.unknown = set(unknown)    # integer ids the broker does not know (job-list RPC error per id)
        self.dead = dead               # an exception instance: the job-list RPC itself fails ...
        self.dead_where = "jobs"       # ... in JobList.jobs() | "joblist" (constructor) | "handle" (flux.Flux())
        self.order = list(order) if order else None   # integer ids in the order the broker answers
        self.fail = set(fail)          # integer ids whose cancel raises
        self.cancels = []              # integer ids flux.job.cancel was called with
        self.lists = 0                 # JobList fetches
        self.submits = []              # integer ids handed out
        self.pool = list(pool or [])   # ids to hand out at submission
        self.state = {}                # int id -> status_abbrev


WORLD = FluxWorld()


class JobID(int):
    def __new__(cls, value):
        if isinstance(value, str):
            v = value.strip()
            if v[:1] in ("ƒ", "f"):
                n = f58dec(v)
            else:
                n = int(v, 0)
        else:
            n = int(value)
        if n < 0:
            raise ValueError("negative job id")
        return super(JobID, cls).__new__(cls, n)

    @property
    def f58(self):
        return f58enc(int(self))

    @property
    def dec(self):
        return str(int(self))

    def __str__(self):
        return self.f58

    __repr__ = __str__


ABBREV = {"D": ("DEPEND", None), "P": ("PRIORITY", None), "S": ("SCHED", None), "R": ("RUN", None),
          "C": ("CLEANUP", None), "CD": ("INACTIVE", "COMPLETED"), "F": ("INACTIVE", "FAILED"),
          "CA": ("INACTIVE", "CANCELED"), "TO": ("INACTIVE", "TIMEOUT")}


class JobInfo:
    def __init__(self, jid):
        self.id = JobID(jid)
        self.status_abbrev = WORLD.state.get(int(jid), "R")
        self.state, self.result = ABBREV.get(self.status_abbrev, (self.status_abbrev, None))
        self.status = self.result or self.state

    def __repr__(self):
        return "JobInfo(%s)" % self.id


class JobList:
    """flux.job.list.JobList: jobs() fetches; the object itself is not iterable."""

    def __init__(self, flux_handle, attrs=("all",), filters=(), ids=(), user=None, max_entries=1000, **kw):
        if WORLD.dead is not None and WORLD.dead_where == "joblist":
            WORLD.lists += 1
            raise WORLD.dead
        self.handle = flux_handle
        self.ids = [JobID(i) for i in ids]
        self.errors = []

    def fetch_jobs(self):
        return self

    def jobs(self):
        # as in flux-core: `errors` is empty until the fetch has run, then holds one text per unknown id
        WORLD.lists += 1
        if WORLD.dead is not None and WORLD.dead_where == "jobs":
            raise WORLD.dead
        self.errors = ["JobID %s unknown" % i.f58 for i in self.ids if int(i) in WORLD.unknown]
        known = [i for i in self.ids if int(i) not in WORLD.unknown]
        if WORLD.order:
            pos = {n: k for k, n in enumerate(WORLD.order)}
            known.sort(key=lambda i: pos.get(int(i), len(pos)))
        return [JobInfo(i) for i in known]

    def jobids(self):
        return list(self.ids)


class _Future:
    def __init__(self, exc=None):
        self.exc = exc

    def get(self, *a, **k):
        if self.exc is not None:
            raise self.exc
        return None

    wait_for = get


def _flux_cancel(flux_handle, jobid, reason=None):
    n = int(jobid)
    WORLD.cancels.append(n)
    if n in WORLD.fail:
        raise OSError(2, "No such file or directory (job %d is inactive)" % n)


def _flux_cancel_async(flux_handle, jobid, reason=None):
    n = int(jobid)
    WORLD.cancels.append(n)
    return _Future(OSError(2, "job %d is inactive" % n) if n in WORLD.fail else None)


class JobspecV1:
    def __init__(self, command, **kw):
        self.command, self.kw = command, kw
        self.attrs = {}
        self.cwd = None
        self.environment = None
        self.duration = None
        self.stdout = None
        self.stderr = None

    @classmethod
    def from_command(cls, command, **kw):
        return cls(command, **kw)

    @classmethod
    def from_nest_command(cls, command, **kw):
        return cls(command, **kw)

    from_batch_command = from_nest_command

    def setattr(self, k, v):
        self.attrs[k] = v

    def setattr_shell_option(self, k, v):
        self.attrs["shell." + k] = v


def _flux_submit(flux_handle, jobspec, waitable=False, urgency=16, **kw):
    if not WORLD.pool:
        raise RuntimeError("fake flux: id pool exhausted")
    n = WORLD.pool.pop(0)
    WORLD.submits.append(n)
    WORLD.state[n] = "R"
    return JobID(n)


class Flux:
    def __init__(self, *a, **k):
        if WORLD.dead is not None and WORLD.dead_where == "handle":
            raise WORLD.dead

    def attr_get(self, name):
        return "0.49.0" if name == "version" else ""


def make_fake_flux():
    flux = types.ModuleType("flux")
    job = types.ModuleType("flux.job")
    jl = types.ModuleType("flux.job.list")
    const = types.ModuleType("flux.constants")
    flux.Flux = Flux
    flux.job = job
    flux.constants = const
    job.JobID = JobID
    job.JobList = JobList
    job.JobInfo = JobInfo
    job.cancel = _flux_cancel
    job.cancel_async = _flux_cancel_async
    job.submit = _flux_submit
    job.JobspecV1 = JobspecV1
    job.list = jl
    jl.JobList = JobList
    jl.JobInfo = JobInfo
    const.FLUX_JOB_PENDING = 6
    const.FLUX_JOB_RUNNING = 24
    const.FLUX_JOB_INACTIVE = 32
    return {"flux": flux, "flux.job": job, "flux.job.list": jl, "flux.constants": const}


class FakeFluxInstalled:
    """sys.modules + the module-global names the _flux modules bound (or failed to bind) at import."""

    NAMES = {"flux": "flux", "flux_job": "flux.job", "flux_constants": "flux.constants"}

    def __enter__(self):
        import importlib
        self.mods = make_fake_flux()
        self.saved_sys = {k: sys.modules.get(k) for k in self.mods}
        sys.modules.update(self.mods)
        self.saved_attr = []
        self.classes = []
        targets = ["maestrowf.abstracts.interfaces.flux"]
        d = os.path.join(common.REPO, "maestrowf/interfaces/script/_flux")
        for f in sorted(glob.glob(os.path.join(d, "*.py"))):
            b = os.path.basename(f)[:-3]
            if b != "__init__":
                targets.append("maestrowf.interfaces.script._flux." + b)
        for name in targets:
            try:
                m = importlib.import_module(name)
            except Exception:
                continue
            for attr, modname in self.NAMES.items():
                self.saved_attr.append((m, attr, m.__dict__.get(attr, self)))
                setattr(m, attr, self.mods[modname])
            for v in list(vars(m).values()):
                if isinstance(v, type) and "flux_handle" in vars(v):
                    self.classes.append((v, vars(v)["flux_handle"]))
                    v.flux_handle = None
        return self

    def __exit__(self, *a):
        for m, attr, old in self.saved_attr:
            if old is self:
                try:
                    delattr(m, attr)
                except AttributeError:
                    pass
            else:
                setattr(m, attr, old)
        for cls, old in self.classes:
            cls.flux_handle = old
        for k, old in self.saved_sys.items():
            if old is None:
                sys.modules.pop(k, None)
            else:
                sys.modules[k] = old
        return False


# ----------------------------------------------------------------------------
# fake process layer (slurm / lsf / local)
# ----------------------------------------------------------------------------
class FakeProc:
    def __init__(self, out, rc, text):
        self.out, self.returncode, self.text = out, rc, text
        self.pid = 4242
        self.stdout = self.stderr = None

    def communicate(self, *a, **k):
        if self.text:
            return self.out, ""
        return self.out.encode("utf-8"), b""

    def wait(self, *a, **k):
        return self.returncode

    def poll(self):
        return self.returncode

    def kill(self):
        pass

    terminate = kill

    def __enter__(self):
        return self

    def __exit__(self, *a):
        return False


SLURM_CODE = {"RUNNING": "R", "PENDING": "PD", "FINISHED": "CD", "FAILED": "F", "TIMEDOUT": "TO"}
LSF_CODE = {"RUNNING": ("RUN", "-", "-"), "PENDING": ("PEND", "-", "-"), "FINISHED": ("DONE", "-", "-"),
            "FAILED": ("EXIT", "1", "TERM_UNKNOWN: unknown"),
            "TIMEDOUT": ("EXIT", "140", "TERM_RUNLIMIT: job killed after reaching LSF run time limit")}
FLUX_CODE = {"RUNNING": "R", "PENDING": "S", "FINISHED": "CD", "FAILED": "F", "TIMEDOUT": "TO"}
TERMINAL = ("FINISHED", "FAILED", "TIMEDOUT")


class ProcWorld:
    """Scripted sbatch/squeue/sacct/scancel and bsub/bjobs/bkill."""

    def __init__(self, fail=(), rc=1, pool=None):
        self.fail = set(fail)          # ids: a cancel command naming one of them exits with rc
        self.rc = rc
        self.pool = list(pool or [])
        self.state = {}                # id -> abstract state
        self.order = []                # ids in order of issue
        self.cancel_args = []          # id tokens of every cancel command
        self.cancel_cmds = []
        self.other = []                # every other command line
        self.all = 0

    def handle(self, cmd, text):
        self.all += 1
        try:
            toks = [str(t) for t in cmd] if isinstance(cmd, (list, tuple)) else shlex.split(str(cmd))
        except ValueError:
            toks = str(cmd).split()
        prog = os.path.basename(toks[0]) if toks else ""
        if prog in ("scancel", "bkill"):
            args = [t for t in toks[1:] if not t.startswith("-")]
            self.cancel_cmds.append(" ".join(toks))
            self.cancel_args.extend(args)
            bad = any(a in self.fail for a in args)
            return FakeProc("" if not bad else "error: Invalid job id specified", self.rc if bad else 0, text)
        self.other.append(" ".join(toks))
        if prog == "sbatch":
            j = self._issue()
            return FakeProc("Submitted batch job %s\n" % j, 0, text)
        if prog == "bsub":
            j = self._issue()
            return FakeProc("Job <%s> is submitted to queue <q>.\n" % j, 0, text)
        if prog == "squeue":
            rows = ["             JOBID     NAME     USER ST"]
            rows += ["%18s %8s %8s %2s" % (j, "n", "u", SLURM_CODE[self.state[j]]) for j in self.order]
            return FakeProc("\n".join(rows) + "\n", 0, text)
        if prog == "sacct":
            rows = ["JobID JobName State ExitCode", "----- ------- ----- --------"]
            return FakeProc("\n".join(rows) + "\n", 0, text)
        if prog == "bjobs":
            rows = ["JOBID  |STAT |EXIT_CODE |EXIT_REASON"]
            for j in self.order:
                st, ec, why = LSF_CODE[self.state[j]]
                rows.append("%-7s|%-5s|%-10s|%-50s" % (j, st, ec, why))
            return FakeProc("\n".join(rows) + "\n", 0, text)
        return FakeProc("", 0, text)

    def _issue(self):
        if not self.pool:
            raise RuntimeError("fake scheduler: id pool exhausted")
        j = self.pool.pop(0)
        self.order.append(j)
        self.state[j] = "RUNNING"
        return j


class ProcLayer:
    """Replace every door to a real process while the adapter code runs."""

    def __init__(self, world):
        self.world = world

    def __enter__(self):
        import importlib
        import subprocess
        w = self.world

        def sp(cmd, *a, **k):
            p = w.handle(cmd, True)
            p.args = cmd
            return p

        def popen(cmd, *a, **k):
            p = w.handle(cmd, bool(k.get("universal_newlines") or k.get("text") or k.get("encoding")))
            p.args = cmd
            return p

        self.saved = []
        spots = [("maestrowf.utils", "start_process", sp), ("maestrowf.utils", "Popen", popen),
                 ("maestrowf.interfaces.script.slurmscriptadapter", "start_process", sp),
                 ("maestrowf.interfaces.script.slurmscriptadapter", "Popen", popen),
                 ("maestrowf.interfaces.script.lsfscriptadapter", "start_process", sp),
                 ("maestrowf.interfaces.script.lsfscriptadapter", "Popen", popen),
                 ("maestrowf.interfaces.script.localscriptadapter", "start_process", sp),
                 ("maestrowf.interfaces.script.localscriptadapter", "Popen", popen)]
        for modname, attr, fn in spots:
            try:
                m = importlib.import_module(modname)
            except Exception:
                continue
            if attr in m.__dict__:
                self.saved.append((m, attr, m.__dict__[attr]))
                setattr(m, attr, fn)
        self.saved.append((subprocess, "Popen", subprocess.Popen))
        subprocess.Popen = popen
        return self

    def __exit__(self, *a):
        for m, attr, old in reversed(self.saved):
            setattr(m, attr, old)
        return False


# ----------------------------------------------------------------------------
# logging configuration as a case dimension ("logging with side effects")
# ----------------------------------------------------------------------------
LOG_LEVELS = ("default", "debug")
LOG_RECORDS = {"default": 0, "debug": 0}     # records that reached a handler, per configuration


class _CountingSink:
    def __init__(self, level):
        self.level = level

    def write(self, text):
        LOG_RECORDS[self.level] += 1

    def flush(self):
        pass


class LogLevel:
    """"default": no logger is enabled for DEBUG (the rest of the harness silences logging altogether).
    "debug": what `maestro run -d 1` / `conductor -d 1` set up through LoggerUtility -- root logger and the
    maestrowf logger at DEBUG, a formatting stream handler attached (the stream is a counting sink) -- so
    every LOGGER.debug(...) argument is evaluated and every isEnabledFor(DEBUG) guard is entered.
    Everything is restored on exit."""

    FORMAT = "[%(asctime)s: %(levelname)s] [%(module)s: %(lineno)d] %(message)s"

    def __init__(self, level):
        self.level = level if level in LOG_LEVELS else "default"

    def __enter__(self):
        import logging
        root, mw = logging.getLogger(), logging.getLogger("maestrowf")
        self.saved = (root.manager.disable, root.level, mw.level, mw.propagate, logging.raiseExceptions)
        self.handlers = []
        if self.level == "debug":
            logging.disable(logging.NOTSET)
            logging.raiseExceptions = False      # a malformed message must not spam stderr
            for lg in (root, mw):
                h = logging.StreamHandler(_CountingSink("debug"))
                h.setLevel(logging.DEBUG)
                h.setFormatter(logging.Formatter(self.FORMAT))
                lg.addHandler(h)
                lg.setLevel(logging.DEBUG)
                self.handlers.append((lg, h))
        else:
            logging.disable(logging.CRITICAL)
        return self

    def __exit__(self, *a):
        import logging
        root, mw = logging.getLogger(), logging.getLogger("maestrowf")
        for lg, h in self.handlers:
            lg.removeHandler(h)
        disable, rl, ml, mp, rex = self.saved
        root.setLevel(rl)
        mw.setLevel(ml)
        mw.propagate = mp
        logging.raiseExceptions = rex
        logging.disable(disable)
        return False


# ----------------------------------------------------------------------------
# adapters
# ----------------------------------------------------------------------------
BATCH = {"host": "h", "bank": "b", "queue": "q", "nodes": "1"}


def flux_versions():
    try:
        from maestrowf.interfaces.script import FluxFactory
        return sorted(FluxFactory.factories.keys(), reverse=True)
    except Exception:
        return []


def adapter_names():
    return ["local", "slurm", "lsf"] + ["flux:" + v for v in flux_versions()]


def adapter_dict(name):
    if name.startswith("flux:"):
        return dict(BATCH, type="flux", version=name[5:])
    if name == "local":
        return {"type": "local"}
    return dict(BATCH, type=name)


def make_adapter(name):
    """The real adapter object (fake flux / process layer must be installed by the caller)."""
    if name == "local":
        from maestrowf.interfaces.script.localscriptadapter import LocalScriptAdapter
        return LocalScriptAdapter(), "constructed"
    if name == "slurm":
        from maestrowf.interfaces.script.slurmscriptadapter import SlurmScriptAdapter
        return SlurmScriptAdapter(**BATCH), "constructed"
    if name == "lsf":
        from maestrowf.interfaces.script.lsfscriptadapter import LSFScriptAdapter
        return LSFScriptAdapter(**BATCH), "constructed"
    from maestrowf.interfaces.script.fluxscriptadapter import FluxScriptAdapter
    from maestrowf.interfaces.script import FluxFactory
    ver = name[5:]
    try:
        return FluxScriptAdapter(version=ver, **BATCH), "constructed"
    except Exception:
        a = FluxScriptAdapter.__new__(FluxScriptAdapter)
        a._interface = FluxFactory.get_interface(ver)
        a._batch = {}
        return a, "__new__"


def flux_textual(name):
    """Interfaces from 0.26 on keep the f58 text of an id; the older ones keep the integer."""
    try:
        v = tuple(int(x) for x in name[5:].split(".")[:2])
    except ValueError:
        return True
    return v >= (0, 26)


def to_int_ids(name, ids):
    return [int(JobID(i)) for i in ids]


# ----------------------------------------------------------------------------
# (a) + (b): one direct call of cancel_jobs
# ----------------------------------------------------------------------------
def canon_record(res):
    """-> (is a CancellationRecord, status name or None)"""
    try:
        from maestrowf.interfaces.script import CancellationRecord
        from maestrowf.abstracts.enums import CancelCode
        isrec = isinstance(res, CancellationRecord)
        st = getattr(res, "cancel_status", None)
        return isrec, (st.name if isinstance(st, CancelCode) else None)
    except Exception:
        return False, None


def run_unit(case):
    """Execute cancel_jobs(ids) of the real adapter; return the observable."""
    name, ids, fail = case["adapter"], list(case["ids"]), list(case.get("fail", []))
    obs = {"exc": None, "attempted": [], "launched": 0, "record": False, "status": None, "how": None}
    try:
        if name.startswith("flux:"):
            with FakeFluxInstalled():
                WORLD.reset()
                adapter, obs["how"] = make_adapter(name)
                WORLD.reset(fail=to_int_ids(name, fail))
                try:
                    res = adapter.cancel_jobs(list(ids))
                    obs["record"], obs["status"] = canon_record(res)
                except Exception as e:
                    obs["exc"] = "%s: %s" % (type(e).__name__, str(e)[:160])
                obs["attempted"] = list(WORLD.cancels)
                obs["launched"] = WORLD.lists + len(WORLD.cancels) + len(WORLD.submits)
        else:
            w = ProcWorld(fail=fail, rc=case.get("rc", 1))
            with ProcLayer(w):
                adapter, obs["how"] = make_adapter(name)
                try:
                    res = adapter.cancel_jobs(list(ids))
                    obs["record"], obs["status"] = canon_record(res)
                except Exception as e:
                    obs["exc"] = "%s: %s" % (type(e).__name__, str(e)[:160])
            obs["attempted"] = list(w.cancel_args)
            obs["launched"] = w.all
            obs["cmds"] = w.cancel_cmds[:4]
    except Exception as e:
        obs["setup_exc"] = "%s: %s" % (type(e).__name__, str(e)[:200])
    return obs


def judge_unit(case, obs):
    """-> None or the sentence of (a)/(b) that fails."""
    name, ids, fail = case["adapter"], list(case["ids"]), list(case.get("fail", []))
    if obs.get("setup_exc"):
        return None
    if obs["exc"]:
        return "cancel_jobs raised " + obs["exc"]
    if not obs["record"]:
        return "cancel_jobs did not return a CancellationRecord"
    if obs["status"] is None:
        return "the record's cancel_status is not a CancelCode"
    if not ids:
        if obs["launched"]:
            return "cancel_jobs([]) launched a process / RPC"
        if obs["status"] != "OK":
            return "cancel_jobs([]) reports %s" % obs["status"]
        return None
    if name == "local":
        # local steps run synchronously inside submit: there is never anything to cancel
        if obs["launched"]:
            return "the local adapter launched a process to cancel"
        if obs["status"] != "OK":
            return "the local adapter reports %s" % obs["status"]
        return None
    if name.startswith("flux:"):
        want, got = set(to_int_ids(name, ids)), set(obs["attempted"])
        bad = bool(set(to_int_ids(name, fail)) & want)
        show = {int(JobID(i)): i for i in ids}
    else:
        want, got = set(ids), set(obs["attempted"])
        bad = bool(set(fail) & want)
        show = {}
    if want - got:
        missing = [i for i in (to_int_ids(name, ids) if show else ids) if i not in got]
        return "no cancel attempted for %d of the %d live job ids (first: %s)" % (
            len(want - got), len(want), show.get(missing[0], missing[0]))
    if got - want:
        extra = sorted(got - want, key=str)[0]
        return "a cancel was issued for something that is not in the list: %s" % (f58enc(extra) if show else extra)
    if bad and obs["status"] != "ERROR":
        return "a cancel failed but the record says %s" % obs["status"]
    if not bad and obs["status"] != "OK":
        return "every cancel succeeded but the record says %s" % obs["status"]
    return None


# ----------------------------------------------------------------------------
# (c): through the real ExecutionGraph
# ----------------------------------------------------------------------------
def build_graph(nodes, cfg, root, adapter):
    import maestrowf.datastructures.core.executiongraph as eg
    from maestrowf.datastructures.core.study import StudyStep
    eg.sleep = lambda *_a, **_k: None
    dag = eg.ExecutionGraph(submission_attempts=cfg.get("attempts", 1), submission_throttle=cfg.get("throttle", 0),
                            use_tmp=False, dry_run=False)
    dag.add_description("study", "c07 adapters")
    dag.add_node("_source", None)
    if isinstance(nodes, int):
        nodes = [{"parents": [], "has_restart": False, "rlimit": 0}] * nodes
    for i, nd in enumerate(nodes):
        st = StudyStep()
        st.name = "n%d" % i
        st.description = "step %d" % i
        st.run["cmd"] = "echo %d" % i
        st.run["restart"] = "echo r%d" % i if nd["has_restart"] else ""
        st.run["nodes"] = 1
        st.run["procs"] = 1
        st.run["walltime"] = "00:10:00"
        dag.add_step("n%d" % i, st, os.path.join(root, "n%d" % i), nd["rlimit"])
        if nd["parents"]:
            for p in nd["parents"]:
                dag.add_connection("n%d" % p, "n%d" % i)
        else:
            dag.add_connection("_source", "n%d" % i)
    dag.set_adapter(adapter)
    return dag


class RealLocalRegistered:
    """exec_harness registers a scripted class under "local"; (c) wants the real one."""

    def __enter__(self):
        from maestrowf.interfaces import ScriptAdapterFactory
        from maestrowf.interfaces.script.localscriptadapter import LocalScriptAdapter
        self.f = ScriptAdapterFactory.factories
        self.old = self.f.get("local")
        self.f["local"] = LocalScriptAdapter
        return self

    def __exit__(self, *a):
        if self.old is None:
            self.f.pop("local", None)
        else:
            self.f["local"] = self.old
        return False


def run_e2e(case, rng=None):
    """Drive the graph; fills case["polls"] when rng is given (generation) else replays them.
    -> observable"""
    name = case["adapter"]
    isflux = name.startswith("flux:")
    root = os.path.join(common.WORK, "c07_adapters", "g")
    shutil.rmtree(root, ignore_errors=True)
    os.makedirs(root, exist_ok=True)
    obs = {"exc": None, "phase": None, "handed": [], "expected": [], "is_canceled": None, "ret": None}
    pool = list(case["pool"])
    fail_idx = set(case.get("fail", []))          # indices into the order of issue / injection
    gen = rng is not None
    if gen:
        case["polls"] = []
    try:
        WORLD.reset()
        with FakeFluxInstalled(), RealLocalRegistered():
            w = ProcWorld(rc=case.get("rc", 1), pool=pool if not isflux else None)
            if isflux:
                WORLD.reset(pool=[int(JobID(p)) for p in pool])
            with ProcLayer(w):
                dag = build_graph(case["nodes"], case["cfg"], root, adapter_dict(name))
                with LogLevel(case.get("log", "default")):
                    issued = []          # ids in order of issue (as the adapter stores them)
                    live = {}            # id -> True while not reported terminal

                    def sync_issued():
                        cur = [f58enc(n) if flux_textual(name) else n for n in WORLD.submits] if isflux else list(w.order)
                        for j in cur[len(issued):]:
                            issued.append(j)
                            live[j] = True

                    def set_state(j, st):
                        if isflux:
                            WORLD.state[int(JobID(j))] = FLUX_CODE[st]
                        else:
                            w.state[j] = st

                    if case["mode"] == "inject":
                        # write the ledger directly: step i in progress with the given job history
                        k = 0
                        for i, hist in case["inject"]:
                            rec = dag.values["n%d" % i]
                            for _ in range(hist):
                                j = pool[k]
                                k += 1
                                if isflux and not flux_textual(name):
                                    j = int(JobID(j))
                                issued.append(j)
                                rec.jobid.append(j)
                            for old in issued[-hist:-1]:
                                live[old] = False
                            live[issued[-1]] = True
                            dag.in_progress.add("n%d" % i)
                    else:
                        npolls = case["npolls"] if gen else len(case["polls"])
                        for p in range(npolls):
                            obs["phase"] = "poll %d" % p
                            alive = [j for j in issued if live[j]]
                            if gen:
                                plan = []
                                for j in alive:
                                    st = rng.choice(["RUNNING", "RUNNING", "RUNNING", "PENDING", "FINISHED", "FINISHED",
                                                     "FAILED", "TIMEDOUT", "TIMEDOUT"])
                                    plan.append([issued.index(j), st])
                                case["polls"].append(plan)
                            else:
                                plan = case["polls"][p]
                            for idx, st in plan:
                                if idx < len(issued) and live.get(issued[idx]):
                                    set_state(issued[idx], st)
                                    if st in TERMINAL:
                                        live[issued[idx]] = False
                            done = dag.execute_ready_steps()
                            sync_issued()
                            if done:
                                break
                    expected = [j for j in issued if live[j]]
                    failing = [issued[i] for i in sorted(fail_idx) if i < len(issued)]
                    if isflux:
                        WORLD.fail = set(int(JobID(j)) for j in failing)
                        WORLD.cancels = []
                    else:
                        w.fail = set(str(j) for j in failing)
                    obs["phase"] = "cancel_study"
                    obs["expected"] = [str(j) for j in expected]
                    obs["failing"] = [str(j) for j in failing if j in expected]
                    obs["issued"] = len(issued)
                    obs["dag_inprog"] = len(dag.in_progress)
                    ret = dag.cancel_study()
                    obs["ret"] = getattr(ret, "name", repr(ret))
                    obs["is_canceled"] = bool(dag.is_canceled)
                    if isflux:
                        if flux_textual(name):
                            obs["handed"] = [f58enc(n) for n in WORLD.cancels]
                        else:
                            obs["handed"] = [str(n) for n in WORLD.cancels]
                    else:
                        obs["handed"] = list(w.cancel_args)
                    obs["phase"] = "done"
    except Exception as e:
        obs["exc"] = "%s: %s" % (type(e).__name__, str(e)[:200])
    finally:
        shutil.rmtree(root, ignore_errors=True)
    return obs


def judge_e2e(case, obs):
    name = case["adapter"]
    if obs["exc"]:
        if obs["phase"] == "cancel_study":
            return "cancel_study raised " + obs["exc"]
        return None            # could not get that far: reported as a mismatch by the caller
    if obs["is_canceled"] is not True:
        return "cancel_study did not set is_canceled"
    want, got = set(obs["expected"]), set(obs["handed"])
    if name == "local":
        if got:
            return "the local adapter cancelled something"
        return None if obs["ret"] == "OK" else "cancel_study of a local study returned %s" % obs["ret"]
    if want - got:
        return "cancel_study: %d of the %d jobs in flight were not handed to the scheduler (first: %s)" % (
            len(want - got), len(want), sorted(want - got)[0])
    if got - want:
        return "cancel_study handed an id to the scheduler that is not the last job of a step in progress: %s" % \
               sorted(got - want)[0]
    bad = bool(obs.get("failing"))
    if obs["ret"] != ("ERROR" if bad else "OK"):
        return "cancel_study returned %s although %s" % (obs["ret"], "a cancel failed" if bad else "every cancel succeeded")
    return None


# ----------------------------------------------------------------------------
# generators
# ----------------------------------------------------------------------------
def gen_digit_ids(rng, k):
    """k distinct decimal ids, many of them prefixes of one another."""
    out = []
    base = str(rng.randint(1, 9)) + "".join(rng.choice("0123456789") for _ in range(rng.randint(0, 3)))
    cur = base
    guard = 0
    while len(out) < k and guard < 200:
        guard += 1
        r = rng.random()
        if r < 0.55:
            cur = cur + rng.choice("0123456789")            # extend: the previous id is a prefix
            cand = cur
        elif r < 0.75 and len(cur) > 1:
            cand = cur[:rng.randint(1, len(cur) - 1)]        # a proper prefix
        elif r < 0.9:
            cand = cur[:-1] + rng.choice("0123456789") if cur else "7"   # sibling
        else:
            cand = str(rng.randint(1, 10 ** rng.randint(1, 8)))
            cur = cand
        if len(cand) > 12:
            cur = base
            continue
        if cand not in out and cand and cand[0] != "0":
            out.append(cand)
    rng.shuffle(out)
    return out


def gen_f58_ids(rng, k):
    out = []
    alpha = B58[1:]
    cur = "".join(rng.choice(alpha) for _ in range(rng.randint(1, 4)))
    guard = 0
    while len(out) < k and guard < 200:
        guard += 1
        r = rng.random()
        if r < 0.55 and len(cur) < 10:
            cur = cur + rng.choice(B58)
            cand = cur
        elif r < 0.75 and len(cur) > 1:
            cand = cur[:rng.randint(1, len(cur) - 1)]
        elif r < 0.9:
            cand = cur[:-1] + rng.choice(alpha)
        else:
            cand = "".join(rng.choice(alpha) for _ in range(rng.randint(1, 9)))
            cur = cand
        cand = "ƒ" + cand
        if cand not in out:
            out.append(cand)
    rng.shuffle(out)
    return out


def gen_ids(rng, name, k):
    if name.startswith("flux:"):
        if flux_textual(name):
            return gen_f58_ids(rng, k)
        ds = gen_digit_ids(rng, k)
        return [int(d) for d in ds] if rng.random() < 0.7 else ds
    return gen_digit_ids(rng, k)


def fail_sets(rng, ids, exhaustive):
    n = len(ids)
    sets = [[], [ids[0]], [ids[-1]], list(ids)]
    sets += [[x] for x in ids]
    if exhaustive and n <= 4:
        for m in range(n + 1):
            for c in itertools.combinations(ids, m):
                sets.append(list(c))
    else:
        for _ in range(3):
            sets.append([x for x in ids if rng.random() < 0.4])
    seen, out = set(), []
    for s in sets:
        key = tuple(s)
        if key not in seen:
            seen.add(key)
            out.append(s)
    return out


def gen_unit_cases(rng, name, budget, exhaustive):
    cases = [{"kind": "unit", "adapter": name, "ids": [], "fail": []}]
    while len(cases) < budget:
        k = rng.choice([1, 2, 2, 3, 3, 4, 4, 5, 6])
        ids = gen_ids(rng, name, k)
        if not ids:
            continue
        fs = fail_sets(rng, ids, exhaustive)
        if not exhaustive:
            head, tail = fs[:3], fs[3:]
            rng.shuffle(tail)
            fs = head + tail[:3]
        for f in fs:
            cases.append({"kind": "unit", "adapter": name, "ids": ids, "fail": f, "rc": rng.choice(FAIL_RCS)})
    return cases[:max(budget, 1)]


def gen_pool(rng, name, k):
    ids = []
    while len(ids) < k:
        more = gen_f58_ids(rng, 6) if name.startswith("flux:") else gen_digit_ids(rng, 6)
        for m in more:
            if m not in ids:
                ids.append(m)
    return ids[:k]


def gen_e2e_case(rng, name, mode):
    from harness import exec_harness as H
    shape, nodes = H.gen_graph(rng, shape=rng.choice([None, None, "fanout", "funnel", "indep", "twofail", "diamond"]),
                               nmax=6)
    nodes = [dict(nd, scheduled=True) for nd in nodes]
    c = {"kind": "e2e", "adapter": name, "mode": mode, "shape": shape, "nodes": nodes,
         "cfg": {"throttle": rng.choice([0, 0, 0, 2, 3]), "attempts": 1},
         "pool": gen_pool(rng, name, 40), "rc": rng.choice(FAIL_RCS)}
    if mode == "inject":
        k = rng.choice([0, 0, 1, 1, 2, 3, len(nodes)])
        chosen = sorted(rng.sample(range(len(nodes)), min(k, len(nodes))))
        c["inject"] = [[i, rng.choice([1, 1, 1, 2, 3])] for i in chosen]
        total = sum(h for _, h in c["inject"])
    else:
        c["npolls"] = rng.choice([0, 1, 1, 2, 2, 3, 4])
        total = 12
    r = rng.random()
    if r < 0.4:
        c["fail"] = []
    elif r < 0.6:
        c["fail"] = [0]
    else:
        c["fail"] = sorted(i for i in range(total) if rng.random() < 0.35)
    return c


def unreachable_interfaces():
    """Interface classes in _flux/ that FluxFactory does not register (abstract): no user input reaches
    them, so they are reported here and not judged."""
    out = {}
    try:
        import importlib
        from maestrowf.abstracts.interfaces.flux import FluxInterface
        from maestrowf.interfaces.script import FluxFactory
        from maestrowf.interfaces.script.fluxscriptadapter import FluxScriptAdapter
        reg = set(FluxFactory.factories.values())
        d = os.path.join(common.REPO, "maestrowf/interfaces/script/_flux")
        for f in sorted(glob.glob(os.path.join(d, "flux*.py"))):
            m = importlib.import_module("maestrowf.interfaces.script._flux." + os.path.basename(f)[:-3])
            for v in list(vars(m).values()):
                if isinstance(v, type) and issubclass(v, FluxInterface) and v is not FluxInterface and v not in reg \
                        and v.__module__ == m.__name__:
                    with FakeFluxInstalled():
                        a = FluxScriptAdapter.__new__(FluxScriptAdapter)
                        a._interface = v
                        WORLD.reset(fail=[7])
                        try:
                            r = a.cancel_jobs([7, 71, 712])
                            note = "cancel_jobs([7,71,712]) with 7 failing: attempted %s, status %s" % (
                                sorted(WORLD.cancels), canon_record(r)[1])
                        except Exception as e:
                            note = "cancel_jobs raised %s" % type(e).__name__
                    out[str(getattr(v, "key", v.__name__))] = "abstract, not registered; " + note
    except Exception as e:
        out["error"] = repr(e)
    return out


BOUNDARY = [0, 1, 2, 63, 64, 65, 99, 100, 101, 127, 128, 129, 199, 200, 201, 255, 256, 257, 1000]


def gen_many_ids(rng, name, n):
    """n distinct ids (consecutive numbers from a small or random base: plenty of them are prefixes of
    others), shuffled, in the form the adapter stores."""
    base = rng.choice([1, 1, 7, 95, 990, rng.randint(1, 10 ** 6)])
    nums = list(range(base, base + n))
    rng.shuffle(nums)
    if name.startswith("flux:"):
        return [f58enc(x) for x in nums] if flux_textual(name) else nums
    return [str(x) for x in nums]


def boundary_fail_sets(rng, ids):
    n = len(ids)
    if not n:
        return [[]]
    sets = [[], [ids[0]], [ids[-1]], [ids[n // 2]]]
    if n >= 100:
        sets += [[ids[99]], [ids[98]], ids[99::100], [ids[100 % n]]]
    sets.append([x for x in ids if rng.random() < 3.0 / n])
    seen, out = set(), []
    for f in sets:
        if tuple(f) not in seen:
            seen.add(tuple(f))
            out.append(f)
    return out


def gen_boundary_units(rng, name, sizes, per_size):
    out = []
    for n in sizes:
        ids = gen_many_ids(rng, name, n)
        fs = boundary_fail_sets(rng, ids)
        if per_size is not None and len(fs) > per_size:
            head, tail = fs[:1], fs[1:]
            rng.shuffle(tail)
            fs = head + tail[:per_size - 1]
        for f in fs:
            out.append({"kind": "unit", "adapter": name, "ids": ids, "fail": f, "rc": rng.choice(FAIL_RCS),
                        "stream": "boundary"})
    return out


def gen_boundary_e2e(rng, name, n):
    """n independent steps, all in progress (ledger written directly); a tenth of them (small n) carry an
    older job id that must NOT be cancelled."""
    inject = [[i, 2 if (n <= 300 and rng.random() < 0.1) else 1] for i in range(n)]
    total = sum(h for _, h in inject)
    pool = gen_many_ids(rng, name, total)
    if name.startswith("flux:") and not flux_textual(name):
        pool = [str(x) for x in pool]
    r = rng.random()
    fail = [] if r < 0.4 or not total else [rng.randrange(total)] if r < 0.7 else \
        sorted(set(rng.randrange(total) for _ in range(3)))
    return {"kind": "e2e", "adapter": name, "mode": "inject", "shape": "indep", "nodes": n,
            "cfg": {"throttle": 0, "attempts": 1}, "pool": pool, "rc": rng.choice(FAIL_RCS),
            "inject": inject, "fail": fail, "stream": "boundary"}


def _quiet(fn):
    with LogLevel("default"):
        return fn()


def can_submit(name):
    """The adapters whose submit path works under the stubs (the two oldest flux interfaces
    reject the keyword arguments FluxScriptAdapter.submit passes -- not a C07 matter)."""
    if name == "local":
        return False
    if name.startswith("flux:"):
        return flux_textual(name)
    return True


# ----------------------------------------------------------------------------
# entry points
# ----------------------------------------------------------------------------
def replay_case(case, rng=None):
    """-> (observable, verdict sentence or None); case["log"] = logging configuration (default | debug)"""
    if case.get("kind") == "e2e":
        # the graph is built silently (a 1000-step graph logs millions of lines); submissions, status polls
        # and cancel_study run under the case's configuration (inside run_e2e)
        with LogLevel("default"):
            obs = run_e2e(case, rng)
    else:
        with LogLevel(case.get("log", "default")):
            obs = run_unit(case)
    obs["log"] = case.get("log", "default")
    if case.get("kind") == "e2e":
        return obs, judge_e2e(case, obs)
    return obs, judge_unit(case, obs)


def is_adapter_case(d):
    d = d.get("case", d)
    return isinstance(d, dict) and d.get("kind") in ("unit", "e2e") and "adapter" in d


def replay_adapters(ck, d):
    case = d.get("case", d)
    obs, verdict = replay_case(case)
    print(json.dumps({"case": case, "observed": obs, "verdict": verdict or "holds"}, indent=1, default=str))
    return 1 if verdict else 0


def _case_key(c):
    return json.dumps({k: v for k, v in c.items() if k not in ("observed",)}, sort_keys=True, default=str)


def run_adapters(ck):
    rng = random.Random(ck.seed * 7919 + 707)
    budget = QUICK if ck.tier == "quick" else THOROUGH
    names = adapter_names()
    hist = {}
    how = {}

    def bump(k):
        hist[k] = hist.get(k, 0) + 1

    turn = [ck.seed]

    def lv(case):
        """the logging configuration is a dimension of every generated case: alternate instead of doubling"""
        turn[0] += 1
        case["log"] = LOG_LEVELS[turn[0] % 2]
        return case

    def account(case, obs, verdict, origin):
        name = case["adapter"]
        bump("log=%s %s" % (case.get("log", "default"), "cancel_jobs" if case["kind"] == "unit" else
                            "cancel_study after submit/check_jobs polls" if case.get("mode") == "submit" else
                            "cancel_study (ledger written)"))
        if case.get("stream") == "boundary":
            n = len(case["ids"]) if case["kind"] == "unit" else case["nodes"]
            nontrivial = n >= 2
            bump("%s boundary %s n=%s" % (name, "unit" if case["kind"] == "unit" else "cancel_study",
                                          n if n < 1000 else "1000+"))
        elif case["kind"] == "unit":
            nontrivial = len(case["ids"]) >= 2 or bool(case.get("fail"))
            bump("%s unit %s" % (name, "empty" if not case["ids"] else
                                 ("fail@first" if case.get("fail") and case["fail"][0] == case["ids"][0] else
                                  "some fail" if case.get("fail") else "all succeed")))
            if obs.get("how"):
                how[name] = obs["how"]
        else:
            nontrivial = bool(obs.get("expected"))
            bump("%s e2e/%s %s" % (name, case["mode"], "nothing in flight" if not obs.get("expected") else
                                   "%s in flight" % ("1" if len(obs["expected"]) == 1 else "2+")))
        ck.count(("adapters", _case_key(case)), nontrivial=nontrivial)
        rec = dict(case, observed=obs, origin=origin)
        if verdict:
            ck.violation("C07 (real %s adapter%s): %s" % (
                name, ", DEBUG logging as under -d 1" if case.get("log") == "debug" else "", verdict), rec)
        elif obs.get("setup_exc") or (case["kind"] == "e2e" and obs.get("exc")):
            ck.mismatch("C07 adapters: the %s adapter could not be driven up to the cancel request" % name, rec,
                        obs.get("setup_exc") or "%s during %s" % (obs["exc"], obs["phase"]))
        return rec

    # corpus first
    ncorpus = 0
    for f in sorted(glob.glob(os.path.join(CORPUS_DIR, "*.json"))):
        try:
            d = json.load(open(f))
            case = d.get("case", d)
            case = {k: v for k, v in case.items() if k not in ("observed", "origin")}
            if case["adapter"] not in names:
                continue
            obs, verdict = replay_case(case)
            account(case, obs, verdict, "corpus:" + os.path.basename(f))
            ncorpus += 1
        except Exception as e:
            ck.mismatch("C07 adapters: corpus file %s cannot be replayed" % os.path.basename(f), None, repr(e))

    sampled = False
    for name in names:
        for case in gen_unit_cases(rng, name, budget["unit"], exhaustive=(ck.tier != "quick")):
            obs, verdict = replay_case(lv(case))
            rec = account(case, obs, verdict, "generated")
            if not sampled and name == "slurm" and len(case["ids"]) >= 3 and case.get("fail"):
                ck.sample({"c07_adapters": rec})
                sampled = True
        if can_submit(name):
            for _ in range(budget["e2e"]):
                case = lv(gen_e2e_case(rng, name, "submit"))
                obs, verdict = replay_case(case, rng)
                account(case, obs, verdict, "generated")
        for _ in range(budget["inject"]):
            case = lv(gen_e2e_case(rng, name, "inject"))
            obs, verdict = replay_case(case, rng)
            account(case, obs, verdict, "generated")
        # boundary sizes (batched cancel commands): 0 .. 1000 ids, and as many steps in progress
        sizes = list(BOUNDARY)
        if ck.tier != "quick":
            sizes += [rng.randint(300, 999), rng.randint(1001, 3000)]
        for case in gen_boundary_units(rng, name, sizes, 3 if ck.tier == "quick" else None):
            obs, verdict = replay_case(lv(case))
            account(case, obs, verdict, "boundary")
        for n in sizes:
            if ck.tier == "quick" and n >= 1000 and names.index(name) != ck.seed % len(names):
                continue          # quick: the 1000-step graph for one adapter (rotating with the seed)
            case = lv(gen_boundary_e2e(rng, name, n))
            obs, verdict = replay_case(case, rng)
            account(case, obs, verdict, "boundary")

    ck.cov["adapters_cancel"] = {
        "adapters": names, "log_records_formatted": dict(LOG_RECORDS), "interfaces_not_registered_by_FluxFactory": _quiet(unreachable_interfaces), "flux_adapter_built_by": how, "corpus": ncorpus,
        "rule": "per real adapter: cancel_jobs([]); cancel_jobs(ids) for 1-6 prefix-related ids x failing subsets at "
                "every position (exhaustive for <=4 ids in the thorough tier); cancel_study of a real ExecutionGraph "
                "after 0-4 scripted polls with real submissions (e2e/submit) or a directly written in-progress ledger "
                "(e2e/inject); boundary stream: list lengths / steps in progress 0,1,2,63-65,99-101,127-129,199-201,255-257,1000 (+2 random large sizes in the "
                "thorough tier) x failing ids at the ends, the middle and every 100th position. Oracle: set of ids with a cancel attempted = ids in the list / the stub's ledger of "
                "live jobs; record status OK iff no attempt failed. Every generated case runs under one of two logging "
                "configurations, alternating: default (no logger enabled for DEBUG) and DEBUG as `maestro -d 1` sets it up "
                "(root + maestrowf loggers at DEBUG with a formatting handler); the oracle is the same under both",
        "histogram": dict(sorted(hist.items()))}

"""C03 -- see DESIGN.md section 5.  Proofs: coq/theories/Props/C03.v; correspondence
and monitor: harness/exec_props.py (monitor family 3 of Exec/ExecTrace.v)."""
from harness import exec_props as X

BIAS = {}
TINY = None


def run(ck):
    return X.run_exec(ck, 3, BIAS, tiny=TINY)


def replay(ck, path):
    return X.replay_exec(ck, 3, path)

"""C03 -- see DESIGN.md section 5.  Proofs: coq/theories/Props/C03.v; correspondence
and monitor: harness/exec_props.py (monitor family 3 of Exec/ExecTrace.v)."""
from harness import exec_props as X

BIAS = {"throttled": True, "profiles": ["timeout", "hw", "mixed", "failing", "happy"], "sub_ok_p": 0.8}
TINY = {"cfgs": [{"throttle": 1, "attempts": 1, "dry": False}, {"throttle": 2, "attempts": 2, "dry": False},
                 {"throttle": 0, "attempts": 1, "dry": False}],
        "depth_quick": 3, "depth_thorough": 4, "graphs_quick": 3,
        "enum": {"subs": True, "kinds": ["absent", "RUNNING", "FINISHED", "TIMEDOUT", "HWFAILURE", "FAILED"]},
        "limit_quick": 1500, "limit_thorough": 15000}


def run(ck):
    return X.run_exec(ck, 3, BIAS, tiny=TINY)


def replay(ck, path):
    return X.replay_exec(ck, 3, path)

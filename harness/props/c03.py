"""C03 -- see DESIGN.md section 5.  Proofs: coq/theories/Props/C03.v; correspondence
and monitor: harness/exec_props.py (monitor family 3 of Exec/ExecTrace.v)."""
from harness import exec_props as X

BIAS = {"throttled": True, "profiles": ["timeout", "hw", "mixed", "failing", "happy"], "sub_ok_p": 0.8}
TINY = {"cfgs": [{"throttle": 1, "attempts": 1, "dry": False}, {"throttle": 2, "attempts": 2, "dry": False},
                 {"throttle": 0, "attempts": 1, "dry": False}],
        "depth_quick": 3, "depth_thorough": 4, "graphs_quick": 3,
        "enum": {"subs": True, "kinds": ["absent", "RUNNING", "FINISHED", "TIMEDOUT", "HWFAILURE", "FAILED"]},
        "limit_quick": 1500, "limit_thorough": 15000}


def _e2e(ck):
    # the throttle given on the command line must be the bound the engine enforces: parameterised studies
    # through the literal `maestro run -fg -t T -a A -r R` with the scripted scheduler (harness/e2e.py)
    import random
    from harness import e2e
    e2e.check_config(ck, e2e.config_cases(random.Random(ck.seed * 977 + 3), 10 if ck.tier != "thorough" else 150,
                                          "throttle"), 3)


def run(ck):
    return X.run_exec(ck, 3, BIAS, tiny=TINY, extra=_e2e)


def replay(ck, path):
    return X.replay_exec(ck, 3, path)

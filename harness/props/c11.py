"""C11 -- expanding the same specification is repeatable.

The tie (T-corr across PROCESSES): every generated specification is built,
staged and dry-run through the real Study / ExecutionGraph with the local
adapter (scripts and status.csv are really written) in >= 3 FRESH interpreter
processes, each with its own PYTHONHASHSEED and its own output root.  Each
process serialises

  obs      the C08 observable: used-parameter table, and for every node in
           `values` order name, adjacency list, _dependencies, restart limit,
           record params (dict order), workspace relative to the root,
           description / cmd / restart / other string fields / depends
  polls    the names passed to write_script, poll by poll (submission order)
  status   status.csv rows: Step Name, Workspace, State, Params column
  scripts  the text of every script / restart script written, in that order
  exc      exception class of the dry run / final status if not FINISHED

with the absolute root replaced by the placeholder "/R".  Inside Coq
(Expand/OrderFree.v) the monitor `C11_ok` -- the predicate of the theorems of
Props/C11.v: all expansions equal -- is evaluated on the recorded list, and the
first process's record is compared with the model `c11_model` (Expand.v's
`stage` + the derived submission order / status rows / script texts) under the
identity AND the reversed set-iteration oracle.

A share of the cases is staged with hash_ws=True and/or use_tmp=True (case keys
"hashws"/"usetmp").  The Gallina model has hash_ws off, so hash_ws cases are
compared ACROSS PROCESSES ONLY (monitor `C11_ok`, no model agreement); use_tmp
alone changes no observable, those cases keep the model comparison.

A share of the cases ("adapter": slurm | lsf | flux) is dry-run with a scheduler
batch block and steps declaring nodes/procs and several optional resource keys
around `$(LAUNCHER)`: the script TEXTS then carry scheduler headers and launcher
command lines.  The Expand model does not model launcher text, so these cases
are compared across processes only as well.

The output roots of the processes differ in depth and spelling and include
characters the path sanitiser rewrites or strips (blank, ' + , non-ASCII); the
root is replaced by the placeholder exactly AS GIVEN, string by string, so a
workspace / script that is not under the given root shows up as a difference.

Case key "via": "conductor" -- staged by Conductor.initialize and polled by
Conductor.monitor_study (sleep stubbed); status.csv is read where the Conductor
writes it.  Case key "real": true -- a REAL (non-dry) run against a scripted
scheduler adapter (every job FINISHED one poll after submission, answers in the
order queried; with "faults": "hw" | "timeout" | "mixed" every instance's first
job reports HWFAILURE / TIMEDOUT once, all jobs in flight together, and is
re-queued / restarted); `polls` is then the sequence of SUBMITTED instance names; these
cases are compared across processes only.  One process's root is reached through
a symbolic link, another is spelled with ".." and "//".

The hash seeds are chosen by a pre-computation in sub-processes (tie names, the
resource-key sets the launcher code iterates, the in_progress sets of the
real-run witnesses, the sets of environment label names of the "env" stream --
case key "env": chains of variables/labels referring to each other, compared
across processes only): among the
candidates, seeds that iterate the two-element sets of the "tie" parameter names
({"temp","TEMP"}, names equal up to case / underscores / digit suffix) in BOTH
orders are always included.

A difference between two processes is a concrete violation (replay = the
specification, its flags, the hash seeds and the root variants).

Sub-process entry:  python -m harness.props.c11 --worker IN.json OUT.json
"""
import glob
import json
import os
import random
import shutil
import subprocess
import sys
from concurrent.futures import ThreadPoolExecutor

from harness import common
from harness.props import c08

PID = "C11"
PY = "/venv/bin/python"
SEEDS_QUICK = ["0", "1", "7"]             # fall-back only: see pick_seeds
SEEDS_THOROUGH = ["0", "1", "7", "12345"]
SEED_CANDIDATES = [str(i) for i in range(40)] + ["12345"]
# parameter names that are distinct but equal under a plausible normalisation
# (case, leading/trailing underscore, digit suffix); the first pair is the one the
# chosen hash seeds MUST order both ways
TIE_PAIRS = [["temp", "TEMP"], ["dt", "DT"], ["size", "SIZE"], ["Temp", "temp"], ["x1", "X1"],
             ["N_", "N"], ["_N", "N"], ["A1", "A2"]]
# output roots differ in depth and spelling; the last two components are the
# same everywhere because write_status prints the last two components of a
# workspace path (a component that sanitises to nothing would otherwise show
# the root's own directory name: C10's K1, not a C11 matter).  "@LINK" is a root
# reached through a symbolic link, "@DOTS" one spelled with ".." and "//"
# (make_root).  The LAST process
# re-uses the FIRST process's hash seed under another root, so that a
# difference caused by the root alone is recognisable as such.
VARIANTS = ["p0", "@LINK", "my runs/it's+a,b/\u00fc\u00e4 x", "@DOTS", "q1/deeper.dir-1"]
# instance-name sets of the real-run witnesses (corpus/C11/real_run_*.json): the in_progress
# set of the poll in which their jobs finish together, in insertion (= submission) order
NAME_SETS = [["sim_SIZE.10", "sim_SIZE.20", "sim_SIZE.30"], ["sim_SIZE.10", "sim_SIZE.20"],
             ["gen_N.1", "gen_N.2", "run_TEMP.300.temp.1", "run_TEMP.400.temp.2"],
             # sets of environment label NAMES (labels other labels refer to), in declaration order
             ["BUILD", "BIN"], ["BIN", "BUILD"]]
NAME_SETS_OPTIONAL = [["BUILD", "BIN", "TOOL"], ["TOOL", "BIN", "BUILD"], ["BIN", "TOOL"], ["PREFIX", "LIB"],
                      ["LIB", "CFG"], ["PREFIX", "LIB", "CFG"], ["B_DIR", "C_DIR"], ["A_DIR", "B_DIR", "C_DIR"]]
# --pargs lists of the real-CLI mode: repeated keys with different values (the LATER one wins),
# several keys, values containing ':' and ','; the first two must be iterated -- as sets -- in
# different orders among the chosen hash seeds
PARG_LISTS = [["COUNT:2", "COUNT:3"], ["COUNT:2", "STEP:5", "COUNT:3"],
              ["COUNT:3", "STEP:10", "STEP:20", "COUNT:3"], ["TAG:a:b", "TAG:c,d", "COUNT:2"],
              ["LIST:1,2,3", "LIST:4,5", "TAG:x:y"], ["COUNT:1", "STEP:7", "COUNT:4", "STEP:3", "TAG:t"]]
# ready queues (deques of instance names) of the throttle witnesses, as lists
QUEUE_LISTS = [["sim_SIZE.20", "sim_SIZE.30", "sim_SIZE.40"]]
# output roots of the real-CLI runs (below the scratch directory): whatever the file system allows
CLI_ROOTS = ["plain", "bl ank dir", "par(en)s", "amp&semi;colon", "dol$lar$HOME", "qu'ote", 'dq"uote x',
             "star*q?[a]", "back\\slash`tick`"]
ENV_NAMES = ["ROOT", "BUILD", "BIN", "TOOL", "EXE"]
ENV_NAMES2 = ["BASE", "PREFIX", "LIB", "CFG", "RUNNER"]
# the StudyStep run keys handed to get_parallelize_command as **kwargs (nodes/procs
# popped), in dict order; custom keys are appended in the order the case lists them
RUN_KWARGS = ["cmd", "depends", "pre", "post", "restart", "gpus", "cores per task", "walltime", "reservation"]
KEYSETS = [RUN_KWARGS, RUN_KWARGS + ["exclusive"], RUN_KWARGS + ["qos"], RUN_KWARGS + ["exclusive", "qos"]]
RES_KEYS = ["cores per task", "gpus", "walltime", "reservation", "exclusive", "qos"]

HEADER = c08.HEADER + """From MWF Require Import Expand.OrderFree.
Definition X_ := mkX.
Definition R_ := mkRow.
Definition C_ := mkScr.
Definition L_ (l : list str) : str := join [10%N] l.
"""


# ----------------------------------------------------------------------------
# worker (runs in the fresh interpreter)
# ----------------------------------------------------------------------------
class _StopPolling(Exception):
    pass


class Sched:
    """state of the scripted scheduler of the "real run" mode (one case at a time)"""
    next_job = 1
    submitted = []       # instance names in submission order
    queries = []         # job ids as queried, poll by poll
    job_name = {}        # job id -> instance name
    faulted = set()      # instance names that already had their one fault
    faults = None        # None | "hw" | "timeout" | "mixed"  (case key "faults")
    refuse = None        # None | "crc" | [instance names]     (case key "refuse")


def refused(name):
    """case key "refuse": a list of instance names, or "crc" (a quarter of the
    instances, chosen by a checksum of the name -- never by the hash seed)"""
    import zlib
    r = Sched.refuse
    if not r:
        return False
    if r == "crc":
        return zlib.crc32(name.encode("utf-8")) % 4 == 0
    return name in r


def fault_of(name):
    """the ONE fault an instance's first job reports before it may finish
    (a function of the name only -- never of the hash seed)"""
    import zlib
    if Sched.faults == "hw":
        return "HWFAILURE"
    if Sched.faults == "timeout":
        return "TIMEDOUT"
    if Sched.faults == "mixed":
        return [None, "HWFAILURE", "TIMEDOUT"][zlib.crc32(name.encode("utf-8")) % 3]
    return None


def register_scripted():
    """A scheduler adapter registered through the plug-in registry: scripts are
    written by the local adapter's writer, every step is SCHEDULED, submit hands
    out consecutive job ids, check_jobs answers for exactly the ids queried, in
    the order queried (as the real adapters do): FINISHED (each job finishes one
    poll after its submission) -- or, with the case key "faults", ONE
    HWFAILURE (the step is re-queued) / TIMEDOUT (the step is restarted if it has
    a restart command and budget, else it fails) per instance first, for ALL the
    jobs in flight in that poll together."""
    from maestrowf.interfaces import ScriptAdapterFactory
    if "c11sched" in ScriptAdapterFactory.factories:
        return
    from maestrowf.abstracts.enums import JobStatusCode, State, SubmissionCode, CancelCode
    from maestrowf.interfaces.script import SubmissionRecord, CancellationRecord
    from maestrowf.interfaces.script.localscriptadapter import LocalScriptAdapter

    class Scripted(LocalScriptAdapter):
        key = "c11sched"

        def __init__(self, **kwargs):
            kwargs.pop("type", None)
            super(Scripted, self).__init__(**kwargs)

        def _write_script(self, ws_path, step):
            _, sp, rp = super(Scripted, self)._write_script(ws_path, step)
            return True, sp, rp

        def submit(self, step, path, cwd, job_map=None, env=None):
            if refused(str(step.real_name)):          # every attempt of this instance is refused
                Sched.submitted.append("REFUSED " + str(step.real_name))
                return SubmissionRecord(SubmissionCode.ERROR, 1)
            jid = str(Sched.next_job)
            Sched.next_job += 1
            Sched.submitted.append(str(step.real_name))
            Sched.job_name[jid] = str(step.real_name)
            return SubmissionRecord(SubmissionCode.OK, 0, jid)

        def check_jobs(self, joblist):
            Sched.queries.append([str(j) for j in joblist])
            if not joblist:
                return JobStatusCode.NOJOBS, {}
            out = {}
            for j in joblist:
                name = Sched.job_name.get(str(j), "")
                f = fault_of(name) if name not in Sched.faulted else None
                if f:
                    Sched.faulted.add(name)
                out[j] = State[f] if f else State.FINISHED
            return JobStatusCode.OK, out

        def cancel_jobs(self, joblist):
            return CancellationRecord(CancelCode.OK, 0)
    ScriptAdapterFactory.factories["c11sched"] = Scripted


def batch_block(case):
    """the adapter settings of the case; the flux adapter is made constructible
    without the flux python module (its constructor stops at its last statement)"""
    if case.get("real"):
        register_scripted()
        return {"type": "c11sched"}
    kind = case.get("adapter") or "local"
    if kind == "local":
        return {"type": "local"}
    if kind == "flux":
        from maestrowf.interfaces import ScriptAdapterFactory
        import maestrowf.interfaces.script.fluxscriptadapter as m_flux
        Flux = m_flux.FluxScriptAdapter
        if not getattr(ScriptAdapterFactory.factories.get("flux"), "_c11_shim", False):
            class FluxShim(Flux):
                _c11_shim = True

                def __init__(self, **kw):
                    try:
                        super(FluxShim, self).__init__(**kw)
                    except (NameError, ImportError, AttributeError):
                        self._broker_version = "0.0.0"
            ScriptAdapterFactory.factories["flux"] = FluxShim
    return {"type": kind, "host": "h", "bank": "b", "queue": "q", "nodes": 2}


def build_study(case, root):
    """c08.build_study; with the case key "env" (ordered [kind, name, value]
    entries, kind = variables | labels) the environment additionally holds those
    entries, added the way YAMLSpecification.get_study_environment adds them:
    the `variables` block first, then the `labels` block, each in document order."""
    if not case.get("env"):
        return c08.build_study(case, root)
    from maestrowf.datastructures.core import Study, StudyStep, ParameterGenerator, StudyEnvironment
    from maestrowf.datastructures.environment import Variable
    env = StudyEnvironment()
    env.add(Variable("OUTPUT_PATH", root))
    env.add(Variable("SPECROOT", os.path.dirname(root)))
    for kind in ("variables", "labels"):
        for k, name, value in case["env"]:
            if k == kind:
                env.add(Variable(name, value))
    params = ParameterGenerator()
    for p in case["params"]:
        if p.get("name"):
            params.add_parameter(p["key"], list(p["values"]), p.get("label"), p["name"])
        else:
            params.add_parameter(p["key"], list(p["values"]), p.get("label"))
    steps = []
    for st in case["steps"]:
        s = StudyStep()
        s.name = st["name"]
        s.description = st["description"]
        for k, v in st["run"].items():
            s.run[k] = v if not isinstance(v, list) else list(v)
        steps.append(s)
    return Study("c08_study", {"name": "c08_study", "description": "generated"},
                 studyenv=env, parameters=params, steps=steps, out_path=root)


def stage_flags(case, root):
    """Build, configure and stage the study the way maestro.run_study does, with
    the case's flags; with "via": "conductor" the staging is done by
    Conductor.initialize (stage + set_adapter + store_metadata).  Returns
    (observable, study, dag, conductor or None, status directory)."""
    c08.quiet()
    obs_root = root.rstrip("/") or "/"
    os.makedirs(os.path.dirname(obs_root), exist_ok=True)
    try:
        study = build_study(case, root)
    except Exception as e:
        return {"ok": False, "err": 1, "exc": type(e).__name__, "msg": str(e)[:200]}, None, None, None, root
    cond, sdir = None, root
    try:
        study.setup_workspace()
        study.configure_study(throttle=int(case.get("throttle") or 0),
                              submission_attempts=int(case.get("attempts") or 1), restart_limit=case["rlimit"],
                              use_tmp=bool(case.get("usetmp")), hash_ws=bool(case.get("hashws")),
                              dry_run=not case.get("real"))
        study.setup_environment()
        if case.get("via") == "conductor":
            from maestrowf.conductor import Conductor
            cond = Conductor(study)
            cond.initialize(batch_block(case), sleeptime=1)
            dag, sdir = cond._exec_dag, cond._pkl_path
        else:
            _, dag = study.stage()
            dag.set_adapter(batch_block(case))
    except Exception as e:
        return {"ok": False, "err": 2, "exc": type(e).__name__, "msg": str(e)[:200]}, study, None, None, root
    try:
        return c08.observe_dag(case, study, dag, obs_root), study, dag, cond, sdir
    except Exception as e:
        return {"ok": False, "err": 3, "exc": type(e).__name__, "msg": str(e)[:200]}, study, dag, cond, sdir


def expand_once(case, root):
    """Stage + run under `root` (dry run, or a real run against the scripted
    scheduler); returns the serialisation (root replaced)."""
    ser = {"obs": None, "polls": [], "status": [], "scripts": [], "exc": ""}
    Sched.next_job, Sched.submitted, Sched.queries = 1, [], []
    Sched.job_name, Sched.faulted, Sched.faults = {}, set(), case.get("faults")
    Sched.refuse = case.get("refuse")
    o, study, dag, cond, sdir = stage_flags(case, root)
    ser["obs"] = o
    if o.get("ok") and dag is not None:
        from maestrowf.abstracts.interfaces.scriptadapter import ScriptAdapter
        from maestrowf.abstracts.enums import StudyStatus
        calls = []
        orig = ScriptAdapter.__dict__["write_script"]
        real = bool(case.get("real"))

        def launched():          # what counts as a launch: a submission (real run) / a script (dry run)
            return len(Sched.submitted) if real else len(calls)

        def write_script(self_, ws_path, step):
            r = orig(self_, ws_path, step)
            calls.append((str(step.real_name), r[1], r[2]))
            return r
        ScriptAdapter.write_script = write_script
        cm, saved_sleep = None, None
        try:
            cap = (3 if not case.get("throttle") else 5) * len(o["nodes"]) + 6
            marks = [0]
            if cond is not None:
                import maestrowf.conductor as cm

                def hook(_t):
                    marks.append(launched())
                    if len(marks) > cap:
                        raise _StopPolling()
                saved_sleep, cm.sleep = cm.sleep, hook
                try:
                    status = cond.monitor_study()
                except _StopPolling:
                    status = StudyStatus.RUNNING
                marks.append(launched())
            else:
                status, polls = StudyStatus.RUNNING, 0
                while status == StudyStatus.RUNNING and polls < cap:
                    status = dag.execute_ready_steps()
                    marks.append(launched())
                    polls += 1
                dag.write_status(sdir)
            seq = list(Sched.submitted) if real else [c[0] for c in calls]
            ser["polls"] = [seq[a:b] for a, b in zip(marks, marks[1:])]
            while ser["polls"] and not ser["polls"][-1]:
                ser["polls"].pop()
            if status != StudyStatus.FINISHED:
                ser["exc"] = "STATUS:%s" % getattr(status, "name", status)
            with open(os.path.join(sdir, "status.csv")) as f:
                lines = f.read().split("\n")
            # the writer does not quote: a step name / Params entry may contain commas (a
            # parameter named "a,b" is legal); the name is recognised as the longest node
            # name that prefixes the row, the 9 fields after it contain no comma
            known = sorted((n["name"] for n in o["nodes"]), key=len, reverse=True)
            for ln in lines[1:]:
                name = next((n for n in known if ln.startswith(n + ",")), None)
                if name is None:
                    name = ln.split(",")[0]
                p = ln[len(name) + 1:].split(",")
                if len(p) >= 10:
                    ser["status"].append([name, p[1], p[2], ",".join(p[9:])])
                else:
                    ser["status"].append([ln, "", "", ""])
            for name, sp, rp in calls:
                with open(sp) as f:
                    text = f.read()
                rtext = ""
                if rp:
                    with open(rp) as f:
                        rtext = f.read()
                ser["scripts"].append([name, os.path.basename(sp), text, rtext])
        except Exception as e:            # mutated trees may raise anything
            ser["exc"] = "EXC:%s" % type(e).__name__
        finally:
            ScriptAdapter.write_script = orig
            if cm is not None and saved_sleep is not None:
                cm.sleep = saved_sleep
    return replace_root(ser, root.rstrip("/") or "/")


def replace_root(x, root, placeholder="/R"):
    """the root exactly AS GIVEN -> placeholder, in every string"""
    if isinstance(x, str):
        return x.replace(root, placeholder)
    if isinstance(x, list):
        return [replace_root(v, root, placeholder) for v in x]
    if isinstance(x, dict):
        return {k: replace_root(v, root, placeholder) for k, v in x.items()}
    return x


def make_root(top, variant):
    """the output root of one process, spelled as the variant says"""
    if variant == "@LINK":          # reached through a symbolic link
        tgt = os.path.join(top, "real target", "fs")
        os.makedirs(tgt)
        os.symlink(tgt, os.path.join(top, "lnk"))
        return os.path.join(top, "lnk", "study", "st", "out")
    if variant == "@DOTS":          # ".." and a double slash (no trailing slash: the root string itself
        os.makedirs(os.path.join(top, "dd", "x"))      # is what $(_source.workspace) / OUTPUT_PATH expand to)
        return top + "/dd/x/../y//z/st/out"
    return os.path.join(top, variant, "st", "out")


def worker_main(inp, outp):
    with open(inp) as f:
        d = json.load(f)
    c08.quiet()
    try:
        import maestrowf.datastructures.core.executiongraph as eg
        eg.sleep = lambda *a, **k: None
    except Exception:
        pass
    res = []
    import tempfile
    for i, case in enumerate(d["cases"]):
        top = os.path.join(d["base"], "%d" % i)
        os.makedirs(os.path.join(top, "tmp"), exist_ok=True)
        root = make_root(top, d["variant"])
        tempfile.tempdir = os.path.join(top, "tmp")        # use_tmp: mkdtemp below the case's scratch
        try:
            res.append(expand_once(case, root))
        except Exception as e:
            res.append({"obs": {"ok": False, "err": 3, "exc": type(e).__name__, "msg": str(e)[:200]},
                        "polls": [], "status": [], "scripts": [], "exc": "HARNESS:%s" % type(e).__name__})
        shutil.rmtree(top, ignore_errors=True)
    with open(outp, "w") as f:
        json.dump({"hashseed": os.environ.get("PYTHONHASHSEED"), "res": res}, f)


# ----------------------------------------------------------------------------
# driver side: fan out over processes
# ----------------------------------------------------------------------------
PROBE = """
import json, sys
ties, keysets, res, namesets, setlists = json.loads(sys.argv[1])
out = []
for a, b in ties:
    s = set(); s.add(a); s.add(b)
    out.append(list(set() | s)[0] == a)
for ks in keysets:          # slurmscriptadapter.get_parallelize_command
    order = list(set(dict.fromkeys(ks).keys()) - set(["cmd", "depends", "ntasks", "nodes"]))
    for i, a in enumerate(res):
        for b in res[i + 1:]:
            out.append(order.index(a) < order.index(b) if a in order and b in order else None)
for ns in namesets:         # ExecutionGraph.in_progress: a set filled by add() in submission order
    s = set()
    for x in ns:
        s.add(x)
    out.append(" ".join(str(ns.index(x)) for x in s))
for ls in setlists:         # maestro.run_study: what iterating set(args.pargs) would give
    out.append(" ".join(str(ls.index(x)) for x in set(ls)))
print(json.dumps(out))
"""


def probe_items():
    """what the probe reports, in order: [(label, mandatory)]"""
    items = [("%s/%s" % (a, b), k == 0) for k, (a, b) in enumerate(TIE_PAIRS)]
    for n, ks in enumerate(KEYSETS):
        for i, a in enumerate(RES_KEYS):
            for b in RES_KEYS[i + 1:]:
                items.append(("keyset%d:%s<%s" % (n, a, b), (a, b) == ("cores per task", "gpus")))
    for ns in NAME_SETS:
        items.append(("set{%s}" % ",".join(ns), True))
    for ns in NAME_SETS_OPTIONAL:
        items.append(("set{%s}" % ",".join(ns), False))
    for k, ls in enumerate(PARG_LISTS):
        items.append(("set(%s)" % " ".join(ls), k < 2))
    for ls in QUEUE_LISTS:
        items.append(("set(%s)" % " ".join(ls), True))
    return items


def pick_seeds(n):
    """n PYTHONHASHSEED values, pre-computed in sub-processes: among them the
    two-element set {"temp","TEMP"} is iterated in BOTH orders and the resource
    keys `cores per task` / `gpus` come out of the launcher code's key set in
    both orders (for every key-set variant if possible); beyond that as many
    tie pairs / resource-key pairs as possible are ordered both ways."""
    import itertools
    arg = json.dumps([TIE_PAIRS, KEYSETS, RES_KEYS, NAME_SETS + NAME_SETS_OPTIONAL, PARG_LISTS + QUEUE_LISTS])
    items = probe_items()

    def probe(seed):
        try:
            e = dict(os.environ, PYTHONHASHSEED=seed)
            p = subprocess.run([PY, "-c", PROBE, arg], env=e, stdout=subprocess.PIPE,
                               stderr=subprocess.DEVNULL, timeout=120, text=True)
            return json.loads(p.stdout)
        except Exception:
            return None
    with ThreadPoolExecutor(max_workers=common.NCPU) as ex:
        orders = dict(zip(SEED_CANDIDATES, ex.map(probe, SEED_CANDIDATES)))
    orders = {s: o for s, o in orders.items() if o and len(o) == len(items)}
    cands = [s for s in SEED_CANDIDATES if s in orders]
    if len(cands) < n:
        return (SEEDS_THOROUGH if n >= 4 else SEEDS_QUICK), {"probe": "failed"}

    def both(chosen, only_mandatory=False):
        return [k for k, (_, m) in enumerate(items) if (m or not only_mandatory)
                and len({orders[s][k] for s in chosen} - {None}) >= 2]
    first = cands[0]
    best, best_score = None, None
    for rest in itertools.combinations(cands[1:], n - 1):
        ch = (first,) + rest
        score = (len(both(ch, True)), len(both(ch)), -sum(cands.index(s) for s in ch))
        if best_score is None or score > best_score:
            best, best_score = ch, score
    chosen = list(best)
    mand = [k for k, (_, m) in enumerate(items) if m]
    info = {"mandatory_both_ways": "%d of %d" % (len(both(chosen, True)), len(mand)),
            "mandatory_missing": [items[k][0] for k in mand if k not in both(chosen, True)],
            "pairs_both_ways": "%d of %d" % (len(both(chosen)), len(items)),
            "tie_pairs_both_ways": [items[k][0] for k in both(chosen) if k < len(TIE_PAIRS)]}
    return chosen, info


def processes_for(seeds):
    """(hash seed, root variant) per process: one per seed + the first seed again under another root"""
    ss = list(seeds) + [seeds[0]]
    return [(s, VARIANTS[k % len(VARIANTS)]) for k, s in enumerate(ss)]


def run_processes(cases, procs, tag, chunk=None):
    """procs = [(hash seed, root variant)]; returns per case the list of
    serialisations, one per process (same order)."""
    seeds = [s for s, _ in procs]
    work = os.path.join(common.WORK, "%s-%d" % (tag, os.getpid()))    # concurrent checks do not collide
    shutil.rmtree(work, ignore_errors=True)
    os.makedirs(work)
    n = len(cases)
    if chunk is None:
        per_seed = max(1, common.NCPU // len(seeds))
        chunk = max(1, -(-n // per_seed))
    jobs = []
    for k, seed in enumerate(seeds):
        for j in range(0, n, chunk):
            name = "s%d_c%d" % (k, j)
            inp = os.path.join(work, name + ".in.json")
            outp = os.path.join(work, name + ".out.json")
            with open(inp, "w") as f:
                json.dump({"cases": cases[j:j + chunk], "base": os.path.join(work, name),
                           "variant": procs[k][1]}, f)
            jobs.append((k, seed, j, inp, outp))
    env = dict(os.environ)
    env["PYTHONPATH"] = "%s:%s" % (common.REPO, common.VERIF)
    env["PYTHONDONTWRITEBYTECODE"] = "1"

    def launch(job):
        k, seed, j, inp, outp = job
        e = dict(env)
        e["PYTHONHASHSEED"] = seed
        try:
            p = subprocess.run([PY, "-m", "harness.props.c11", "--worker", inp, outp], env=e,
                               cwd=common.VERIF, stdout=subprocess.PIPE, stderr=subprocess.STDOUT,
                               timeout=1500, text=True, errors="replace")
            return p.returncode, p.stdout[-2000:]
        except subprocess.TimeoutExpired:
            return 124, "worker timed out"
    with ThreadPoolExecutor(max_workers=common.NCPU) as ex:
        rcs = list(ex.map(launch, jobs))
    out = [[None] * len(seeds) for _ in range(n)]
    problems = []
    for (k, seed, j, inp, outp), (rc, txt) in zip(jobs, rcs):
        try:
            with open(outp) as f:
                d = json.load(f)
            assert str(d.get("hashseed")) == seed
            for i, r in enumerate(d["res"]):
                out[j + i][k] = r
        except Exception as e:
            problems.append("worker seed=%s chunk=%d rc=%s: %r %s" % (seed, j, rc, e, txt[-600:]))
    shutil.rmtree(work, ignore_errors=True)
    return out, problems


# ----------------------------------------------------------------------------
# Gallina literals
# ----------------------------------------------------------------------------
g_str, g_strs = c08.g_str, c08.g_strs


def g_text(s):
    if "\n" in s:
        return "(L_ %s)" % g_strs(s.split("\n"))
    return g_str(s)


def g_xobs(x):
    rows = common.g_list(["R_ %s %s %s %s" % tuple(g_str(c) for c in r) for r in x["status"]])
    scripts = common.g_list(["C_ %s %s %s %s" % (g_str(a), g_str(f), g_text(b), g_text(c))
                             for a, f, b, c in x["scripts"]])
    polls = common.g_list([g_strs(p) for p in x["polls"]])
    return "(X_ %s %s %s %s %s)" % (c08.g_obs(x["obs"]), polls, rows, scripts, g_str(x["exc"]))


def g_case(case, sers):
    """identical serialisations are written once (let-bound) -- the usual case"""
    keys, distinct = [], []
    for x in sers:
        k = json.dumps(x, sort_keys=True)
        if k not in distinct:
            distinct.append(k)
        keys.append(distinct.index(k))
    lets = "".join("let x%d := %s in " % (i, g_xobs(json.loads(k))) for i, k in enumerate(distinct))
    return "(%s, %s%s)" % (c08.g_spec(case), lets, common.g_list(["x%d" % i for i in keys]))


# ----------------------------------------------------------------------------
# generators
# ----------------------------------------------------------------------------
def gen_wide(rng):
    """>= 3 parameters, several funnel (`_*`) dependencies, multi-parent steps:
    the sets depends / hub_depends / step_combos[parent] / used_params all have
    several elements, so that their iteration order matters."""
    nsteps = rng.randint(4, 7)
    names = rng.sample(c08.STEP_NAMES, nsteps)
    keys = rng.sample(c08.KEYS_FREE, rng.choice([3, 3, 4, 5]))
    nrows = rng.randint(2, 4)
    params = []
    for k in keys:
        vals = c08.gen_values(rng, nrows)
        params.append({"key": k, "name": rng.choice([None, None, k.lower() + "_nm"]),
                       "values": vals, "label": c08.gen_label(rng, k, vals)})
    nleaf = rng.randint(2, 3)
    dep_idx, steps = [], []
    for k in range(nsteps):
        deps, idx = [], []
        if k >= nleaf or (k > 0 and rng.random() < 0.2):
            cand = list(range(k))
            rng.shuffle(cand)
            take = cand[:rng.randint(min(2, k), min(4, k))]
            hubs = 0
            for j in take:
                idx.append(j)
                if rng.random() < 0.5:
                    deps.append(names[j] + rng.choice(["_*", "_*", "*"]))
                    hubs += 1
                else:
                    deps.append(names[j])
        dep_idx.append(idx)
        anc = [names[j] for j in c08.ancestors(dep_idx, k)]
        use = [x for x in keys if rng.random() < (0.55 if k < nleaf else 0.25)]
        if k < nleaf and len(use) < 2:
            use = rng.sample(keys, 2)
        cmd = c08.gen_text(rng, use, keys, anc, p_tok=0.3, p_ws=0.4)
        cmd += " " + " ".join(rng.choice(["$(%s)", "$(%s.label)", "$(%s)"]) % u for u in use)
        run = {"cmd": cmd}
        if deps:
            run["depends"] = deps
        if rng.random() < 0.4:
            run["restart"] = c08.gen_text(rng, use, keys, anc, p_tok=0.3)
        if rng.random() < 0.3:
            run[rng.choice(["nodes", "procs", "walltime"])] = rng.choice(["$(%s)" % rng.choice(keys), 2, "00:10:00"])
        steps.append({"name": names[k], "description": rng.choice(["step", "wide"]), "run": run})
    return {"rlimit": rng.choice([0, 2]), "params": params, "steps": steps, "stream": "wide"}


def load_corpus():
    return c08.load_corpus(PID)


def clean(case):
    return {k: v for k, v in case.items() if k not in ("corpus_file",)}


def max_parents(x):
    o = x["obs"]
    return max([len(n["deps"]) for n in o["nodes"]] + [0]) if o.get("ok") else 0


def max_params(x):
    o = x["obs"]
    return max([len(n.get("params", [])) for n in o["nodes"]] + [0]) if o.get("ok") else 0


def first_diff(a, b, path=""):
    """a short description of where two serialisations differ"""
    if type(a) != type(b):
        return "%s: %r vs %r" % (path, a, b)
    if isinstance(a, dict):
        for k in sorted(set(a) | set(b)):
            if a.get(k) != b.get(k):
                return first_diff(a.get(k), b.get(k), path + "/" + str(k))
    if isinstance(a, list):
        if len(a) != len(b):
            return "%s: lengths %d vs %d: %s vs %s" % (path, len(a), len(b), json.dumps(a)[:300], json.dumps(b)[:300])
        for i, (u, v) in enumerate(zip(a, b)):
            if u != v:
                return first_diff(u, v, path + "/%d" % i)
    return "%s: %s vs %s" % (path, json.dumps(a)[:300], json.dumps(b)[:300])


def cross_diff(sers, procs):
    """(k, where) for the first process k that disagrees with process 0"""
    order = list(range(1, len(sers)))
    # a process with the SAME hash seed (another root) first: then the root alone is the cause
    order.sort(key=lambda k: procs[k][0] != procs[0][0])
    for k in order:
        if sers[k] != sers[0]:
            return k, first_diff(sers[0], sers[k])
    return None


def gen_ties(rng):
    """two parameters whose names are equal under a plausible normalisation
    (case / underscores / digit suffix), used TOGETHER in one step and inherited
    by its dependants: any ordering of the used-parameter set that does not
    separate them leaves their order to set iteration."""
    a, b = rng.choice(TIE_PAIRS[:5] if rng.random() < 0.7 else TIE_PAIRS)
    if rng.random() < 0.5:
        a, b = b, a
    free = [k for k in c08.KEYS_FREE if k.lower().strip("_") not in (a.lower().strip("_"), b.lower().strip("_"))]
    keys = [a, b] + ([rng.choice(free)] if rng.random() < 0.4 else [])
    rng.shuffle(keys)
    nrows = rng.randint(2, 3)
    params = []
    for k in keys:
        vals = c08.gen_values(rng, nrows)
        params.append({"key": k, "name": None, "values": vals,
                       "label": rng.choice(["%s.%%%%" % k, "%s.%%%%" % k, None, k + "%%"])})
    nsteps = rng.randint(2, 4)
    names = rng.sample(c08.STEP_NAMES, nsteps)
    steps = []
    for k in range(nsteps):
        if k == 0:
            use = [a, b]
        else:
            use = [x for x in keys if rng.random() < 0.4]
        toks = " ".join(rng.choice(["$(%s)", "$(%s.label)"]) % u for u in use)
        run = {"cmd": "echo %s %s" % (rng.choice(["run", "x=1", "data"]), toks)}
        if k > 0:
            par = rng.sample(range(k), rng.randint(1, min(2, k)))
            deps = [names[j] + (rng.choice(["_*", "*"]) if rng.random() < 0.35 else "") for j in par]
            run["depends"] = deps
            if rng.random() < 0.4:
                j = par[0]
                run["cmd"] += " $(%s.workspace)/o" % names[j]
        if rng.random() < 0.3:
            run["restart"] = "again %s" % toks
        steps.append({"name": names[k], "description": "ties", "run": run})
    return {"rlimit": rng.choice([0, 1]), "params": params, "steps": steps, "stream": "ties"}


def gen_sched(rng):
    """a wide / ties / valid specification whose steps declare nodes/procs and
    several optional resource keys around $(LAUNCHER), dry-run with a scheduler
    batch block: the script texts carry headers and launcher command lines"""
    r = rng.random()
    if r < 0.4:
        return gen_long(rng)
    r = rng.random()
    case = gen_wide(rng) if r < 0.5 else (gen_ties(rng) if r < 0.7 else c08.gen_case(rng, "valid"))
    case["stream"] = "sched"
    case["adapter"] = rng.choice(["slurm", "slurm", "slurm", "lsf", "lsf", "flux"])
    for st in case["steps"]:
        run = st["run"]
        for k in ("nodes", "procs", "walltime", "cores per task", "gpus", "reservation"):
            run.pop(k, None)                      # C08's generator may have put tokens there
        if rng.random() < 0.85:
            run["nodes"] = rng.choice([1, 2])
            run["procs"] = rng.choice([2, 4, 8])
            for k, vals in (("cores per task", [2, 4]), ("gpus", [1, 2]), ("walltime", ["00:10:00", 30]),
                            ("reservation", ["res1"]), ("exclusive", [True]), ("qos", ["high"]),
                            ("rs per node", [1, 2]), ("bind", ["rs"])):
                if rng.random() < (0.7 if k in ("cores per task", "gpus") else 0.35):
                    run[k] = rng.choice(vals)
            run["cmd"] = "$(LAUNCHER) " + run["cmd"]
            if run.get("restart") and rng.random() < 0.5:
                run["restart"] = "$(LAUNCHER) " + run["restart"]
    return case


def gen_env(rng):
    """an environment with a chain (or a diamond) of 2-5 variables/labels that
    refer to each other, declared outermost first / innermost first / shuffled,
    in the `variables` or the `labels` block; steps use the outermost and inner
    ones in cmd / restart.  (Sequential passes may leave inner tokens unresolved
    depending on the DECLARATION order: deterministic; only a difference between
    processes counts.)"""
    r = rng.random()
    case = gen_wide(rng) if r < 0.3 else (c08.gen_case(rng, "valid") if r < 0.6 else gen_ties(rng))
    case["stream"] = "env"
    names = list(rng.choice([ENV_NAMES, ENV_NAMES2]))
    if rng.random() < 0.2:                    # a diamond: D -> B, C -> A
        ents = [["A_DIR", "/opt/a"], ["B_DIR", "$(A_DIR)/b"], ["C_DIR", "$(A_DIR)/c"],
                ["D_PATH", "$(B_DIR):$(C_DIR)"]]
        if rng.random() < 0.5:
            ents.append(["E_CMD", "$(D_PATH)/run --lib $(B_DIR)"])
    else:
        n = rng.randint(2, 5)
        ents = [[names[0], rng.choice(["/opt/proj", "/usr/local", "$(OUTPUT_PATH)/sw"])]]
        for k in range(1, n):
            ents.append([names[k], "$(%s)/%s" % (names[k - 1], names[k].lower())])
    used = [e[0] for e in ents]
    order = rng.choice(["outermost-first", "innermost-first", "shuffled"])
    if order == "outermost-first":
        ents.reverse()
    elif order == "shuffled":
        rng.shuffle(ents)
    block = rng.choice(["variables", "labels", "mixed"])
    case["env"] = [[(rng.choice(["variables", "labels"]) if block == "mixed" else block), a, b] for a, b in ents]
    case["env_order"] = order
    for k, st in enumerate(case["steps"]):
        run = st["run"]
        if k == 0 or rng.random() < 0.6:
            run["cmd"] = "$(%s) %s" % (used[-1], run["cmd"])
            if rng.random() < 0.5:
                run["cmd"] += " --with $(%s)" % rng.choice(used)
        if run.get("restart") or rng.random() < 0.3:
            run["restart"] = "$(%s) --resume %s" % (rng.choice(used[-2:]), run.get("restart") or "")
    return case


LONG_KEYS = ["RESOLUTION_LEVEL", "TIME_STEP_SIZE", "MATERIAL_MODEL", "BOUNDARY_KIND", "SOLVER_TOLERANCE",
             "MESH_REFINEMENT", "OUTPUT_FREQUENCY", "RANDOM_SEED_ID", "COUPLING_SCHEME"]
LONG_STEPS = ["simulate-the-coupled-problem", "assemble_and_factorise.stage-2", "post-process-and-reduce", "run"]
ODD_STEPS = ["7", "0123", "1e5", "x", "Z", "schritt-\u00fc", "\u00e9tape_2", "-", "3.14"]


def gen_long(rng, adapter=None, target=None):
    """scheduled steps whose expanded instance names are LONG (just over 64 / 128
    characters, near the 255-byte file-name limit): ~8 parameters with
    descriptive labels, long step names, never --hashws; plus steps with
    numeric-looking, non-ASCII and single-character names.  Script texts (job
    name / output / error header lines, launcher lines) are compared across
    processes only."""
    target = target or rng.choice([rng.randint(66, 100), rng.randint(129, 150), rng.randint(129, 200),
                                   rng.randint(200, 236), 236])
    step = rng.choice(LONG_STEPS)
    keys = rng.sample(LONG_KEYS, rng.randint(6, 9))
    nrows = 2
    params = [{"key": k, "name": None, "values": [rng.choice([1, 2, 10]), rng.choice([3, 4, 20])][:nrows],
               "label": "%s.%%%%" % k} for k in keys]

    def name_len(ps):
        labs = [p["label"].replace("%%", str(max(p["values"], key=lambda v: len(str(v))))) for p in ps]
        return len(step) + 1 + len(".".join(labs))
    while len(params) > 1 and name_len(params) > target:
        params.pop()
    pad = target - name_len(params)
    if pad > 0:
        params[-1]["label"] = "%s.%%%%%s" % (params[-1]["key"], "-padding"[:1] + "x" * (pad - 1))
    toks = " ".join("$(%s)" % p["key"] for p in params)
    steps = [{"name": step, "description": "long instance names",
              "run": {"cmd": "$(LAUNCHER) solver %s" % toks, "nodes": rng.choice([1, 2]), "procs": rng.choice([2, 4]),
                      "cores per task": 2, "gpus": 1, "walltime": "00:10:00"}},
             {"name": "post", "description": "inherits the long combination",
              "run": {"cmd": "$(LAUNCHER) reduce $(%s.workspace)/o" % step, "depends": [step], "nodes": 1, "procs": 1}}]
    for odd in rng.sample(ODD_STEPS, rng.randint(1, 3)):
        run = {"cmd": "$(LAUNCHER) echo $(%s)" % params[0]["key"] if rng.random() < 0.5 else "$(LAUNCHER) true",
               "nodes": 1, "procs": rng.choice([1, 2])}
        if rng.random() < 0.5:
            run["depends"] = [rng.choice([step, step + "_*"])]
        steps.append({"name": odd, "description": "boundary name", "run": run})
    return {"rlimit": 0, "params": params, "steps": steps, "stream": "sched", "long_target": target,
            "adapter": adapter or rng.choice(["slurm", "slurm", "lsf", "flux"])}


# ----------------------------------------------------------------------------
# the real-CLI mode: real `maestro run -fg -y` child processes (harness/e2e_launcher.py only
# stubs time.sleep) under different PYTHONHASHSEED values and different output roots,
# observed from the outside
# ----------------------------------------------------------------------------
PGEN_TEXT = """from maestrowf.datastructures.core import ParameterGenerator


def get_custom_generator(env, **kwargs):
    count = int(kwargs.get("COUNT", "1"))
    step = int(kwargs.get("STEP", "10"))
    vals = [step * (i + 1) for i in range(count)]
    if kwargs.get("LIST"):
        vals = kwargs["LIST"].split(",")
    p_gen = ParameterGenerator()
    p_gen.add_parameter("SIZE", vals, "SIZE.%%")
    if "TAG" in kwargs:
        p_gen.add_parameter("TAG", [kwargs["TAG"]] * len(vals), "TAG.%%")
    return p_gen
"""
STATE_NAMES = ["INITIALIZED", "PENDING", "WAITING", "RUNNING", "FINISHING", "FINISHED", "QUEUED", "FAILED",
               "INCOMPLETE", "HWFAILURE", "TIMEDOUT", "UNKNOWN", "CANCELLED", "NOTFOUND", "DRYRUN"]


def gen_cli(rng, k):
    """one command line: a three-step study (sim per combination, post per
    combination, a funnel), parameters from a custom generator (--pgen + a
    --pargs list with repeated keys) or from global.parameters; dry run, or a
    REAL run with the local adapter (commands that never mention a path; one
    step may fail) under output roots with shell metacharacters."""
    real = rng.random() < 0.5
    pgen = rng.random() < (0.6 if not real else 0.4)
    c = {"stream": "cli", "rlimit": 0, "params": [], "steps": [],
         "cli": {"dry": not real, "pgen": pgen, "pargs": list(rng.choice(PARG_LISTS)) if pgen else [],
                 "hashws": (not real) and rng.random() < 0.25,
                 "fail": real and rng.random() < 0.4,
                 "tag": pgen and rng.random() < 0.5}}
    roots = CLI_ROOTS[1:]
    off = rng.randrange(len(roots))
    c["cli"]["roots"] = ["plain"] + [roots[(off + j) % len(roots)] for j in range(5)]
    sp = SPELLINGS[1:]
    rng.shuffle(sp)
    c["cli"]["spell"] = ["abs"] + sp          # process 0: an absolute -o; the others: some other spelling
    c["cli"]["refs"] = True                   # the specification mentions $(OUTPUT_PATH) and $(SPECROOT)
    return c


# how the SAME output root <d>/<variant>/st/out (and the specification) is spelled on the command line
SPELLINGS = ["abs", "rel", "dot", "slash", "parent", "linkcwd"]


def spell(d, variant, how):
    """-> (-o argument, specification argument, cwd)"""
    rel = os.path.join(variant, "st", "out")
    if how == "rel":
        return rel, "spec.yaml", d
    if how == "dot":
        return "./" + rel, "./spec.yaml", d
    if how == "slash":
        return rel + "/", "spec.yaml", d
    if how == "parent":
        cw = os.path.join(d, "cw", "x")
        os.makedirs(cw, exist_ok=True)
        return os.path.join("..", "..", rel), os.path.join("..", "..", "spec.yaml"), cw
    if how == "linkcwd":        # a relative -o from a cwd that was entered through a symbolic link
        lk = os.path.join(os.path.dirname(d), os.path.basename(d) + ".lnk")
        if not os.path.lexists(lk):
            os.symlink(d, lk)
        return rel, "spec.yaml", lk
    return os.path.join(d, rel), os.path.join(d, "spec.yaml"), d


def cli_spec_text(case):
    import yaml
    o = case["cli"]
    tag = " $(TAG)" if o.get("tag") and any(a.startswith("TAG:") for a in o["pargs"]) else ""
    if o["dry"]:
        sim = 'echo "simulate $(SIZE)%s" > $(WORKSPACE)/sim.out' % tag
        post = "cat $(sim.workspace)/sim.out > post.out"
        rep = "ls $(post.workspace) > report.txt"
    else:                       # executed: nothing that depends on how a path is spelled
        sim = 'echo "simulate $(SIZE)%s" > sim.out' % tag
        post = ("exit 3" if o.get("fail") else "echo post $(SIZE) > post.out")
        rep = "echo done > report.txt"
    env = None
    if o.get("refs"):
        if o["dry"]:
            sim += " ; cp $(SHARED)/in.dat $(OUTPUT_PATH)/all ; $(TOOLS)/prep $(SPECROOT)/data"
            rep += " ; tar cf $(OUTPUT_PATH)/../bundle.tar $(OUTPUT_PATH) $(ARCHIVE)"
            env = {"variables": {"SHARED": "$(OUTPUT_PATH)/shared", "PLAIN": "7"},
                   "labels": {"TOOLS": "$(SPECROOT)/tools", "ARCHIVE": "$(SHARED)/archive-$(PLAIN)"}}
        else:                   # executed: the references stay in comments
            sim += "\n# inputs: $(SPECROOT)/data -> $(OUTPUT_PATH)/all"
            rep += "\n# bundle of $(OUTPUT_PATH)"
    doc = {"description": {"name": "sweep", "description": "C11 command-line repeatability"},
           "study": [{"name": "sim", "description": "one size", "run": {"cmd": sim}},
                     {"name": "post", "description": "post-process one size", "run": {"cmd": post, "depends": ["sim"]}},
                     {"name": "side", "description": "independent", "run": {"cmd": "echo side > side.out"}},
                     {"name": "report", "description": "gather", "run": {"cmd": rep, "depends": ["post_*", "side"]}}]}
    if env:
        doc["env"] = env
        doc["study"][0]["run"]["restart"] = "resume --from $(OUTPUT_PATH)/checkpoints --tools $(TOOLS)"
    if not o["pgen"]:
        doc["global.parameters"] = {"SIZE": {"values": [10, 20, 30], "label": "SIZE.%%"},
                                    "ITER": {"values": [1, 2, 3], "label": "ITER.%%"}}
        doc["study"][0]["run"]["cmd"] += " # $(ITER)"
    return yaml.safe_dump(doc, sort_keys=False)


def parse_status_rows(text):
    """[name, workspace, state, params] per row; the writer does not quote and a
    name / Params entry may contain commas: the row is cut at the state column"""
    import re
    pat = re.compile(r"^(.*?),([^,]*),([^,]*),(%s),[^,]*,[^,]*,[^,]*,[^,]*,[^,]*,[^,]*,(.*)$" % "|".join(STATE_NAMES))
    rows = []
    for ln in text.split("\n")[1:]:
        m = pat.match(ln)
        rows.append([m.group(1), m.group(3), m.group(4), m.group(5)] if m else [ln, "", "", ""])
    return rows


def cli_once(job):
    """one `maestro run` child process; the expansion and the outcome as seen from outside"""
    from harness import e2e
    case, seed, variant, d, how = job
    o = case["cli"]
    os.makedirs(d, exist_ok=True)
    with open(os.path.join(d, "spec.yaml"), "w") as f:
        f.write(cli_spec_text(case))
    root = os.path.join(d, variant, "st", "out")
    os.makedirs(os.path.dirname(root), exist_ok=True)
    oarg, spec, cwd = spell(d, variant, how)
    argv = ["run", "-fg", "-y", "-s", "1", "--attempts", "1", "-o", oarg]
    if o["dry"]:
        argv.append("--dry")
    if o.get("hashws"):
        argv.append("--hashws")
    if o["pgen"]:
        pg = os.path.join(d, "pgen.py")
        with open(pg, "w") as f:
            f.write(PGEN_TEXT)
        argv += ["--pgen", pg]
        for a in o["pargs"]:
            argv += ["--pargs", a]
    argv.append(spec)
    rc, out = e2e.launch("maestro", argv, cwd, {"PYTHONHASHSEED": seed, "E2E_POLL_SLEEP": "1", "E2E_MAX_POLLS": "60"},
                         timeout=240)
    ser = {"obs": {"ok": False, "err": 7}, "polls": [], "status": [], "scripts": [], "exc": "rc=%d" % rc}
    try:
        dirs, scripts = [], []
        for dp, dn, fn in os.walk(root):
            dn.sort()
            rel = os.path.relpath(dp, root)
            if rel != "." and rel.split(os.sep)[0] not in ("logs", "meta"):
                dirs.append(rel)
            for f in sorted(fn):
                if f.endswith(".sh"):
                    with open(os.path.join(dp, f), errors="replace") as h:
                        scripts.append([os.path.join(rel, f), f, h.read(), ""])
        ser["polls"] = [sorted(dirs)]
        ser["scripts"] = sorted(scripts)
        sp = os.path.join(root, "status.csv")
        if os.path.exists(sp):
            with open(sp, errors="replace") as h:
                ser["status"] = parse_status_rows(h.read())
        else:
            ser["exc"] += " no-status.csv"
    except Exception as e:
        ser["exc"] += " OBS:%s" % type(e).__name__
    if rc not in (0, 2, 3):
        ser["exc"] += " | " + " ".join(out.replace(root, "/R").split())[-300:]
    shutil.rmtree(os.path.join(d, variant), ignore_errors=True)
    # modulo the ABSOLUTE root (and the absolute directory of the specification = $(SPECROOT))
    return replace_root(replace_root(ser, root), d, "/S")


def run_cli(cases, procs, tag):
    """every CLI case in one child process per (hash seed, root); returns per case
    the serialisations and the (seed, root) pairs used"""
    from harness import e2e
    work = os.path.join(common.WORK, "%s-%d" % (tag, os.getpid()))
    shutil.rmtree(work, ignore_errors=True)
    jobs, plist = [], []
    for i, case in enumerate(cases):
        roots = case["cli"].get("roots") or CLI_ROOTS
        sp = case["cli"].get("spell") or ["abs"]
        pp = [(s, roots[k % len(roots)] + " [-o:" + sp[k % len(sp)] + "]") for k, (s, _) in enumerate(procs)]
        plist.append(pp)
        for k, (s, _) in enumerate(procs):
            jobs.append((case, s, roots[k % len(roots)], os.path.join(work, "c%d" % i, "p%d" % k), sp[k % len(sp)]))
    res = e2e.pmap(cli_once, jobs)
    out, n = [], 0
    for pp in plist:
        out.append(res[n:n + len(pp)])
        n += len(pp)
    shutil.rmtree(work, ignore_errors=True)
    return out, plist


def cross_only(case):
    """cases the Gallina model does not describe: processes against each other only"""
    return bool(case.get("hashws")) or bool(case.get("real")) or bool(case.get("env")) or bool(case.get("cli")) \
        or (case.get("adapter") or "local") != "local"


def case_key(case):
    return json.dumps({k: case.get(k) for k in ("rlimit", "params", "steps", "hashws", "usetmp", "adapter", "via", "real", "faults", "env", "cli", "throttle", "attempts", "refuse")},
                      sort_keys=True, default=str)


def _degenerate(case):
    """A label (or step name) that make_safe_path reduces to nothing but dots or to the empty string gives a directory
    component "", "." or "..": the workspace of such an instance is another instance's or the step's own directory.
    That is C10's known finding K1c; C11's observables (relative workspaces, script locations) are not defined there,
    so such generated cases are left to C10 (found by thorough seed 4 once C08's generator drew label tokens other
    than "%%": label "%%.%%" with token "+" stays "%%.%%" and sanitises to ".")."""
    import string
    valid = set("-_.() " + string.ascii_letters + string.digits)

    def san(x):
        return "".join(ch for ch in str(x) if ch in valid).replace(" ", "_")
    tok = case.get("ltoken") or "%%"
    comps = [st["name"] for st in case.get("steps", [])]
    for p in case.get("params", []):
        lab = p.get("label")
        for i, v in enumerate(p.get("values", [])):
            if isinstance(lab, list):
                comps.append(lab[i] if i < len(lab) else "")
            elif lab is None:
                comps.append("%s.%s" % (p.get("key"), v))
            else:
                comps.append(str(lab).replace(tok, str(v)))
    return any(set(san(c)) <= {"."} for c in comps)


def generate(rng, tier):
    quick = tier != "thorough"
    n_tiny, n_valid, n_prefix, n_exotic, n_wide, n_ties, n_sched, n_env = \
        (8, 18, 6, 10, 26, 18, 24, 24) if quick else (100, 260, 70, 110, 340, 140, 200, 200)
    cases = load_corpus()
    tiny = c08.tiny_cases()
    rng.shuffle(tiny)
    cases += tiny[:n_tiny]
    gen = [c08.gen_case(rng, "valid") for _ in range(n_valid)]
    gen += [c08.gen_case(rng, "prefix") for _ in range(n_prefix)]
    gen += [c08.gen_case(rng, "exotic") for _ in range(n_exotic)]
    gen += [gen_wide(rng) for _ in range(n_wide)]
    gen += [gen_ties(rng) for _ in range(n_ties)]
    gen += [gen_sched(rng) for _ in range(n_sched)]
    gen += [gen_env(rng) for _ in range(n_env)]
    gen = [c for c in gen if not _degenerate(c)]
    for c in gen:                      # the flags: --hashws / --usetmp / through the Conductor / real run
        r = rng.random()
        if r < 0.25 and not c.get("long_target"):
            c["hashws"] = True
        if rng.random() < 0.15:
            c["usetmp"] = True
        if rng.random() < 0.35:
            c["via"] = "conductor"
        if c["stream"] != "sched" and rng.random() < 0.3:
            c["real"] = True
            c["faults"] = rng.choice([None, "hw", "hw", "timeout", "timeout", "mixed", "mixed"])
            if c["faults"] in ("timeout", "mixed") and rng.random() < 0.7:
                c["rlimit"] = max(1, c["rlimit"])          # restarts are possible
                for st in c["steps"]:
                    if rng.random() < 0.7 and not st["run"].get("restart"):
                        st["run"]["restart"] = "echo again"
            if rng.random() < 0.35:        # a throttle, and a scheduler that refuses some instances for all attempts
                c["throttle"] = rng.choice([1, 1, 2, 3])
                c["attempts"] = rng.choice([1, 2])
                c["refuse"] = "crc"
    n_cli = 14 if quick else 60
    return cases + gen + [gen_cli(rng, k) for k in range(n_cli)]


def _coq(ck, tag, fn, lits):
    ty = "spec * list xobs"
    # small shards: a 400-case shard of wide specifications needs > 3 GB and minutes in coqc
    shard = 32 if len(lits) <= 200 else 100
    bad, errs = common.coq_failing(tag, HEADER, ty, fn, lits, shard=shard)
    if errs and all(not e[1].strip() or "timed out" in e[1] for e in errs):
        # coqc died without saying anything (killed under memory pressure / timed out on a
        # loaded machine): an infrastructure failure, not a verdict -- once more, smaller
        ck.notes["coqc_retry"] = [os.path.basename(e[0]) for e in errs]
        bad, errs = common.coq_failing(tag, HEADER, ty, fn, lits, shard=max(8, shard // 2))
    return bad, errs


def evaluate(ck, cases, procs, tag="C11"):
    """-> (sers, verdicts, detail, problems, errs)"""
    lib = [i for i, c in enumerate(cases) if not c.get("cli")]
    cli = [i for i, c in enumerate(cases) if c.get("cli")]
    sers = [None] * len(cases)
    procs_of = [procs] * len(cases)
    problems = []
    if lib:
        s1, problems = run_processes([cases[i] for i in lib], procs, "run-" + tag.lower())
        for i, s in zip(lib, s1):
            sers[i] = s
    if cli:
        s2, pl = run_cli([cases[i] for i in cli], procs, "run-" + tag.lower() + "-cli")
        for i, s, pp in zip(cli, s2, pl):
            sers[i], procs_of[i] = s, pp
    verdicts = ["ok"] * len(cases)
    detail = {}
    lits, idx, hlits, hidx = [], [], [], []
    for i, (case, ss) in enumerate(zip(cases, sers)):
        if any(s is None for s in ss):
            verdicts[i] = "lost"
        elif cross_only(case):         # hash_ws / scheduler scripts: processes against each other only
            hidx.append(i)
            hlits.append(g_case(case, ss))
        else:
            idx.append(i)
            lits.append(g_case(case, ss))
    ty = "spec * list xobs"
    bad, errs = _coq(ck, tag, "c11_case", lits) if lits else ([], [])
    if bad:
        sub = [lits[j] for j in bad]
        bad_mon, e1 = common.coq_failing(tag + "_mon", HEADER, ty, "c11_monitor", sub, shard=100)
        bad_agr, e2 = common.coq_failing(tag + "_agree", HEADER, ty, "c11_agree", sub, shard=100)
        errs = errs + e1 + e2
        for jj, j in enumerate(bad):
            i = idx[j]
            verdicts[i] = "violation" if jj in bad_mon else "mismatch"
            detail[i] = {"monitor_false": jj in bad_mon, "model_differs": jj in bad_agr}
    if hlits:
        hbad, e3 = _coq(ck, tag + "_h", "c11_monitor", hlits)
        errs = errs + e3
        for j in hbad:
            verdicts[hidx[j]] = "violation"
            detail[hidx[j]] = {"monitor_false": True, "cross_process_only": True}
    # the Python-side comparison of the complete serialisations must tell the same story
    for i in idx + hidx:
        pr = procs_of[i]
        d = cross_diff(sers[i], pr)
        if d is not None and known_dollar_root(cases[i], sers[i], pr):
            verdicts[i] = "known"
            detail[i] = {"known": "K-C11-dollar-root", "where": d[1], "processes": [list(x) for x in pr]}
            continue
        if d is not None:
            k, where = d
            detail.setdefault(i, {})["diff"] = {
                "process_a": {"hashseed": pr[0][0], "root_variant": pr[0][1]},
                "process_b": {"hashseed": pr[k][0], "root_variant": pr[k][1]},
                "same_hashseed": pr[0][0] == pr[k][0], "where": where}
            detail[i]["processes"] = [list(x) for x in pr]
            verdicts[i] = "violation"
    return sers, verdicts, detail, problems, errs


def known_dollar_root(case, ss, pr):
    """signature of the known finding K-C11-dollar-root: an output root that contains '$' is
    classified as a LABEL by StudyEnvironment.add (its value 'contains a token'), so it is applied
    in the label pass, BEFORE the substitutions; a variable whose value mentions $(OUTPUT_PATH)
    then leaves that token unresolved.  Only: a CLI case whose specification has such a variable,
    every process that differs from the first has '$' in its root, all others agree, and the
    differing text still shows the token."""
    if not (case.get("cli") and case["cli"].get("refs") and case["cli"].get("dry")):
        return False
    differing = [k for k in range(1, len(ss)) if ss[k] != ss[0]]
    if not differing or "$" in pr[0][1]:
        return False
    return all("$" in pr[k][1] and "$(OUTPUT_PATH)" in json.dumps(ss[k]) for k in differing) \
        and "$(OUTPUT_PATH)" not in json.dumps(ss[0])


def model_text(case):
    try:
        return common.coq_eval("C11_dbg", HEADER, "c11_model pi_id %s" % c08.g_spec(case))[-6000:]
    except Exception as e:
        return repr(e)


def violation_what(det):
    d = (det or {}).get("diff")
    if not d:
        return "two expansions of the same specification differ: C11_ok is false"
    a, b = d["process_a"], d["process_b"]
    return ("two expansions of the same specification differ (PYTHONHASHSEED %s root .../%s/st/out vs "
            "PYTHONHASHSEED %s root .../%s/st/out): %s"
            % (a["hashseed"], a["root_variant"], b["hashseed"], b["root_variant"], d["where"]))


def violation_record(case, procs, det):
    return {"case": clean(case), "processes": (det or {}).get("processes") or [list(p) for p in procs],
            "diff": (det or {}).get("diff")}


def run(ck):
    ck.build_proofs()
    rng = random.Random(ck.seed)
    seeds, seed_info = pick_seeds(3 if ck.tier != "thorough" else 4)
    procs = processes_for(seeds)
    cases = generate(rng, ck.tier)
    sers, verdicts, detail, problems, errs = evaluate(ck, cases, procs)
    hist = {"streams": {}, "flags": {}, "nodes": {}, "max_parents": {}, "max_record_params": {}, "errors": {},
            "polls": {}}
    for i, (case, ss) in enumerate(zip(cases, sers)):
        x = ss[0] or {"obs": {"ok": False, "err": 9}, "polls": []}
        o = x["obs"]
        mp = max_parents(x)
        ck.count(case_key(case), nontrivial=(bool(o.get("ok")) and (mp >= 2 or max_params(x) >= 2))
                 or (bool(case.get("cli")) and len(x.get("status", [])) >= 3))
        hist["streams"][case["stream"]] = hist["streams"].get(case["stream"], 0) + 1
        fl = "hashws=%d,usetmp=%d,adapter=%s,via=%s,run=%s" % (
            bool(case.get("hashws")), bool(case.get("usetmp")), case.get("adapter") or "local",
            case.get("via") or "direct", ("real/" + str(case.get("faults"))) if case.get("real") else "dry")
        hist["flags"][fl] = hist["flags"].get(fl, 0) + 1
        if case.get("cli"):
            cl = case["cli"]
            kk = "cli:%s,%s,pargs=%d%s%s" % ("dry" if cl["dry"] else "real-local", "pgen" if cl["pgen"] else "global.parameters",
                                             len(cl["pargs"]), ",hashws" if cl.get("hashws") else "",
                                             ",failing-step" if cl.get("fail") else "")
            hist.setdefault("cli", {})[kk] = hist.setdefault("cli", {}).get(kk, 0) + 1
            hist.setdefault("cli_exit", {})[x.get("exc", "")[:12]] = hist.setdefault("cli_exit", {}).get(x.get("exc", "")[:12], 0) + 1
        elif o.get("ok"):
            b = min(len(o["nodes"]) - 1, 16)
            hist["nodes"][b] = hist["nodes"].get(b, 0) + 1
            hist["max_parents"][min(mp, 8)] = hist["max_parents"].get(min(mp, 8), 0) + 1
            q = min(max_params(x), 6)
            hist["max_record_params"][q] = hist["max_record_params"].get(q, 0) + 1
            hist["polls"][len(x["polls"])] = hist["polls"].get(len(x["polls"]), 0) + 1
        else:
            k = "%s:%s" % (o.get("err"), o.get("exc"))
            hist["errors"][k] = hist["errors"].get(k, 0) + 1
        if case["stream"] in ("wide", "ties", "env") and o.get("ok"):
            ck.sample({"case": clean(case), "impl_first_process": {"polls": x["polls"], "status": x["status"][:6],
                                                                   "names": [n["name"] for n in o["nodes"]]}}, limit=3)
        v = verdicts[i]
        if v == "known":
            ck.known_hit("K-C11-dollar-root", "an output root containing '$' is treated as a label: a variable whose value "
                         "mentions $(OUTPUT_PATH) keeps the token unresolved in the scripts (witness "
                         "corpus/C11/known_dollar_root_output_path.json)")
        elif v == "violation":
            ck.violation(violation_what(detail.get(i)), violation_record(case, procs, detail.get(i)))
        elif v == "mismatch":
            ck.mismatch("model and implementation disagree: %s" % json.dumps(detail.get(i)), clean(case),
                        model_text(case) + "\nIMPL: " + json.dumps(ss[0])[:6000])
        elif v == "lost":
            ck.mismatch("a worker process returned no result for this case", clean(case), "")
    for p in problems:
        ck.mismatch("worker process failed", None, p)
    for e in errs:
        ck.mismatch("coqc failed on cases file", None, e[1])
    ck.notes["processes"] = [{"hashseed": s, "root_variant": v} for s, v in procs]
    ck.notes["hashseed_selection"] = seed_info
    ck.cov["rule"] = ("corpus + a sample of C08's exhaustive tiny scope + C08's seeded streams valid/prefix/exotic + the "
                      "'wide' stream (4-7 steps, 3-5 parameters x 2-4 rows, steps with 2-4 parents mixing ordinary and "
                      "funnel dependencies, workspace references to ancestors) + the 'ties' stream (two parameters whose "
                      "names are equal up to case / underscores / digit suffix, e.g. temp/TEMP, used together in one step); "
                      "+ the 'sched' stream (slurm/lsf/flux batch block, steps with nodes/procs and optional resource keys "
                      "cores per task/gpus/walltime/reservation/exclusive/qos/... around $(LAUNCHER): script texts with "
                      "scheduler headers and launcher command lines, compared across processes only; 40%% of them have LONG "
                      "instance names -- just over 64 / 128 characters and up to 236, near the 255-byte file-name limit: "
                      "6-9 parameters with descriptive labels, long step names, never --hashws -- plus steps with "
                      "numeric-looking, non-ASCII and single-character names, for every batch type); "
                      "+ the 'env' stream (environments with chains / a diamond of 2-5 variables/labels referring to each "
                      "other, declared outermost first / innermost first / shuffled in the variables / labels blocks, used in "
                      "cmd and restart; the Expand model has no environment: compared across processes only); "
                      "+ the 'cli' stream: REAL `maestro run -fg -y` child processes (only time.sleep stubbed) under the same "
                      "hash seeds and output roots with blanks, parentheses, &, ;, $, quotes, *, ?, backslash, back-ticks: "
                      "--pgen with --pargs lists holding repeated keys with different values, several keys, values with ':' "
                      "and ',' (or global.parameters), --dry (expansion: directory tree, every script's text, status listing, "
                      "exit code) or a real run with the LOCAL adapter (additionally the final step states; one step may fail), "
                      "compared across processes only; the same output root is SPELLED differently in the processes (absolute; "
                      "relative; ./relative; with a trailing slash; ../../x from a sub-directory; relative from a cwd entered "
                      "through a symbolic link) and the specifications mention $(OUTPUT_PATH) and $(SPECROOT) in cmd, restart, "
                      "env variables and labels: scripts are compared modulo the ABSOLUTE root and specification directory; "
                      "25%% of the generated library cases are staged with hash_ws=True and 15%% with use_tmp=True; 35%% are staged and "
                      "polled by the Conductor (initialize + monitor_study, sleep stubbed; status.csv where the Conductor "
                      "writes it); 30%% are REAL runs against a scripted scheduler adapter registered in the plug-in registry "
                      "(every step scheduled, answers in the order queried; every job reported FINISHED one poll after "
                      "submission, or -- case key faults = hw/timeout/mixed -- first ONE HWFAILURE (re-queue) / TIMEDOUT "
                      "(restart) per instance, for all jobs in flight in that poll together; a third of them under a submission "
                      "throttle 1-3 with a scheduler that REFUSES a quarter of the instances for all attempts while others "
                      "are still queued): the sequence of submitted instance names over all polls is compared across processes only; "
                      "one root is reached through a symbolic link, one is spelled with '..' and '//'; the output roots "
                      "contain blanks, quote, plus, comma and non-ASCII characters and are replaced exactly as given; every "
                      "specification is staged and dry-run (local adapter, scripts and status.csv written) in %d fresh "
                      "interpreters = PYTHONHASHSEED %s (chosen by a sub-process pre-computation so that the 2-element sets "
                      "of tie names and the launcher code's resource-key sets are iterated in both orders) under different output roots + the first seed again under "
                      "one more root; hash_ws cases are compared across processes only (C11_ok; the Gallina model has "
                      "hash_ws off), all others also with the model; distinct = distinct (rlimit, params, steps, flags); "
                      "non-trivial = staged and some instance has >= 2 parents or >= 2 record parameters"
                      % (len(procs), "/".join(seeds)))
    ck.cov["traces_validated_against_impl"] = len(cases) * len(procs)
    ck.cov["input_distribution"] = hist
    return ck.finish(search=lambda: search(ck))


def search(ck):
    """Proof or correspondence broke: look for two processes that disagree, bigger budget, no Coq."""
    rng = random.Random(ck.seed + 104729)
    cases = [gen_wide(rng) for _ in range(250)] + [c08.gen_case(rng, "valid") for _ in range(150)] \
        + [gen_ties(rng) for _ in range(150)] + [gen_sched(rng) for _ in range(200)] \
        + [gen_env(rng) for _ in range(200)]
    for k, c in enumerate(cases):
        if k % 3 == 0:
            c["hashws"] = True
        if k % 2 == 0:
            c["via"] = "conductor"
        if k % 4 == 1 and c["stream"] != "sched":
            c["real"] = True
            c["faults"] = ["hw", "timeout", "mixed"][(k // 4) % 3]
            c["rlimit"] = max(1, c["rlimit"])
    seeds, _ = pick_seeds(4)
    procs = processes_for(seeds)
    sers, problems = run_processes(cases, procs, "run-c11-search")
    for case, ss in zip(cases, sers):
        if any(s is None for s in ss):
            continue
        d = cross_diff(ss, procs)
        if d is not None:
            k, where = d
            det = {"diff": {"process_a": {"hashseed": procs[0][0], "root_variant": procs[0][1]},
                            "process_b": {"hashseed": procs[k][0], "root_variant": procs[k][1]},
                            "same_hashseed": procs[0][0] == procs[k][0], "where": where}}
            return violation_what(det), violation_record(case, procs, det)
    return None


def replay(ck, path):
    d = json.load(open(path))
    rec = d.get("case", d)
    case = rec.get("case", rec)
    if rec.get("processes"):
        procs = [(str(s), str(v)) for s, v in rec["processes"]]
    else:
        procs = processes_for(pick_seeds(4)[0])
    sers, verdicts, detail, problems, errs = evaluate(ck, [case], procs, tag="C11_replay")
    for (s, v), x in zip(procs, sers[0]):
        print("PYTHONHASHSEED=%s root=.../%s/st/out:" % (s, v), json.dumps(x)[:3000])
    if not cross_only(case):
        print("model:", model_text(case))
    print("verdict:", verdicts[0], detail.get(0), problems[:1], errs[:1])
    return 0 if verdicts[0] in ("ok", "known") and not problems and not errs else 1


if __name__ == "__main__":
    if len(sys.argv) == 4 and sys.argv[1] == "--worker":
        worker_main(sys.argv[2], sys.argv[3])
    else:
        sys.exit("usage: python -m harness.props.c11 --worker IN.json OUT.json")

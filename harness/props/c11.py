"""C11 -- expanding the same specification is repeatable.

The tie (T-corr across PROCESSES): every generated specification is built,
staged and dry-run through the real Study / ExecutionGraph with the local
adapter (scripts and status.csv are really written) in >= 3 FRESH interpreter
processes, each with its own PYTHONHASHSEED and its own output root.  Each
process serialises

  obs      the C08 observable: used-parameter table, and for every node in
           `values` order name, adjacency list, _dependencies, restart limit,
           record params (dict order), workspace relative to the root,
           description / cmd / restart / other string fields / depends
  polls    the names passed to write_script, poll by poll (submission order)
  status   status.csv rows: Step Name, Workspace, State, Params column
  scripts  the text of every script / restart script written, in that order
  exc      exception class of the dry run / final status if not FINISHED

with the absolute root replaced by the placeholder "/R".  Inside Coq
(Expand/OrderFree.v) the monitor `C11_ok` -- the predicate of the theorems of
Props/C11.v: all expansions equal -- is evaluated on the recorded list, and the
first process's record is compared with the model `c11_model` (Expand.v's
`stage` + the derived submission order / status rows / script texts) under the
identity AND the reversed set-iteration oracle.

A difference between two processes is a concrete violation (replay = the
specification and the two hash seeds).

Sub-process entry:  python -m harness.props.c11 --worker IN.json OUT.json
"""
import glob
import json
import os
import random
import shutil
import subprocess
import sys
from concurrent.futures import ThreadPoolExecutor

from harness import common
from harness.props import c08

PID = "C11"
PY = "/venv/bin/python"
SEEDS_QUICK = ["0", "1", "7"]
SEEDS_THOROUGH = ["0", "1", "7", "12345"]
# output roots differ in depth and spelling; the last two components are the
# same everywhere because write_status prints the last two components of a
# workspace path (a component that sanitises to nothing would otherwise show
# the root's own directory name: C10's K1, not a C11 matter)
VARIANTS = ["p0", "q1/deeper.dir-1", "Z_9/a/b/c", "w-3/x.y"]

HEADER = c08.HEADER + """From MWF Require Import Expand.OrderFree.
Definition X_ := mkX.
Definition R_ := mkRow.
Definition C_ := mkScr.
Definition L_ (l : list str) : str := join [10%N] l.
"""


# ----------------------------------------------------------------------------
# worker (runs in the fresh interpreter)
# ----------------------------------------------------------------------------
def expand_once(case, root):
    """Stage + dry run under `root`; returns the serialisation (root replaced)."""
    ser = {"obs": None, "polls": [], "status": [], "scripts": [], "exc": ""}
    o, study, dag = c08.stage_real(case, root, dry=True)
    ser["obs"] = o
    if o.get("ok") and dag is not None:
        from maestrowf.abstracts.interfaces.scriptadapter import ScriptAdapter
        from maestrowf.abstracts.enums import StudyStatus
        calls = []
        orig = ScriptAdapter.__dict__["write_script"]

        def write_script(self_, ws_path, step):
            r = orig(self_, ws_path, step)
            calls.append((str(step.real_name), r[1], r[2]))
            return r
        ScriptAdapter.write_script = write_script
        try:
            dag.set_adapter({"type": "local"})
            status, polls, cap = StudyStatus.RUNNING, 0, len(o["nodes"]) + 3
            while status == StudyStatus.RUNNING and polls < cap:
                n0 = len(calls)
                status = dag.execute_ready_steps()
                ser["polls"].append([c[0] for c in calls[n0:]])
                polls += 1
            while ser["polls"] and not ser["polls"][-1]:
                ser["polls"].pop()
            if status != StudyStatus.FINISHED:
                ser["exc"] = "STATUS:%s" % getattr(status, "name", status)
            dag.write_status(root)
            with open(os.path.join(root, "status.csv")) as f:
                lines = f.read().split("\n")
            for ln in lines[1:]:
                p = ln.split(",")
                if len(p) >= 11:
                    ser["status"].append([p[0], p[2], p[3], ",".join(p[10:])])
                else:
                    ser["status"].append([ln, "", "", ""])
            for name, sp, rp in calls:
                with open(sp) as f:
                    text = f.read()
                rtext = ""
                if rp:
                    with open(rp) as f:
                        rtext = f.read()
                ser["scripts"].append([name, text, rtext])
        except Exception as e:            # mutated trees may raise anything
            ser["exc"] = "EXC:%s" % type(e).__name__
        finally:
            ScriptAdapter.write_script = orig
    return json.loads(json.dumps(ser).replace(root, "/R"))


def worker_main(inp, outp):
    with open(inp) as f:
        d = json.load(f)
    c08.quiet()
    try:
        import maestrowf.datastructures.core.executiongraph as eg
        eg.sleep = lambda *a, **k: None
    except Exception:
        pass
    res = []
    for i, case in enumerate(d["cases"]):
        top = os.path.join(d["base"], "%d" % i)
        root = os.path.join(top, d["variant"], "st", "out")
        try:
            res.append(expand_once(case, root))
        except Exception as e:
            res.append({"obs": {"ok": False, "err": 3, "exc": type(e).__name__, "msg": str(e)[:200]},
                        "polls": [], "status": [], "scripts": [], "exc": "HARNESS:%s" % type(e).__name__})
        shutil.rmtree(top, ignore_errors=True)
    with open(outp, "w") as f:
        json.dump({"hashseed": os.environ.get("PYTHONHASHSEED"), "res": res}, f)


# ----------------------------------------------------------------------------
# driver side: fan out over processes
# ----------------------------------------------------------------------------
def run_processes(cases, seeds, tag, chunk=None):
    """Returns per case the list of serialisations, one per seed (same order)."""
    work = os.path.join(common.WORK, "%s-%d" % (tag, os.getpid()))    # concurrent checks do not collide
    shutil.rmtree(work, ignore_errors=True)
    os.makedirs(work)
    n = len(cases)
    if chunk is None:
        per_seed = max(1, common.NCPU // len(seeds))
        chunk = max(1, -(-n // per_seed))
    jobs = []
    for k, seed in enumerate(seeds):
        for j in range(0, n, chunk):
            name = "s%d_c%d" % (k, j)
            inp = os.path.join(work, name + ".in.json")
            outp = os.path.join(work, name + ".out.json")
            with open(inp, "w") as f:
                json.dump({"cases": cases[j:j + chunk], "base": os.path.join(work, name),
                           "variant": VARIANTS[k % len(VARIANTS)]}, f)
            jobs.append((k, seed, j, inp, outp))
    env = dict(os.environ)
    env["PYTHONPATH"] = "%s:%s" % (common.REPO, common.VERIF)
    env["PYTHONDONTWRITEBYTECODE"] = "1"

    def launch(job):
        k, seed, j, inp, outp = job
        e = dict(env)
        e["PYTHONHASHSEED"] = seed
        try:
            p = subprocess.run([PY, "-m", "harness.props.c11", "--worker", inp, outp], env=e,
                               cwd=common.VERIF, stdout=subprocess.PIPE, stderr=subprocess.STDOUT,
                               timeout=1500, text=True, errors="replace")
            return p.returncode, p.stdout[-2000:]
        except subprocess.TimeoutExpired:
            return 124, "worker timed out"
    with ThreadPoolExecutor(max_workers=common.NCPU) as ex:
        rcs = list(ex.map(launch, jobs))
    out = [[None] * len(seeds) for _ in range(n)]
    problems = []
    for (k, seed, j, inp, outp), (rc, txt) in zip(jobs, rcs):
        try:
            with open(outp) as f:
                d = json.load(f)
            assert str(d.get("hashseed")) == seed
            for i, r in enumerate(d["res"]):
                out[j + i][k] = r
        except Exception as e:
            problems.append("worker seed=%s chunk=%d rc=%s: %r %s" % (seed, j, rc, e, txt[-600:]))
    shutil.rmtree(work, ignore_errors=True)
    return out, problems


# ----------------------------------------------------------------------------
# Gallina literals
# ----------------------------------------------------------------------------
g_str, g_strs = c08.g_str, c08.g_strs


def g_text(s):
    if "\n" in s:
        return "(L_ %s)" % g_strs(s.split("\n"))
    return g_str(s)


def g_xobs(x):
    rows = common.g_list(["R_ %s %s %s %s" % tuple(g_str(c) for c in r) for r in x["status"]])
    scripts = common.g_list(["C_ %s %s %s" % (g_str(a), g_text(b), g_text(c)) for a, b, c in x["scripts"]])
    polls = common.g_list([g_strs(p) for p in x["polls"]])
    return "(X_ %s %s %s %s %s)" % (c08.g_obs(x["obs"]), polls, rows, scripts, g_str(x["exc"]))


def g_case(case, sers):
    """identical serialisations are written once (let-bound) -- the usual case"""
    keys, distinct = [], []
    for x in sers:
        k = json.dumps(x, sort_keys=True)
        if k not in distinct:
            distinct.append(k)
        keys.append(distinct.index(k))
    lets = "".join("let x%d := %s in " % (i, g_xobs(json.loads(k))) for i, k in enumerate(distinct))
    return "(%s, %s%s)" % (c08.g_spec(case), lets, common.g_list(["x%d" % i for i in keys]))


# ----------------------------------------------------------------------------
# generators
# ----------------------------------------------------------------------------
def gen_wide(rng):
    """>= 3 parameters, several funnel (`_*`) dependencies, multi-parent steps:
    the sets depends / hub_depends / step_combos[parent] / used_params all have
    several elements, so that their iteration order matters."""
    nsteps = rng.randint(4, 7)
    names = rng.sample(c08.STEP_NAMES, nsteps)
    keys = rng.sample(c08.KEYS_FREE, rng.choice([3, 3, 4, 5]))
    nrows = rng.randint(2, 4)
    params = []
    for k in keys:
        vals = c08.gen_values(rng, nrows)
        params.append({"key": k, "name": rng.choice([None, None, k.lower() + "_nm"]),
                       "values": vals, "label": c08.gen_label(rng, k, vals)})
    nleaf = rng.randint(2, 3)
    dep_idx, steps = [], []
    for k in range(nsteps):
        deps, idx = [], []
        if k >= nleaf or (k > 0 and rng.random() < 0.2):
            cand = list(range(k))
            rng.shuffle(cand)
            take = cand[:rng.randint(min(2, k), min(4, k))]
            hubs = 0
            for j in take:
                idx.append(j)
                if rng.random() < 0.5:
                    deps.append(names[j] + rng.choice(["_*", "_*", "*"]))
                    hubs += 1
                else:
                    deps.append(names[j])
        dep_idx.append(idx)
        anc = [names[j] for j in c08.ancestors(dep_idx, k)]
        use = [x for x in keys if rng.random() < (0.55 if k < nleaf else 0.25)]
        if k < nleaf and len(use) < 2:
            use = rng.sample(keys, 2)
        cmd = c08.gen_text(rng, use, keys, anc, p_tok=0.3, p_ws=0.4)
        cmd += " " + " ".join(rng.choice(["$(%s)", "$(%s.label)", "$(%s)"]) % u for u in use)
        run = {"cmd": cmd}
        if deps:
            run["depends"] = deps
        if rng.random() < 0.4:
            run["restart"] = c08.gen_text(rng, use, keys, anc, p_tok=0.3)
        if rng.random() < 0.3:
            run[rng.choice(["nodes", "procs", "walltime"])] = rng.choice(["$(%s)" % rng.choice(keys), 2, "00:10:00"])
        steps.append({"name": names[k], "description": rng.choice(["step", "wide"]), "run": run})
    return {"rlimit": rng.choice([0, 2]), "params": params, "steps": steps, "stream": "wide"}


def load_corpus():
    return c08.load_corpus(PID)


def clean(case):
    return {k: v for k, v in case.items() if k not in ("corpus_file",)}


def max_parents(x):
    o = x["obs"]
    return max([len(n["deps"]) for n in o["nodes"]] + [0]) if o.get("ok") else 0


def max_params(x):
    o = x["obs"]
    return max([len(n.get("params", [])) for n in o["nodes"]] + [0]) if o.get("ok") else 0


def first_diff(a, b, path=""):
    """a short description of where two serialisations differ"""
    if type(a) != type(b):
        return "%s: %r vs %r" % (path, a, b)
    if isinstance(a, dict):
        for k in sorted(set(a) | set(b)):
            if a.get(k) != b.get(k):
                return first_diff(a.get(k), b.get(k), path + "/" + str(k))
    if isinstance(a, list):
        if len(a) != len(b):
            return "%s: lengths %d vs %d: %s vs %s" % (path, len(a), len(b), json.dumps(a)[:300], json.dumps(b)[:300])
        for i, (u, v) in enumerate(zip(a, b)):
            if u != v:
                return first_diff(u, v, path + "/%d" % i)
    return "%s: %s vs %s" % (path, json.dumps(a)[:300], json.dumps(b)[:300])


def cross_diff(sers, seeds):
    """(seed_a, seed_b, where) of the first pair of processes that disagree"""
    for k in range(1, len(sers)):
        if sers[k] != sers[0]:
            return seeds[0], seeds[k], first_diff(sers[0], sers[k])
    return None


def generate(rng, tier):
    quick = tier != "thorough"
    n_tiny, n_valid, n_prefix, n_exotic, n_wide = (12, 24, 8, 12, 36) if quick else (120, 300, 80, 120, 420)
    cases = load_corpus()
    tiny = c08.tiny_cases()
    rng.shuffle(tiny)
    cases += tiny[:n_tiny]
    cases += [c08.gen_case(rng, "valid") for _ in range(n_valid)]
    cases += [c08.gen_case(rng, "prefix") for _ in range(n_prefix)]
    cases += [c08.gen_case(rng, "exotic") for _ in range(n_exotic)]
    cases += [gen_wide(rng) for _ in range(n_wide)]
    return cases


def evaluate(ck, cases, seeds, tag="C11"):
    """-> (sers, verdicts, detail, problems, errs)"""
    sers, problems = run_processes(cases, seeds, "run-" + tag.lower())
    verdicts = ["ok"] * len(cases)
    detail = {}
    lits, idx = [], []
    for i, (case, ss) in enumerate(zip(cases, sers)):
        if any(s is None for s in ss):
            verdicts[i] = "lost"
            continue
        idx.append(i)
        lits.append(g_case(case, ss))
    ty = "spec * list xobs"
    # small shards: a 400-case shard of wide specifications needs > 3 GB and minutes in coqc
    shard = 32 if len(lits) <= 200 else 100
    bad, errs = common.coq_failing(tag, HEADER, ty, "c11_case", lits, shard=shard)
    if errs and all(not e[1].strip() or "timed out" in e[1] for e in errs):
        # coqc died without saying anything (killed under memory pressure / timed out on a
        # loaded machine): an infrastructure failure, not a verdict -- once more, smaller
        ck.notes["coqc_retry"] = [os.path.basename(e[0]) for e in errs]
        bad, errs = common.coq_failing(tag, HEADER, ty, "c11_case", lits, shard=max(8, shard // 2))
    if bad:
        sub = [lits[j] for j in bad]
        bad_mon, e1 = common.coq_failing(tag + "_mon", HEADER, ty, "c11_monitor", sub)
        bad_agr, e2 = common.coq_failing(tag + "_agree", HEADER, ty, "c11_agree", sub)
        errs = errs + e1 + e2
        for jj, j in enumerate(bad):
            i = idx[j]
            verdicts[i] = "violation" if jj in bad_mon else "mismatch"
            detail[i] = {"monitor_false": jj in bad_mon, "model_differs": jj in bad_agr}
    # the Python-side comparison of the complete serialisations must tell the same story
    for i in idx:
        d = cross_diff(sers[i], seeds)
        if d is not None:
            detail.setdefault(i, {})["diff"] = {"hashseed_a": d[0], "hashseed_b": d[1], "where": d[2]}
            verdicts[i] = "violation"
    return sers, verdicts, detail, problems, errs


def model_text(case):
    try:
        return common.coq_eval("C11_dbg", HEADER, "c11_model pi_id %s" % c08.g_spec(case))[-6000:]
    except Exception as e:
        return repr(e)


def violation_record(case, seeds, det):
    d = (det or {}).get("diff") or {}
    return {"case": clean(case), "hashseeds": list(seeds), "hashseed_a": d.get("hashseed_a"),
            "hashseed_b": d.get("hashseed_b"), "where": d.get("where")}


def run(ck):
    ck.build_proofs()
    rng = random.Random(ck.seed)
    seeds = SEEDS_QUICK if ck.tier != "thorough" else SEEDS_THOROUGH
    cases = generate(rng, ck.tier)
    sers, verdicts, detail, problems, errs = evaluate(ck, cases, seeds)
    hist = {"streams": {}, "nodes": {}, "max_parents": {}, "max_record_params": {}, "errors": {}, "polls": {}}
    for i, (case, ss) in enumerate(zip(cases, sers)):
        x = ss[0] or {"obs": {"ok": False, "err": 9}, "polls": []}
        o = x["obs"]
        mp = max_parents(x)
        ck.count(c08.case_key(case), nontrivial=bool(o.get("ok")) and (mp >= 2 or max_params(x) >= 2))
        hist["streams"][case["stream"]] = hist["streams"].get(case["stream"], 0) + 1
        if o.get("ok"):
            b = min(len(o["nodes"]) - 1, 16)
            hist["nodes"][b] = hist["nodes"].get(b, 0) + 1
            hist["max_parents"][min(mp, 8)] = hist["max_parents"].get(min(mp, 8), 0) + 1
            q = min(max_params(x), 6)
            hist["max_record_params"][q] = hist["max_record_params"].get(q, 0) + 1
            hist["polls"][len(x["polls"])] = hist["polls"].get(len(x["polls"]), 0) + 1
        else:
            k = "%s:%s" % (o.get("err"), o.get("exc"))
            hist["errors"][k] = hist["errors"].get(k, 0) + 1
        if case["stream"] == "wide" and o.get("ok"):
            ck.sample({"case": clean(case), "impl_first_process": {"polls": x["polls"], "status": x["status"][:6],
                                                                   "names": [n["name"] for n in o["nodes"]]}}, limit=2)
        v = verdicts[i]
        if v == "violation":
            d = detail.get(i, {}).get("diff", {})
            ck.violation("two expansions of the same specification differ (PYTHONHASHSEED %s vs %s): %s"
                         % (d.get("hashseed_a"), d.get("hashseed_b"), d.get("where", "C11_ok is false")),
                         violation_record(case, seeds, detail.get(i)))
        elif v == "mismatch":
            ck.mismatch("model and implementation disagree: %s" % json.dumps(detail.get(i)), clean(case),
                        model_text(case) + "\nIMPL: " + json.dumps(ss[0])[:6000])
        elif v == "lost":
            ck.mismatch("a worker process returned no result for this case", clean(case), "")
    for p in problems:
        ck.mismatch("worker process failed", None, p)
    for e in errs:
        ck.mismatch("coqc failed on cases file", None, e[1])
    ck.notes["processes_per_specification"] = len(seeds)
    ck.notes["hashseeds"] = seeds
    ck.notes["root_variants"] = VARIANTS[:len(seeds)]
    ck.cov["rule"] = ("corpus + a sample of C08's exhaustive tiny scope + C08's seeded streams valid/prefix/exotic + the "
                      "'wide' stream (4-7 steps, 3-5 parameters x 2-4 rows, steps with 2-4 parents mixing ordinary and "
                      "funnel dependencies, workspace references to ancestors); every specification is staged and dry-run "
                      "(local adapter, scripts and status.csv written) in %d fresh interpreters with PYTHONHASHSEED %s and "
                      "different output roots; distinct = distinct (rlimit, params, steps); non-trivial = staged and some "
                      "instance has >= 2 parents or >= 2 record parameters" % (len(seeds), "/".join(seeds)))
    ck.cov["traces_validated_against_impl"] = len(cases) * len(seeds)
    ck.cov["input_distribution"] = hist
    return ck.finish(search=lambda: search(ck))


def search(ck):
    """Proof or correspondence broke: look for two processes that disagree, bigger budget, no Coq."""
    rng = random.Random(ck.seed + 104729)
    cases = [gen_wide(rng) for _ in range(300)] + [c08.gen_case(rng, "valid") for _ in range(200)]
    sers, problems = run_processes(cases, SEEDS_THOROUGH, "run-c11-search")
    for case, ss in zip(cases, sers):
        if any(s is None for s in ss):
            continue
        d = cross_diff(ss, SEEDS_THOROUGH)
        if d is not None:
            det = {"diff": {"hashseed_a": d[0], "hashseed_b": d[1], "where": d[2]}}
            return ("two expansions of the same specification differ (PYTHONHASHSEED %s vs %s): %s" % d,
                    violation_record(case, SEEDS_THOROUGH, det))
    return None


def replay(ck, path):
    d = json.load(open(path))
    rec = d.get("case", d)
    case = rec.get("case", rec)
    seeds = [str(s) for s in (rec.get("hashseeds") or SEEDS_THOROUGH)]
    sers, verdicts, detail, problems, errs = evaluate(ck, [case], seeds, tag="C11_replay")
    for s, x in zip(seeds, sers[0]):
        print("PYTHONHASHSEED=%s:" % s, json.dumps(x)[:3000])
    print("model:", model_text(case))
    print("verdict:", verdicts[0], detail.get(0), problems[:1], errs[:1])
    return 0 if verdicts[0] == "ok" and not problems and not errs else 1


if __name__ == "__main__":
    if len(sys.argv) == 4 and sys.argv[1] == "--worker":
        worker_main(sys.argv[2], sys.argv[3])
    else:
        sys.exit("usage: python -m harness.props.c11 --worker IN.json OUT.json")

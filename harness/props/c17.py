"""C17 -- see DESIGN.md section 5.  Proofs: coq/theories/Props/C17.v; correspondence
and monitor: harness/exec_props.py (monitor family 17 of Exec/ExecTrace.v)."""
from harness import exec_props as X


class _Bias(dict):
    """Three of four random histories are dry runs, the fourth is a real run of the same
    generator (exec_props asks bias.get("dry") once per history: True = dry run, None = the
    generator's default mix), so dry and real runs of the same graph shapes, throttles and
    attempt counts sit side by side in every run."""

    def get(self, k, d=None):
        if k == "dry":
            self.n = getattr(self, "n", 0) + 1
            return True if self.n % 4 else None
        return dict.get(self, k, d)


# dry runs must ignore the scheduler completely: feed them failing / empty queries, cancel
# requests (code 173: a cancel in a dry run cancels nothing) and failing submissions
BIAS = _Bias({"qerr_p": 0.15, "qnojobs_p": 0.15, "cancel_p": 0.06, "sub_ok_p": 0.6, "throttled": True,
              "attempts": [1, 2, 3], "max_polls": 12, "nmax": 9})
# exhaustive tiny scope: every tiny graph dry (throttle 0, 1, 2) and real (throttle 0, 1) under
# the ideal scheduler answers (every queried job absent or FINISHED), cancel request at every poll
TINY = {"depth_quick": 5, "depth_thorough": 4, "graphs_quick": 6,
        "cfgs": [{"throttle": 0, "attempts": 1, "dry": True}, {"throttle": 1, "attempts": 2, "dry": True},
                 {"throttle": 2, "attempts": 1, "dry": True},
                 {"throttle": 0, "attempts": 1, "dry": False}, {"throttle": 1, "attempts": 1, "dry": False}],
        "enum": {"q": False, "cancel": True, "subs": False, "kinds": ["absent", "FINISHED"]},
        "limit_quick": 8000, "limit_thorough": 120000}
# thorough: additionally every query code (OK / NOJOBS / ERROR) at every poll -- a dry run must not
# even look at it (13 567 histories at depth 4 = length g + 1 polls for the 3-node graphs)
TINY_THOROUGH = dict(TINY, enum=dict(TINY["enum"], q=True))


def _e2e(ck):
    # real `maestro run --dry -fg` through the command line over {--hashws} x {--usetmp} x throttle x
    # attempts, against a real run of the same study under the scripted scheduler: no submit /
    # check_jobs / step execution, termination within instances+1 polls, every row DRYRUN, exit 0,
    # same script files as the real run (harness/props/c17_e2e.py)
    # (d) same directory tree below the output path as the real run, {--usetmp} x {--hashws}
    import traceback
    try:
        from harness.props import c17_e2e
        c17_e2e.run_e2e(ck)
    except Exception:
        ck.mismatch("the end-to-end part of the check (c17_e2e) could not run to completion", None, traceback.format_exc()[-3000:])
    # the REAL slurm / lsf / flux / local adapters over rich batch blocks, dry and real, command line and API:
    # a dry run spawns no process at any door, runs no scheduler command (fake executables first on PATH) and
    # makes no Flux call beyond the constructor's version read (harness/props/c17_procs.py)
    try:
        from harness.props import c17_procs
        c17_procs.run_procs(ck)
    except Exception:
        ck.mismatch("the process-layer part of the check (c17_procs) could not run to completion", None, traceback.format_exc()[-3000:])


def run(ck):
    BIAS.n = 0
    return X.run_exec(ck, 17, BIAS, tiny=TINY if ck.tier == "quick" else TINY_THOROUGH, extra=_e2e)


def replay(ck, path):
    from harness.props import c17_e2e, c17_procs
    import json
    d = json.load(open(path))
    if c17_procs.is_procs_case(d):
        return c17_procs.replay_procs(ck, d)
    if c17_e2e.is_e2e_case(d.get("case", d)):
        return c17_e2e.replay_e2e(ck, d)
    return X.replay_exec(ck, 17, path)

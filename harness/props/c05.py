"""C05 -- see DESIGN.md section 5.  Proofs: coq/theories/Props/C05.v; correspondence
and monitor: harness/exec_props.py (monitor family 5 of Exec/ExecTrace.v)."""
from harness import exec_props as X

# random histories: two of three are driven to completion by a fair tail (every live job gets a terminal
# report with probability 0.84 per poll, no query faults, no cancel) after a random prefix of 0-8 polls in
# which hardware failures, timeouts (restarts), cancels, failing submissions and query faults do occur;
# throttles 1-3 are over-represented (a slot leak shows up as a fair tail that never terminates: the
# runner flags a fair history still RUNNING after 3n + sum(rlimit) + 8 polls, the bound of C05_phi_bound)
BIAS = {"fair_after": [None, 0, 2, 3, 5, 8], "throttled": True, "max_polls": 12, "fair_bound": 80,
        "profiles": ["mixed", "mixed", "happy", "timeout", "hw", "failing", "failcancel"],
        "cancel_p": 0.05, "qerr_p": 0.01, "qnojobs_p": 0.05, "sub_ok_p": 0.85}
# exhaustive tiny scope: at every poll a cancel request may arrive and every queried job is
# absent / FINISHED / FAILED / TIMEDOUT / HWFAILURE / CANCELLED -- every verdict branch
# (FINISHED, FAILURE, CANCELLED by request, CANCELLED by report) on every tiny graph
TINY = {"depth_quick": 3, "depth_thorough": 4, "graphs_quick": 6,
        "cfgs": [{"throttle": 0, "attempts": 1, "dry": False}, {"throttle": 1, "attempts": 1, "dry": False}],
        "enum": {"q": False, "cancel": True, "subs": False,
                 "kinds": ["absent", "FINISHED", "FAILED", "TIMEDOUT", "HWFAILURE", "CANCELLED"]},
        "limit_quick": 2500, "limit_thorough": 60000}


def _e2e(ck):
    # process exit code = StudyStatus value of the truthful verdict, through the real command line:
    # `maestro run -fg` and the detached path's `conductor` entry point on the stored study (all-local
    # studies incl. failing/flaky steps and cancel locks; a third are studies with scheduled steps under
    # the launcher's scripted scheduler, compared with the Exec model's trace)  -- harness/e2e.py
    import random
    from harness import e2e
    items = e2e.exit_code_cases(random.Random(ck.seed * 31 + 5), 18 if ck.tier == "quick" else 150)
    e2e.check_exit_codes(ck, items)
    e2e.check_cancel_cli(ck, pidnum=5)


def run(ck):
    return X.run_exec(ck, 5, BIAS, tiny=TINY, extra=_e2e)


def replay(ck, path):
    return X.replay_exec(ck, 5, path)

"""C05 -- see DESIGN.md section 5.  Proofs: coq/theories/Props/C05.v; correspondence
and monitor: harness/exec_props.py (monitor family 5 of Exec/ExecTrace.v)."""
from harness import exec_props as X

# random histories: two of three are driven to completion by a fair tail (every live job gets a terminal
# report with probability 0.84 per poll, no query faults, no cancel) after a random prefix of 0-8 polls in
# which hardware failures, timeouts (restarts), cancels, failing submissions and query faults do occur;
# throttles 1-3 are over-represented (a slot leak shows up as a fair tail that never terminates: the
# runner flags a fair history still RUNNING after 3n + sum(rlimit) + 8 polls, the bound of C05_phi_bound)
BIAS = {"fair_after": [None, 0, 2, 3, 5, 8], "throttled": True, "max_polls": 12, "fair_bound": 80,
        "profiles": ["mixed", "mixed", "happy", "timeout", "hw", "failing", "failcancel"],
        "cancel_p": 0.05, "qerr_p": 0.01, "qnojobs_p": 0.05, "sub_ok_p": 0.85}
# exhaustive tiny scope: at every poll a cancel request may arrive and every queried job is
# absent / FINISHED / FAILED / TIMEDOUT / HWFAILURE / CANCELLED -- every verdict branch
# (FINISHED, FAILURE, CANCELLED by request, CANCELLED by report) on every tiny graph
TINY = {"depth_quick": 3, "depth_thorough": 4, "graphs_quick": 6,
        "cfgs": [{"throttle": 0, "attempts": 1, "dry": False}, {"throttle": 1, "attempts": 1, "dry": False}],
        "enum": {"q": False, "cancel": True, "subs": False,
                 "kinds": ["absent", "FINISHED", "FAILED", "TIMEDOUT", "HWFAILURE", "CANCELLED"]},
        "limit_quick": 2500, "limit_thorough": 60000}


def _e2e(ck):
    # process exit code = StudyStatus value of the truthful verdict, through the real command line:
    # `maestro run -fg` and the detached path's `conductor` entry point on the stored study (all-local
    # studies incl. failing/flaky steps and cancel locks; a third are studies with scheduled steps under
    # the launcher's scripted scheduler, compared with the Exec model's trace)  -- harness/e2e.py
    import random
    from harness import e2e
    items = e2e.exit_code_cases(random.Random(ck.seed * 31 + 5), 18 if ck.tier == "quick" else 150)
    e2e.check_exit_codes(ck, items)
    e2e.check_cancel_cli(ck, pidnum=5)


# ----------------------------------------------------------------------------
# controlled clock (harness/exec_harness.py, run_history(clock=...)): the verdict must not depend on the wall-clock
# instant of a poll.  Every step is stamped three times (submitted / first seen running / ended) with
# round_datetime_seconds(datetime.now()); under the real clock a stamp falls into the last half second of a minute
# once in 120 times, at a day / month / year end practically never.  A share of the generated histories (random
# and exhaustive alike; both the direct driver and the real Conductor.monitor_study loop) therefore runs with the
# engine's `datetime` name answering scripted instants that sit ON those boundaries.  Nothing else about a
# history changes: model correspondence and every monitor must hold exactly as under the real clock, and an
# exception escaping the poll is a failing input (exec_props.evaluate).  The clock is part of the stored case.
CLOCK_SHARE = 0.3
CLOCK_STARTS = [
    "2023-03-14T09:59:59.500000",     # first instant that rounds up into the next minute (and hour)
    "2023-03-14T10:17:59.999999",     # last microsecond of a minute
    "2023-03-14T10:17:59.499999",     # last instant that rounds down (control)
    "2023-07-01T23:59:59.700000",     # day roll-over
    "2023-04-30T23:59:59.500000",     # month end (30 days)
    "2023-12-31T23:59:59.900000",     # year end
    "2023-02-28T23:59:59.600000",     # Feb 28 of a common year -> Mar 1
    "2024-02-28T23:59:59.600000",     # Feb 28 of a leap year -> Feb 29
    "2024-02-29T23:59:59.999999",     # leap day -> Mar 1
    "2023-03-26T01:59:59.800000",     # naive local time across a DST switch instant (no tz arithmetic expected)
    "2023-03-14T12:00:00.000000",     # nothing special (control)
]
CLOCK_POLL_S = [60, 60, 60, 3600, 86400, 1, 3, 7]      # 60 / 3600 / 86400: every poll starts on the same kind of boundary
CLOCK_TICK_US = [0, 0, 1, 1000, 40000]                # advance per now() call inside a poll


class _ClockPolicy:
    def __init__(self, seed):
        import random
        self.rng = random.Random(seed * 104729 + 55)
        self.asked = 0
        self.used = {}

    def __call__(self):
        self.asked += 1
        if self.rng.random() >= CLOCK_SHARE:
            return None
        spec = {"start": self.rng.choice(CLOCK_STARTS), "poll_s": self.rng.choice(CLOCK_POLL_S),
                "tick_us": self.rng.choice(CLOCK_TICK_US)}
        self.used[spec["start"]] = self.used.get(spec["start"], 0) + 1
        return spec


def round_sweep():
    """Unit-level sweep of maestrowf.utils.round_datetime_seconds (the function behind every stamp): every second of
    the minute x microsecond {0, 499999, 500000, 999999} in minute / hour / day / month / year / leap-day end
    contexts.  Expected: the nearest whole second, halves up, i.e. input - microseconds (+ 1 s when >= 500000).
    Returns (evaluations, [(iso input, what)])."""
    import datetime as dt
    from maestrowf.utils import round_datetime_seconds
    ctx = [(2023, 3, 14, 10, 17), (2023, 3, 14, 9, 59), (2023, 7, 1, 23, 59), (2023, 4, 30, 23, 59),
           (2023, 12, 31, 23, 59), (2023, 2, 28, 23, 59), (2024, 2, 28, 23, 59), (2024, 2, 29, 23, 59),
           (2023, 3, 26, 1, 59), (1970, 1, 1, 0, 0), (2038, 1, 19, 3, 14)]
    n, bad = 0, []
    for (y, mo, d, h, mi) in ctx:
        for sec in range(60):
            for us in (0, 499999, 500000, 999999):
                t = dt.datetime(y, mo, d, h, mi, sec, us)
                want = t.replace(microsecond=0) + dt.timedelta(seconds=1 if us >= 500000 else 0)
                n += 1
                try:
                    got = round_datetime_seconds(t)
                    if got != want:
                        bad.append((t.isoformat(), "returned %s, the nearest whole second is %s" % (got, want)))
                except Exception as e:
                    bad.append((t.isoformat(), "raised %s: %s" % (type(e).__name__, str(e)[:120])))
    return n, bad


def _clock_part(ck, policy):
    import random
    from harness import exec_harness as H
    calls, edge = H.clock_stats()
    n, bad = round_sweep()
    ck.cov["controlled_clock"] = {
        "histories_asked": policy.asked, "histories_under_controlled_clock": sum(policy.used.values()),
        "share": CLOCK_SHARE, "start_instants": dict(sorted(policy.used.items())),
        "now_calls_answered": calls, "of_them_in_last_half_second_of_a_minute": edge,
        "round_datetime_seconds_sweep": {"evaluations": n, "wrong_or_raised": len(bad)}}
    ck.cov["rule"] += (" A share (%d%%) of the generated histories runs under a CONTROLLED clock (the engine's `datetime` name "
                       "answers scripted instants on minute / day / month / year / leap-day ends, a few seconds to a day "
                       "apart per poll): same comparison, same monitors, the clock is stored with the case. "
                       "round_datetime_seconds is additionally swept over every second of the minute x microsecond "
                       "{0, 499999, 500000, 999999} in %d end-of-period contexts against `nearest whole second, halves up` "
                       "-- a harness-side unit check that supports the correspondence run; it is not a theorem."
                       % (int(CLOCK_SHARE * 100), n // 240))
    if bad:
        # a wrong stamp helper matters to C05 when it makes the poll crash: show it on a one-step history whose
        # clock stands at the offending instant
        iso, what = bad[0]
        node = [{"parents": [], "children": [], "scheduled": True, "has_restart": False, "rlimit": 0}]
        c = H.run_history(node, {"throttle": 0, "attempts": 1, "dry": False}, random.Random(0), max_polls=3, fair_after=0,
                          clock={"start": iso, "poll_s": 60, "tick_us": 0})
        c["origin"] = "clock-sweep"
        if c["end"] == "exc":
            ck.violation("round_datetime_seconds(%s) %s (%d of %d swept instants fail); a one-step study polled at that "
                         "instant ends with %s and no verdict" % (iso, what, len(bad), n, c["polls"][-1]["status"]), X.strip(c))
        else:
            ck.mismatch("round_datetime_seconds(%s) %s (%d of %d swept instants fail)" % (iso, what, len(bad), n), None, "")


def run(ck):
    from harness import exec_harness as H
    policy = _ClockPolicy(ck.seed)
    H.CLOCK_POLICY = policy

    def extra(ck):
        H.CLOCK_POLICY = None       # the end-to-end part and the unit history choose their clocks themselves
        _clock_part(ck, policy)
        _e2e(ck)

    try:
        return X.run_exec(ck, 5, BIAS, tiny=TINY, extra=extra)
    finally:
        H.CLOCK_POLICY = None


def replay(ck, path):
    # a stored history carries its controlled clock on the first poll input ("clock"): run_history re-creates it
    return X.replay_exec(ck, 5, path)

"""C14 -- the workflow graph stays acyclic and its orderings are exact.

Correspondence between maestrowf.datastructures.dag.DAG (the real class in
/repo) and the Gallina model coq/theories/Dag/DagModel.v, plus the monitor
`C14_ok` (the predicate Props/C14.v proves of the model) evaluated on the
implementation's observables.  Everything on the model side runs inside Coq
(vm_compute over generated cases files).

A case = (n names, setup operations, table after setup, branches); a branch is
a list of (operation, observable after it).  Observable after an operation:
adjacency table, keys of `values`, how the call ended, detect_cycle(),
topological_sort(), bfs_subtree(x)[0] and dfs_subtree(x)[0] for every name x
of the alphabet (present or not).

Streams:
  corpus        corpus/C14/*.json (always first)
  exh-nodedup   every operation sequence of length <= L0 over 3 names, as a
                trie: one case per prefix, one single-operation branch per
                operation (no assumption at all)
  exh-states    every operation sequence of length <= L over k names, with
                states reached by several sequences explored once (sound
                because a DAG object has no attributes besides adjacency_table
                and values -- checked on every run; otherwise this stream is
                replaced by exh-nodedup at the largest affordable bound)
  random        seeded structured sequences on 2..10 nodes (mostly valid:
                nodes first, edges mostly forward in a hidden order; the rest
                backward = cycle-creating, duplicate, dangling, self edges,
                removals of present/absent edges, re-added nodes)
  exotic        seeded uniformly random operations over a small alphabet
"""
import copy
import glob
import json
import os
import random
import sys
import time

from harness import common

PID = "C14"

HEADER = """From Coq Require Import List Arith Bool.
From MWF Require Import Base.Util Dag.DagModel.
Import ListNotations.
Definition N_ := AddNode.
Definition A_ := AddEdge.
Definition R_ := RemoveEdge.
Definition K := TOk.
Definition E := TErr.
Definition O_ := mkObs.
Definition C_ := mkCase.
"""

UNKNOWN_NAME = 900      # a key of the implementation's table that is not in the alphabet


# ----------------------------------------------------------------------------
# the implementation side
# ----------------------------------------------------------------------------
def _import_dag():
    try:
        import logging
        logging.disable(logging.CRITICAL)      # the class logs every refusal
        from maestrowf.datastructures.dag import DAG
        return DAG
    except Exception as e:           # mutated tree may not import
        raise RuntimeError("cannot import maestrowf.datastructures.dag: %r" % (e,))


def name_of(i):
    return "step%d" % i


class Impl:
    """One live DAG object plus the translation names <-> numbers."""

    def __init__(self, DAG, n):
        self.n = n
        self.idx = {name_of(i): i for i in range(n)}
        self.error = None
        try:
            self.d = DAG()
        except Exception as e:
            self.d = None
            self.error = "EXC:%s" % type(e).__name__

    def fork(self):
        o = Impl.__new__(Impl)
        o.n, o.idx, o.error = self.n, self.idx, self.error
        o.d = copy.deepcopy(self.d)
        return o

    def num(self, name):
        return self.idx.get(name, UNKNOWN_NAME)

    def apply(self, op):
        """Returns the kind code: 0 returned, 1 ValueError, 2 Exception, 9 other."""
        try:
            if op[0] == "add_node":
                self.d.add_node(name_of(op[1]), {"payload": op[1]})
            elif op[0] == "add_edge":
                self.d.add_edge(name_of(op[1]), name_of(op[2]))
            elif op[0] == "remove_edge":
                self.d.remove_edge(name_of(op[1]), name_of(op[2]))
            else:
                raise AssertionError(op)
            return 0
        except AssertionError:
            raise
        except Exception as e:
            if type(e) is ValueError:
                return 1
            if type(e) is Exception:
                return 2
            return 9

    def table(self):
        try:
            return [[self.num(k), [self.num(c) for c in v]] for k, v in self.d.adjacency_table.items()]
        except Exception:
            return [[UNKNOWN_NAME, []]]

    def vals(self):
        try:
            return [self.num(k) for k in self.d.values.keys()]
        except Exception:
            return [UNKNOWN_NAME]

    def _trav(self, f):
        try:
            r = f()
            return ["ok", [self.num(x) for x in r]]
        except KeyError:
            return ["err", 1]
        except Exception:       # RecursionError on a cyclic table, ...
            return ["err", 9]

    def observe(self, kind):
        d = self.d
        try:
            c = d.detect_cycle()
            cyc = 1 if c is True else 0 if c is False else 9
        except Exception:
            cyc = 9
        return {
            "adj": self.table(),
            "vals": self.vals(),
            "kind": kind,
            "cyc": cyc,
            "topo": self._trav(lambda: list(d.topological_sort())),
            "bfs": [self._trav(lambda i=i: list(d.bfs_subtree(name_of(i))[0])) for i in range(self.n)],
            "dfs": [self._trav(lambda i=i: list(d.dfs_subtree(name_of(i))[0])) for i in range(self.n)],
        }

    def state_key(self):
        return json.dumps([self.table(), self.vals()])


def build_case(DAG, n, setup, branches):
    base = Impl(DAG, n)
    for op in setup:
        base.apply(op)
    start = base.table()
    out = []
    for br in branches:
        im = base.fork()
        steps = []
        for op in br:
            k = im.apply(op)
            steps.append([list(op), im.observe(k)])
        out.append(steps)
    return {"n": n, "setup": [list(o) for o in setup], "start": start, "branches": out}


# ----------------------------------------------------------------------------
# Gallina literals
# ----------------------------------------------------------------------------
def g_op(op):
    if op[0] == "add_node":
        return "N_ %d" % op[1]
    if op[0] == "add_edge":
        return "A_ %d %d" % (op[1], op[2])
    return "R_ %d %d" % (op[1], op[2])


def g_nats(l):
    return "[" + ";".join(str(x) for x in l) + "]"


def g_graph(t):
    return "[" + ";".join("(%d,%s)" % (k, g_nats(v)) for k, v in t) + "]"


def g_tres(r):
    return "K %s" % g_nats(r[1]) if r[0] == "ok" else "E %d" % r[1]


def g_obs(o):
    return "O_ %s %s %d %d (%s) [%s] [%s]" % (
        g_graph(o["adj"]), g_nats(o["vals"]), o["kind"], o["cyc"], g_tres(o["topo"]),
        ";".join(g_tres(r) for r in o["bfs"]), ";".join(g_tres(r) for r in o["dfs"]))


def g_case(c):
    brs = ";".join("[" + ";".join("(%s,%s)" % (g_op(op), g_obs(o)) for op, o in br) + "]" for br in c["branches"])
    return "C_ %d [%s] %s [%s]" % (c["n"], ";".join(g_op(o) for o in c["setup"]), g_graph(c["start"]), brs)


# ----------------------------------------------------------------------------
# generators
# ----------------------------------------------------------------------------
def all_ops(n):
    ops = [("add_node", a) for a in range(n)]
    ops += [("add_edge", a, b) for a in range(n) for b in range(n)]
    ops += [("remove_edge", a, b) for a in range(n) for b in range(n)]
    return ops


def exhaustive_nodedup(DAG, n, L, hist):
    """Every sequence of length <= L: one case per prefix of length < L, whose
    branches are the single next operations (trie; nothing is shared)."""
    ops = all_ops(n)
    cases = []

    def rec(impl, prefix):
        start = impl.table()
        brs = []
        kids = []
        for op in ops:
            im = impl.fork()
            k = im.apply(op)
            brs.append([[list(op), im.observe(k)]])
            kids.append(im)
        cases.append({"n": n, "setup": [list(o) for o in prefix], "start": start, "branches": brs,
                      "stream": "exh-nodedup"})
        if len(prefix) + 1 < L:
            for op, im in zip(ops, kids):
                rec(im, prefix + [op])

    rec(Impl(DAG, n), [])
    hist["exh-nodedup n=%d len<=%d sequences" % (n, L)] = sum(len(ops) ** i for i in range(1, L + 1))
    return cases


def exhaustive_states(DAG, n, L, hist):
    """Every sequence of length <= L, states reached by several sequences
    explored once (first = shortest path)."""
    ops = all_ops(n)
    cases = []
    root = Impl(DAG, n)
    seen = {root.state_key()}
    frontier = [(root, [])]
    transitions = 0
    for depth in range(L):
        nxt = []
        for impl, path in frontier:
            start = impl.table()
            brs = []
            for op in ops:
                im = impl.fork()
                k = im.apply(op)
                brs.append([[list(op), im.observe(k)]])
                transitions += 1
                key = im.state_key()
                if key not in seen:
                    seen.add(key)
                    nxt.append((im, path + [op]))
            cases.append({"n": n, "setup": [list(o) for o in path], "start": start, "branches": brs,
                          "stream": "exh-states"})
        frontier = nxt
    hist["exh-states n=%d len<=%d: states expanded" % (n, L)] = len(cases)
    hist["exh-states n=%d len<=%d: transitions checked" % (n, L)] = transitions
    hist["exh-states n=%d len<=%d: sequences covered" % (n, L)] = sum(len(ops) ** i for i in range(1, L + 1))
    return cases


def random_sequence(rng, n, length):
    """Structured, mostly valid."""
    order = list(range(n))
    rng.shuffle(order)                 # hidden topological order
    pos = {v: i for i, v in enumerate(order)}
    present, edges = [], []
    ops = []
    # most nodes first, a few later
    first = [v for v in range(n) if rng.random() < 0.8]
    rng.shuffle(first)
    for v in first:
        ops.append(("add_node", v))
        present.append(v)
    while len(ops) < length:
        r = rng.random()
        if r < 0.08 and len(present) < n:
            v = rng.choice([x for x in range(n) if x not in present])
            ops.append(("add_node", v))
            present.append(v)
        elif r < 0.11:
            ops.append(("add_node", rng.randrange(n)))              # maybe duplicate
        elif r < 0.60 and len(present) >= 2:
            a, b = rng.sample(present, 2)
            if pos[a] > pos[b]:
                a, b = b, a
            ops.append(("add_edge", a, b))                          # forward: valid or duplicate
            if (a, b) not in edges:
                edges.append((a, b))
        elif r < 0.74 and len(present) >= 2:
            a, b = rng.sample(present, 2)
            ops.append(("add_edge", a, b))                          # any direction: maybe a cycle
        elif r < 0.78 and edges:
            a, b = rng.choice(edges)
            ops.append(("add_edge", b, a))                          # reversed existing edge: 2-cycle
        elif r < 0.82:
            a = rng.randrange(n)
            ops.append(("add_edge", a, a))                          # self edge
        elif r < 0.87:
            ops.append(("add_edge", rng.randrange(n), rng.randrange(n)))   # maybe dangling
        elif r < 0.95 and edges:
            a, b = rng.choice(edges)
            ops.append(("remove_edge", a, b))
            if rng.random() < 0.7:
                edges.remove((a, b))
        else:
            ops.append(("remove_edge", rng.randrange(n), rng.randrange(n)))
    return ops[:length]


def exotic_sequence(rng, n, length):
    ops = all_ops(n)
    return [rng.choice(ops) for _ in range(length)]


def classify_ops(case):
    """Histogram keys for the input distribution."""
    h = {}
    for br in case["branches"]:
        prev = case["start"]
        for op, o in br:
            if op[0] == "add_node":
                k = "add_node:new" if o["adj"] != prev else "add_node:existing"
            elif op[0] == "add_edge":
                if o["kind"] == 1:
                    k = "add_edge:missing-src(ValueError)"
                elif o["kind"] == 2:
                    k = "add_edge:cycle(Exception)"
                elif o["kind"] == 0 and o["adj"] != prev:
                    k = "add_edge:accepted"
                elif op[1] == op[2]:
                    k = "add_edge:self"
                else:
                    keys = [x[0] for x in prev]
                    if op[2] not in keys:
                        k = "add_edge:missing-dest"
                    else:
                        k = "add_edge:duplicate-or-other"
            else:
                if o["kind"] == 1:
                    k = "remove_edge:absent-edge(ValueError)"
                elif o["adj"] != prev:
                    k = "remove_edge:removed"
                else:
                    k = "remove_edge:missing-node"
            if o["kind"] == 9:
                k = "other-exception"
            h[k] = h.get(k, 0) + 1
            prev = o["adj"]
    return h


# ----------------------------------------------------------------------------
# evaluation
# ----------------------------------------------------------------------------
def evaluate(tag, cases, fn="check_case", timeout=1500):
    if not cases:
        return [], []
    lits = [g_case(c) for c in cases]
    # balance shards over the cores; a case of the trie streams has many branches
    size = sum(len(l) for l in lits)
    nshard = max(1, min(8, size // 50000 + 1, len(lits)))   # more than ~8 parallel coqc thrash this VM
    shard = max(1, min(400, (len(lits) + nshard - 1) // nshard))
    return common.coq_failing(tag, HEADER, "case", fn, lits, shard=shard, timeout=timeout)


def single_branch_prefixes(case):
    """Candidate reductions of a failing case: one branch, every prefix."""
    out = []
    for br in case["branches"]:
        for k in range(1, len(br) + 1):
            out.append({"n": case["n"], "setup": case["setup"], "start": case["start"],
                        "branches": [br[:k]], "stream": case.get("stream", "")})
    return out


def strip(case):
    """The replayable part of a case (inputs only)."""
    return {"n": case["n"], "setup": case["setup"],
            "branches": [[op for op, _ in br] for br in case["branches"]]}


def flatten(case):
    """setup + the (single) branch as one sequence from the empty DAG."""
    assert len(case["branches"]) == 1
    return case["setup"] + [op for op, _ in case["branches"][0]]


def shrink(DAG, case, fn, rounds=12):
    """case has one branch and fails `fn`.  Drop operations while it still fails."""
    seq = [tuple(o) for o in flatten(case)]
    n = case["n"]
    best = build_case(DAG, n, [], [seq])
    bad, errs = evaluate("C14_shrink", [best], fn)
    if errs or not bad:
        return case            # the flattened form does not fail (should not happen): keep
    for _ in range(rounds):
        cands = [seq[:i] + seq[i + 1:] for i in range(len(seq))]
        cands = [c for c in cands if c]
        if not cands:
            break
        built = [build_case(DAG, n, [], [c]) for c in cands]
        bad, errs = evaluate("C14_shrink", built, fn)
        if errs or not bad:
            break
        seq = cands[bad[0]]
        best = built[bad[0]]
    return best


def model_text(case):
    """The model's observables for a (one-branch) case, as Coq prints them."""
    ops = ";".join(g_op(o) for o in flatten(case))
    return common.coq_eval("C14_model", HEADER, "model_trace %d [] [%s]" % (case["n"], ops))[-6000:]


def describe(case):
    """Which conjunct of the monitor fails where -- computed in python only to
    word the message; the verdict itself came from Coq."""
    for br in case["branches"]:
        prev = case["start"]
        for op, o in br:
            if o["cyc"] == 1:
                return "after %s the table %s contains a cycle (detect_cycle() is True)" % (op, o["adj"])
            if o["kind"] != 0 and o["adj"] != prev:
                return "%s raised but changed the table from %s to %s" % (op, prev, o["adj"])
            prev = o["adj"]
    return "C14_ok is false on the implementation's observables"


def process(ck, DAG, cases, tag):
    """Evaluate, classify and record.  Returns number of failing cases."""
    bad, errs = evaluate(tag, cases)
    for e in errs:
        ck.mismatch("coqc failed on cases file " + e[0], None, e[1])
    if not bad:
        return 0
    # reduce to single-branch prefixes, then classify monitor vs correspondence
    cands = []
    for i in bad[:30]:
        cands.extend(single_branch_prefixes(cases[i]))
    badc, errs = evaluate(tag + "_red", cands)
    badm, errs2 = evaluate(tag + "_mon", [cands[i] for i in badc], fn="monitor_ok")
    for e in errs + errs2:
        ck.mismatch("coqc failed on reduced cases " + e[0], None, e[1])
    failing = [cands[i] for i in badc]
    mon = set(badm)
    viol = [c for j, c in enumerate(failing) if j in mon]
    mism = [c for j, c in enumerate(failing) if j not in mon]
    key = lambda c: len(c["setup"]) + len(c["branches"][0])
    if viol:
        c = min(viol, key=key)
        c = shrink(DAG, c, "monitor_ok")
        ck.violation(describe(c), dict(strip(c), observed=c["branches"], stream=c.get("stream", "")))
    if mism:
        c = min(mism, key=key)
        c = shrink(DAG, c, "check_case")
        ck.mismatch("model and DAG class disagree", dict(strip(c), observed=c["branches"]), model_text(c))
    if not viol and not mism and not errs and not errs2:
        # failing as a whole but no single-branch prefix fails: start state itself
        c = cases[bad[0]]
        ck.mismatch("case fails only as a whole (start table differs from the model's?)",
                    dict(strip(c), start=c["start"]), "")
    return len(bad)


def load_corpus(DAG):
    cases = []
    for p in sorted(glob.glob(os.path.join(common.CORPUS, PID, "*.json"))):
        j = json.load(open(p))
        j = j.get("case", j)
        c = build_case(DAG, j["n"], [tuple(o) for o in j.get("setup", [])],
                       [[tuple(o) for o in br] for br in j["branches"]])
        c["stream"] = "corpus:" + os.path.basename(p)
        cases.append(c)
    return cases


def budgets(tier):
    if tier == "thorough":
        return dict(nodedup=(3, 4), states=[(3, 6), (4, 5)], random=3000, exotic=1500)
    return dict(nodedup=(3, 3), states=[(3, 5), (4, 3)], random=250, exotic=150)


def generate(ck, DAG, tier, rng, hist):
    b = budgets(tier)
    cases = load_corpus(DAG)
    hist["corpus"] = len(cases)
    attrs = None
    try:
        attrs = sorted(vars(DAG()).keys())
    except Exception:
        pass
    stateful_only = attrs == ["adjacency_table", "values"]
    ck.notes["dag_attributes"] = attrs
    n0, L0 = b["nodedup"]
    cases += exhaustive_nodedup(DAG, n0, L0, hist)
    if stateful_only:
        for n, L in b["states"]:
            cases += exhaustive_states(DAG, n, L, hist)
    else:
        ck.notes["exh-states"] = "skipped: DAG objects carry attributes besides adjacency_table/values"
        if tier != "thorough":
            cases += exhaustive_nodedup(DAG, 3, 4, hist)
    nr = 0
    for _ in range(b["random"]):
        n = rng.randint(2, 10)
        seq = random_sequence(rng, n, rng.randint(n, 4 * n + 6))
        c = build_case(DAG, n, [], [seq])
        c["stream"] = "random"
        cases.append(c)
        nr += 1
    for _ in range(b["exotic"]):
        n = rng.randint(1, 5)
        seq = exotic_sequence(rng, n, rng.randint(1, 30))
        c = build_case(DAG, n, [], [seq])
        c["stream"] = "exotic"
        cases.append(c)
    hist["random sequences"] = nr
    hist["exotic sequences"] = b["exotic"]
    return cases


def account(ck, cases, hist):
    ops_h = {}
    sizes = {}
    for c in cases:
        h = classify_ops(c)
        for k, v in h.items():
            ops_h[k] = ops_h.get(k, 0) + v
        nsteps = sum(len(br) for br in c["branches"])
        # distinct = (start table, operation) pairs; non-trivial = an edge operation on a non-empty table
        for br in c["branches"]:
            prev = c["start"]
            for op, o in br:
                ck.count((json.dumps(prev), tuple(op)), nontrivial=bool(prev) and op[0] != "add_node")
                prev = o["adj"]
        if c.get("stream") in ("random", "exotic"):
            k = "%s: nodes=%d" % (c["stream"], len(c["branches"][0][-1][1]["adj"]) if c["branches"][0] else 0)
            sizes[k] = sizes.get(k, 0) + 1
        ck.cov["traces_validated_against_impl"] += len(c["branches"])
    hist["operations by outcome"] = ops_h
    hist["final node count of random/exotic sequences"] = dict(sorted(sizes.items()))


def run(ck):
    ck.build_proofs()
    DAG = _import_dag()
    rng = random.Random(ck.seed)
    hist = {}
    t0 = time.time()
    cases = generate(ck, DAG, ck.tier, rng, hist)
    ck.notes["impl_seconds"] = round(time.time() - t0, 1)
    account(ck, cases, hist)
    for c in cases:
        if c.get("stream") == "random":
            ck.sample({"n": c["n"], "ops": flatten(c), "final_table": c["branches"][0][-1][1]["adj"]}, limit=3)
    t1 = time.time()
    process(ck, DAG, cases, "C14")
    ck.notes["coq_seconds"] = round(time.time() - t1, 1)
    ck.cov["rule"] = (
        "corpus; every operation sequence (add_node/add_edge/remove_edge, all argument choices incl. self, dangling, "
        "duplicate, cycle-creating) up to the stated lengths over 3 and 4 names (trie without sharing, and with states "
        "reached twice explored once -- DAG objects hold only adjacency_table and values, checked); seeded structured "
        "random sequences on 2..10 nodes and uniformly random ones.  evaluation = one operation applied to the real DAG "
        "class with table, values keys, result kind, detect_cycle, topological_sort, bfs_subtree and dfs_subtree of every "
        "name compared with the model and C14_ok evaluated on the implementation's observable; distinct = (table before, "
        "operation); non-trivial = an edge operation on a non-empty table")
    ck.cov["input_distribution"] = hist

    def search():
        if ck.tier == "thorough":
            return None
        h2 = {}
        more = generate(ck, DAG, "thorough", random.Random(ck.seed + 1), h2)
        bad, errs = evaluate("C14_search", more, fn="monitor_ok")
        if not bad:
            return None
        cands = []
        for i in bad[:10]:
            cands.extend(single_branch_prefixes(more[i]))
        badm, _ = evaluate("C14_search_red", cands, fn="monitor_ok")
        if not badm:
            return None
        c = min((cands[i] for i in badm), key=lambda c: len(c["setup"]) + len(c["branches"][0]))
        c = shrink(DAG, c, "monitor_ok")
        return describe(c), dict(strip(c), observed=c["branches"])

    return ck.finish(search=search)


def replay(ck, path):
    DAG = _import_dag()
    j = json.load(open(path))
    j = j.get("case", j)
    if j is None:
        print("replay file holds no input (broken proof or correspondence without a failing input):")
        print(json.dumps(json.load(open(path)), indent=1)[:4000])
        return 1
    c = build_case(DAG, j["n"], [tuple(o) for o in j.get("setup", [])],
                   [[tuple(o) for o in br] for br in j["branches"]])
    print("implementation:")
    for br in c["branches"]:
        for op, o in br:
            print("  ", op, json.dumps(o))
    bad_all, e1 = evaluate("C14_replay", [c], fn="check_case")
    bad_mon, e2 = evaluate("C14_replay_m", [c], fn="monitor_ok")
    if len(c["branches"]) == 1:
        print("model:")
        print(model_text(c))
    for e in e1 + e2:
        print("coqc error:", e[1])
    mon_ok = not bad_mon and not e2
    corr_ok = not bad_all and not e1
    print("C14_ok on the implementation's observables: %s" % mon_ok)
    print("model agrees with implementation: %s" % (corr_ok or (mon_ok is False and None)))
    if not mon_ok:
        print("VIOLATION property=C14 replay=%s" % path)
        return 1
    if not corr_ok:
        print("VIOLATION property=C14 replay=%s no-failing-input-found" % path)
        return 1
    print("C14 ok (replay)")
    return 0

"""C14 -- the workflow graph stays acyclic and its orderings are exact.

Correspondence between maestrowf.datastructures.dag.DAG (the real class in
/repo) and the Gallina model coq/theories/Dag/DagModel.v, plus the monitor
`C14_ok` (the predicate Props/C14.v proves of the model) evaluated on the
implementation's observables.  Everything on the model side runs inside Coq
(vm_compute over generated cases files).

A case = (n names, setup operations, table after setup, branches); a branch is
a list of (operation, observable after it).  Observable after an operation:
adjacency table, keys of `values`, how the call ended, detect_cycle(),
topological_sort(), bfs_subtree(x)[0] and dfs_subtree(x)[0] for every name x
of the alphabet (present or not).

Streams:
  corpus        corpus/C14/*.json (always first)
  exh-nodedup   every operation sequence of length <= L0 over 3 names, as a
                trie: one case per prefix, one single-operation branch per
                operation (no assumption at all)
  exh-states    every operation sequence of length <= L over k names, with
                states reached by several sequences explored once (sound
                because a DAG object has no attributes besides adjacency_table
                and values -- checked on every run; otherwise this stream is
                replaced by exh-nodedup at the largest affordable bound)
  random        seeded structured sequences on 2..10 nodes (mostly valid:
                nodes first, edges mostly forward in a hidden order; the rest
                backward = cycle-creating, duplicate, dangling, self edges,
                removals of present/absent edges, re-added nodes)
  exotic        seeded uniformly random operations over a small alphabet

Objects: every stream runs on a plain `DAG`; the trie / probe / random / exotic
streams also run on fresh `ExecutionGraph` instances (a DAG subclass, the
operations are inherited) and on a fresh `Study` instance's own DAG API (it is
born with the node `_source`, which is name `n` of the case: the model's setup
gets `AddNode n` in front).

Process history: the streams above run in a process in which no study has been
staged; then a few small real studies are staged (harness.props.c08 builds
them exactly as maestro.run_study does) and the `history` streams run the
probe / trie / random sequences and the corpus again on FRESH objects of all
three kinds -- the monitor has to hold on every object whatever happened to
other objects before.  (Study.stage() switches detect_cycle off on the staged
ExecutionGraph instance itself, by design; that one object is not examined.)
"""
import copy
import glob
import json
import os
import random
import sys
import time

from harness import common

PID = "C14"

HEADER = """From Coq Require Import List Arith Bool.
From MWF Require Import Base.Util Dag.DagModel.
Import ListNotations.
Definition N_ := AddNode.
Definition A_ := AddEdge.
Definition R_ := RemoveEdge.
Definition K := TOk.
Definition E := TErr.
Definition O_ := mkObs.
Definition C_ := mkCase.
Definition P_ := SPrim.
Definition S_ := SAddStep.
Definition SC_ := mkSCase.
"""

UNKNOWN_NAME = 900      # a key of the implementation's table that is not in the alphabet


# ----------------------------------------------------------------------------
# the implementation side
# ----------------------------------------------------------------------------
def _import_dag():
    try:
        import logging
        logging.disable(logging.CRITICAL)      # the class logs every refusal
        from maestrowf.datastructures.dag import DAG
        return DAG
    except Exception as e:           # mutated tree may not import
        raise RuntimeError("cannot import maestrowf.datastructures.dag: %r" % (e,))


def name_of(i):
    return "step%d" % i


KINDS = ("DAG", "ExecutionGraph", "Study")
DEP_FORMS = ("", "_*", "*")        # how a dependency is written: plain, all-combinations forms
SOURCE_NAME = "_source"
_FACT = {}
_HIST = {"staged": 0, "ok": 0, "errors": {}}


def _factories(DAG):
    """kind -> callable returning a fresh object with the DAG API (or raising)."""
    if _FACT:
        return _FACT
    _FACT["DAG"] = DAG

    def mk_eg():
        from maestrowf.datastructures.core.executiongraph import ExecutionGraph
        return ExecutionGraph()

    def mk_study():
        from maestrowf.datastructures.core import Study, StudyEnvironment
        return Study("c14", {"name": "c14", "description": "dag api"}, studyenv=StudyEnvironment(),
                     out_path=os.path.join(common.WORK, "C14_hist", "plain"))

    _FACT["ExecutionGraph"] = mk_eg
    _FACT["Study"] = mk_study
    return _FACT


def pre_ops(kind, n):
    """Operations the object's constructor has already done (model side only)."""
    return [("add_node", n)] if kind == "Study" else []


def stage_history(rng, k):
    """Stage one small real study in this process (as maestro.run_study does)."""
    try:
        from harness.props import c08
        tiny = [c for c in c08.tiny_cases() if c["steps"][1]["run"].get("depends")]
        case = rng.choice(tiny)
        root = os.path.join(common.WORK, "C14_hist", "s%d" % k, "out")
        o, _, dag = c08.stage_real(case, root)
        _HIST["staged"] += 1
        if o.get("ok") and dag is not None:
            _HIST["ok"] += 1
        else:
            key = "%s:%s" % (o.get("err"), o.get("exc"))
            _HIST["errors"][key] = _HIST["errors"].get(key, 0) + 1
    except Exception as e:          # mutated tree: staging may be impossible
        _HIST["staged"] += 1
        key = "harness:%s" % type(e).__name__
        _HIST["errors"][key] = _HIST["errors"].get(key, 0) + 1


class Impl:
    """One live DAG object plus the translation names <-> numbers."""

    def __init__(self, DAG, n, kind="DAG"):
        self.n = n
        self.kind = kind
        self.idx = {name_of(i): i for i in range(n)}
        if kind == "Study":
            self.idx[SOURCE_NAME] = n
        self.error = None
        try:
            self.d = _factories(DAG)[kind]()
        except Exception as e:
            self.d = None
            self.error = "EXC:%s" % type(e).__name__

    def fork(self):
        o = Impl.__new__(Impl)
        o.n, o.idx, o.error, o.kind = self.n, self.idx, self.error, self.kind
        o.d = copy.deepcopy(self.d)
        return o

    def num(self, name):
        return self.idx.get(name, UNKNOWN_NAME)

    def nm(self, i):
        return SOURCE_NAME if (self.kind == "Study" and i == self.n) else name_of(i)

    def apply(self, op):
        """Returns the kind code: 0 returned, 1 ValueError, 2 Exception, 9 other."""
        try:
            if op[0] == "add_node":
                self.d.add_node(self.nm(op[1]), {"payload": op[1]})
            elif op[0] == "add_edge":
                self.d.add_edge(self.nm(op[1]), self.nm(op[2]))
            elif op[0] == "remove_edge":
                self.d.remove_edge(self.nm(op[1]), self.nm(op[2]))
            elif op[0] == "add_step":
                from maestrowf.datastructures.core import StudyStep
                st = StudyStep()
                st.name = name_of(op[1])
                st.description = "generated"
                st.run["cmd"] = "echo %d" % op[1]
                if op[2] is not None:
                    st.run["depends"] = [self.nm(d) + DEP_FORMS[f] for d, f in op[2]]
                self.d.add_step(st)
            else:
                raise AssertionError(op)
            return 0
        except AssertionError:
            raise
        except Exception as e:
            if type(e) is ValueError:
                return 1
            if type(e) is Exception:
                return 2
            return 9

    def table(self):
        try:
            return [[self.num(k), [self.num(c) for c in v]] for k, v in self.d.adjacency_table.items()]
        except Exception:
            return [[UNKNOWN_NAME, []]]

    def vals(self):
        try:
            return [self.num(k) for k in self.d.values.keys()]
        except Exception:
            return [UNKNOWN_NAME]

    def _trav(self, f):
        try:
            r = f()
            return ["ok", [self.num(x) for x in r]]
        except KeyError:
            return ["err", 1]
        except Exception:       # RecursionError on a cyclic table, ...
            return ["err", 9]

    def observe(self, kind):
        d = self.d
        try:
            c = d.detect_cycle()
            cyc = 1 if c is True else 0 if c is False else 9
        except Exception:
            cyc = 9
        return {
            "adj": self.table(),
            "vals": self.vals(),
            "kind": kind,
            "cyc": cyc,
            "topo": self._trav(lambda: list(d.topological_sort())),
            "bfs": [self._trav(lambda i=i: list(d.bfs_subtree(name_of(i))[0])) for i in range(self.n)],
            "dfs": [self._trav(lambda i=i: list(d.dfs_subtree(name_of(i))[0])) for i in range(self.n)],
        }

    def state_key(self):
        return json.dumps([self.table(), self.vals()])


def build_case(DAG, n, setup, branches, kind="DAG"):
    base = Impl(DAG, n, kind)
    for op in setup:
        base.apply(op)
    start = base.table()
    out = []
    for br in branches:
        im = base.fork()
        steps = []
        for op in br:
            k = im.apply(op)
            steps.append([list(op), im.observe(k)])
        out.append(steps)
    return {"n": n, "setup": [list(o) for o in setup], "start": start, "branches": out, "obj": kind,
            "hist": _HIST["staged"]}


# ----------------------------------------------------------------------------
# Gallina literals
# ----------------------------------------------------------------------------
def g_op(op):
    if op[0] == "add_node":
        return "N_ %d" % op[1]
    if op[0] == "add_edge":
        return "A_ %d %d" % (op[1], op[2])
    return "R_ %d %d" % (op[1], op[2])


def g_nats(l):
    return "[" + ";".join(str(x) for x in l) + "]"


def g_graph(t):
    return "[" + ";".join("(%d,%s)" % (k, g_nats(v)) for k, v in t) + "]"


def g_tres(r):
    return "K %s" % g_nats(r[1]) if r[0] == "ok" else "E %d" % r[1]


def g_obs(o):
    return "O_ %s %s %d %d (%s) [%s] [%s]" % (
        g_graph(o["adj"]), g_nats(o["vals"]), o["kind"], o["cyc"], g_tres(o["topo"]),
        ";".join(g_tres(r) for r in o["bfs"]), ";".join(g_tres(r) for r in o["dfs"]))


def g_case(c):
    brs = ";".join("[" + ";".join("(%s,%s)" % (g_op(op), g_obs(o)) for op, o in br) + "]" for br in c["branches"])
    setup = pre_ops(c.get("obj", "DAG"), c["n"]) + [tuple(o) for o in c["setup"]]
    return "C_ %d [%s] %s [%s]" % (c["n"], ";".join(g_op(o) for o in setup), g_graph(c["start"]), brs)


# ----------------------------------------------------------------------------
# generators
# ----------------------------------------------------------------------------
def all_ops(n):
    ops = [("add_node", a) for a in range(n)]
    ops += [("add_edge", a, b) for a in range(n) for b in range(n)]
    ops += [("remove_edge", a, b) for a in range(n) for b in range(n)]
    return ops


def exhaustive_nodedup(DAG, n, L, hist, kind="DAG", stream="exh-nodedup"):
    """Every sequence of length <= L: one case per prefix of length < L, whose
    branches are the single next operations (trie; nothing is shared)."""
    ops = all_ops(n)
    cases = []

    def rec(impl, prefix):
        start = impl.table()
        brs = []
        kids = []
        for op in ops:
            im = impl.fork()
            k = im.apply(op)
            brs.append([[list(op), im.observe(k)]])
            kids.append(im)
        cases.append({"n": n, "setup": [list(o) for o in prefix], "start": start, "branches": brs,
                      "stream": stream, "obj": kind, "hist": _HIST["staged"]})
        if len(prefix) + 1 < L:
            for op, im in zip(ops, kids):
                rec(im, prefix + [op])

    rec(Impl(DAG, n, kind), [])
    hist["%s %s n=%d len<=%d sequences" % (stream, kind, n, L)] = sum(len(ops) ** i for i in range(1, L + 1))
    return cases


def exhaustive_states(DAG, n, L, hist):
    """Every sequence of length <= L, states reached by several sequences
    explored once (first = shortest path)."""
    ops = all_ops(n)
    cases = []
    root = Impl(DAG, n)
    seen = {root.state_key()}
    frontier = [(root, [])]
    transitions = 0
    for depth in range(L):
        nxt = []
        for impl, path in frontier:
            start = impl.table()
            brs = []
            for op in ops:
                im = impl.fork()
                k = im.apply(op)
                brs.append([[list(op), im.observe(k)]])
                transitions += 1
                key = im.state_key()
                if key not in seen:
                    seen.add(key)
                    nxt.append((im, path + [op]))
            cases.append({"n": n, "setup": [list(o) for o in path], "start": start, "branches": brs,
                          "stream": "exh-states", "obj": "DAG", "hist": _HIST["staged"]})
        frontier = nxt
    hist["exh-states n=%d len<=%d: states expanded" % (n, L)] = len(cases)
    hist["exh-states n=%d len<=%d: transitions checked" % (n, L)] = transitions
    hist["exh-states n=%d len<=%d: sequences covered" % (n, L)] = sum(len(ops) ** i for i in range(1, L + 1))
    return cases


PROBE_SETUPS = [
    (2, [("add_node", 0), ("add_node", 1), ("add_edge", 0, 1)]),
    (3, [("add_node", 0), ("add_node", 1), ("add_node", 2), ("add_edge", 0, 1), ("add_edge", 1, 2)]),
    (3, [("add_node", 2), ("add_node", 0), ("add_node", 1), ("add_edge", 2, 1), ("add_edge", 1, 0)]),
    (4, [("add_node", 0), ("add_node", 1), ("add_node", 2), ("add_node", 3), ("add_edge", 0, 1),
         ("add_edge", 0, 2), ("add_edge", 1, 3), ("add_edge", 2, 3)]),
]


def probes(DAG, kind, stream, hist):
    """From a few built tables (edge, chains, diamond): every single next
    operation, and every pair (edge operation, any operation) -- so that a
    cycle-closing edge that was wrongly accepted is also operated on."""
    cases = []
    for n, setup in PROBE_SETUPS:
        ops = all_ops(n)
        edge_ops = [o for o in ops if o[0] == "add_edge" and o[1] != o[2]]
        brs = [[o] for o in ops]
        if n <= 3:
            brs += [[a, b] for a in edge_ops for b in ops]
        c = build_case(DAG, n, setup, brs, kind)
        c["stream"] = stream
        cases.append(c)
        k = "%s %s: (table, branch) pairs" % (stream, kind)
        hist[k] = hist.get(k, 0) + len(brs)
    return cases


def random_sequence(rng, n, length):
    """Structured, mostly valid."""
    order = list(range(n))
    rng.shuffle(order)                 # hidden topological order
    pos = {v: i for i, v in enumerate(order)}
    present, edges = [], []
    ops = []
    # most nodes first, a few later
    first = [v for v in range(n) if rng.random() < 0.8]
    rng.shuffle(first)
    for v in first:
        ops.append(("add_node", v))
        present.append(v)
    while len(ops) < length:
        r = rng.random()
        if r < 0.08 and len(present) < n:
            v = rng.choice([x for x in range(n) if x not in present])
            ops.append(("add_node", v))
            present.append(v)
        elif r < 0.11:
            ops.append(("add_node", rng.randrange(n)))              # maybe duplicate
        elif r < 0.60 and len(present) >= 2:
            a, b = rng.sample(present, 2)
            if pos[a] > pos[b]:
                a, b = b, a
            ops.append(("add_edge", a, b))                          # forward: valid or duplicate
            if (a, b) not in edges:
                edges.append((a, b))
        elif r < 0.74 and len(present) >= 2:
            a, b = rng.sample(present, 2)
            ops.append(("add_edge", a, b))                          # any direction: maybe a cycle
        elif r < 0.78 and edges:
            a, b = rng.choice(edges)
            ops.append(("add_edge", b, a))                          # reversed existing edge: 2-cycle
        elif r < 0.82:
            a = rng.randrange(n)
            ops.append(("add_edge", a, a))                          # self edge
        elif r < 0.87:
            ops.append(("add_edge", rng.randrange(n), rng.randrange(n)))   # maybe dangling
        elif r < 0.95 and edges:
            a, b = rng.choice(edges)
            ops.append(("remove_edge", a, b))
            if rng.random() < 0.7:
                edges.remove((a, b))
        else:
            ops.append(("remove_edge", rng.randrange(n), rng.randrange(n)))
    return ops[:length]


def exotic_sequence(rng, n, length):
    ops = all_ops(n)
    return [rng.choice(ops) for _ in range(length)]


def classify_ops(case):
    """Histogram keys for the input distribution."""
    h = {}
    for br in case["branches"]:
        prev = case["start"]
        for op, o in br:
            if op[0] == "add_node":
                k = "add_node:new" if o["adj"] != prev else "add_node:existing"
            elif op[0] == "add_edge":
                if o["kind"] == 1:
                    k = "add_edge:missing-src(ValueError)"
                elif o["kind"] == 2:
                    k = "add_edge:cycle(Exception)"
                elif o["kind"] == 0 and o["adj"] != prev:
                    k = "add_edge:accepted"
                elif op[1] == op[2]:
                    k = "add_edge:self"
                else:
                    keys = [x[0] for x in prev]
                    if op[2] not in keys:
                        k = "add_edge:missing-dest"
                    else:
                        k = "add_edge:duplicate-or-other"
            else:
                if o["kind"] == 1:
                    k = "remove_edge:absent-edge(ValueError)"
                elif o["adj"] != prev:
                    k = "remove_edge:removed"
                else:
                    k = "remove_edge:missing-node"
            if o["kind"] == 9:
                k = "other-exception"
            h[k] = h.get(k, 0) + 1
            prev = o["adj"]
    return h


# ----------------------------------------------------------------------------
# evaluation
# ----------------------------------------------------------------------------
def evaluate(tag, cases, fn="check_case", timeout=1500):
    if not cases:
        return [], []
    lits = [g_case(c) for c in cases]
    # balance shards over the cores; a case of the trie streams has many branches
    size = sum(len(l) for l in lits)
    nshard = max(1, min(8, size // 50000 + 1, len(lits)))   # more than ~8 parallel coqc thrash this VM
    shard = max(1, min(400, (len(lits) + nshard - 1) // nshard))
    return common.coq_failing(tag, HEADER, "case", fn, lits, shard=shard, timeout=timeout)


def single_branch_prefixes(case):
    """Candidate reductions of a failing case: one branch, every prefix."""
    out = []
    for br in case["branches"]:
        for k in range(1, len(br) + 1):
            out.append({"n": case["n"], "setup": case["setup"], "start": case["start"],
                        "branches": [br[:k]], "stream": case.get("stream", ""),
                        "obj": case.get("obj", "DAG"), "hist": case.get("hist", 0)})
    return out


def strip(case):
    """The replayable part of a case (inputs only)."""
    return {"n": case["n"], "setup": case["setup"], "obj": case.get("obj", "DAG"),
            "hist": case.get("hist", 0),
            "branches": [[op for op, _ in br] for br in case["branches"]]}


def flatten(case):
    """setup + the (single) branch as one sequence from the empty DAG."""
    assert len(case["branches"]) == 1
    return case["setup"] + [op for op, _ in case["branches"][0]]


def shrink(DAG, case, fn, rounds=12, keep=None):
    """case has one branch and fails `fn`.  Drop operations while it still fails."""
    seq = [tuple(o) for o in flatten(case)]
    n = case["n"]
    kind = case.get("obj", "DAG")
    stream = case.get("stream", "")
    best = build_case(DAG, n, [], [seq], kind)
    best["stream"] = stream
    bad, errs = evaluate("C14_shrink", [best], fn)
    if errs or not bad:
        return case            # the flattened form does not fail (should not happen): keep
    for _ in range(rounds):
        cands = [seq[:i] + seq[i + 1:] for i in range(len(seq))]
        cands = [c for c in cands if c]
        if not cands:
            break
        built = [build_case(DAG, n, [], [c], kind) for c in cands]
        bad, errs = evaluate("C14_shrink", built, fn)
        if keep is not None:
            bad = [i for i in bad if keep(built[i])]
        if errs or not bad:
            break
        seq = cands[bad[0]]
        best = built[bad[0]]
        best["stream"] = stream
    return best


def model_text(case):
    """The model's observables for a (one-branch) case, as Coq prints them."""
    ops = ";".join(g_op(o) for o in pre_ops(case.get("obj", "DAG"), case["n"]) + [tuple(o) for o in flatten(case)])
    return common.coq_eval("C14_model", HEADER, "model_trace %d [] [%s]" % (case["n"], ops))[-6000:]


def table_cyclic(adj):
    """python-side, used only to word messages and to steer the shrinker"""
    t = {k: v for k, v in adj}
    seen, stack = set(), set()

    def go(v):
        seen.add(v)
        stack.add(v)
        for c in t.get(v, []):
            if c in stack or (c not in seen and go(c)):
                return True
        stack.discard(v)
        return False
    return any(v not in seen and go(v) for v in list(t))


def shows_cycle(case):
    return any(table_cyclic(o["adj"]) for br in case["branches"] for _, o in br)


def describe(case):
    """Which conjunct of the monitor fails where -- computed in python only to
    word the message; the verdict itself came from Coq."""
    where = "on a fresh %s object" % case.get("obj", "DAG")
    if case.get("hist"):
        where += " (after %d studies were staged in the same process)" % case["hist"]

    for br in case["branches"]:
        for op, o in br:
            if table_cyclic(o["adj"]):
                return "%s: %s was accepted/left in the table, which now contains a cycle: %s (how the call ended: %s, its detect_cycle() code: %s)" % (
                    where, op, o["adj"], o["kind"], o["cyc"])
    for br in case["branches"]:
        prev = case["start"]
        for op, o in br:
            if o["cyc"] == 1 or table_cyclic(o["adj"]):
                return "%s: after %s the table %s contains a cycle (its detect_cycle() code: %s)" % (
                    where, op, o["adj"], o["cyc"])
            if o["kind"] != 0 and o["adj"] != prev:
                return "%s: %s raised but changed the table from %s to %s" % (where, op, prev, o["adj"])
            if o["cyc"] != 0:
                return "%s: after %s detect_cycle() did not answer False (code %s)" % (where, op, o["cyc"])
            prev = o["adj"]
    return "%s: C14_ok is false on the implementation's observables" % where


def process(ck, DAG, cases, tag):
    """Evaluate, classify and record.  Returns number of failing cases."""
    bad, errs = evaluate(tag, cases)
    for e in errs:
        ck.mismatch("coqc failed on cases file " + e[0], None, e[1])
    if not bad:
        return 0
    # reduce to single-branch prefixes, then classify monitor vs correspondence
    cands = []
    for i in bad[:30]:
        cands.extend(single_branch_prefixes(cases[i]))
    badc, errs = evaluate(tag + "_red", cands)
    badm, errs2 = evaluate(tag + "_mon", [cands[i] for i in badc], fn="monitor_ok")
    for e in errs + errs2:
        ck.mismatch("coqc failed on reduced cases " + e[0], None, e[1])
    failing = [cands[i] for i in badc]
    mon = set(badm)
    viol = [c for j, c in enumerate(failing) if j in mon]
    mism = [c for j, c in enumerate(failing) if j not in mon]
    key = lambda c: len(c["setup"]) + len(c["branches"][0])
    if viol:
        # prefer a witness in which a cycle is actually in the table
        cyc = [c for c in viol if shows_cycle(c)]
        if cyc:
            c = shrink(DAG, min(cyc, key=key), "monitor_ok", keep=shows_cycle)
        else:
            c = shrink(DAG, min(viol, key=key), "monitor_ok")
        ck.violation(describe(c), dict(strip(c), observed=c["branches"], stream=c.get("stream", "")))
    if mism:
        c = min(mism, key=key)
        c = shrink(DAG, c, "check_case")
        ck.mismatch("model and DAG class disagree", dict(strip(c), observed=c["branches"]), model_text(c))
    if not viol and not mism and not errs and not errs2:
        # failing as a whole but no single-branch prefix fails: start state itself
        c = cases[bad[0]]
        ck.mismatch("case fails only as a whole (start table differs from the model's?)",
                    dict(strip(c), start=c["start"]), "")
    return len(bad)



# ----------------------------------------------------------------------------
# the Study API stream: add_step (+ inherited operations) on ONE Study object
# ----------------------------------------------------------------------------
def g_sop(op):
    if op[0] == "add_step":
        return "S_ %d %s" % (op[1], g_nats([d for d, _ in (op[2] or [])]))
    return "P_ (%s)" % g_op(op)


def g_scase(c):
    return "SC_ %d [%s]" % (c["n"], ";".join("(%s,%s)" % (g_sop(op), g_obs(o)) for op, o in c["steps"]))


def build_scase(DAG, n, seq, stream=""):
    im = Impl(DAG, n, "Study")
    steps = []
    for op in seq:
        k = im.apply(op)
        steps.append([op_json(op), im.observe(k)])
    return {"api": "study", "n": n, "steps": steps, "stream": stream, "hist": _HIST["staged"]}


def op_json(op):
    if op[0] == "add_step":
        return ["add_step", op[1], None if op[2] is None else [list(d) for d in op[2]]]
    return list(op)


def op_tuple(op):
    if op[0] == "add_step":
        return ("add_step", op[1], None if op[2] is None else [tuple(d) for d in op[2]])
    return tuple(op)


def dep_lists(names, maxlen, forms=(0,)):
    out = [[]]
    cur = [[]]
    for _ in range(maxlen):
        cur = [l + [(d, f)] for l in cur for d in names for f in forms]
        out += cur
    return out


def study_exhaustive(DAG, n, L, maxdeps, hist, stream):
    """Every sequence of <= L add_step calls over n names whose depends lists
    have <= maxdeps entries over the same names (so: valid, unknown, self at
    every position, duplicates), each followed by one cycle-probing tail."""
    ops = [("add_step", x, dl) for x in range(n) for dl in dep_lists(range(n), maxdeps)]
    seqs = [[]]
    allseq = []
    for _ in range(L):
        seqs = [s_ + [o] for s_ in seqs for o in ops]
        allseq += seqs
    tail = [("add_edge", 1 % n, 0), ("add_edge", 0, 1 % n), ("add_step", n - 1, [(0, 1)])]
    cases = [build_scase(DAG, n, s_ + tail, stream) for s_ in allseq]
    # the three ways of writing a dependency, one call
    for x in range(n):
        for dl in dep_lists(range(n), min(2, maxdeps), forms=(0, 1, 2)):
            if any(f for _, f in dl):
                cases.append(build_scase(DAG, n, [("add_step", (x + 1) % n, [])] + [("add_step", x, dl)] + tail[:2], stream))
    hist["%s n=%d: add_step sequences of length<=%d, depends lists of length<=%d" % (stream, n, L, maxdeps)] = len(cases)
    return cases


def study_random_sequence(rng, n, length):
    """Mostly add_step in a sensible order, with every rejection kind mixed in,
    and inherited DAG operations (also from/to _source = name n) in between."""
    ops, present = [], []
    while len(ops) < length:
        r = rng.random()
        if r < 0.62:
            fresh = [x for x in range(n) if x not in present]
            x = rng.choice(fresh) if fresh and rng.random() < 0.85 else rng.randrange(n)
            k = rng.choice([0, 1, 1, 2, 2, 3, 4])
            deps = []
            for _ in range(k):
                q = rng.random()
                if q < 0.6 and present:
                    d = rng.choice(present)                 # a step that exists (or was half-added)
                elif q < 0.75:
                    d = x                                   # itself
                elif q < 0.9:
                    d = rng.randrange(n)                    # maybe unknown
                elif deps:
                    d = rng.choice(deps)[0]                 # duplicate
                else:
                    d = rng.randrange(n)
                deps.append((d, rng.choice([0, 0, 0, 1, 1, 2])))
            if rng.random() < 0.1:
                deps = None if rng.random() < 0.5 else deps     # no 'depends' key at all
            ops.append(("add_step", x, deps))
            if x not in present:
                present.append(x)
        elif r < 0.80:
            a = rng.choice(present + [n]) if present else n
            b = rng.choice(present) if present else rng.randrange(n)
            ops.append(("add_edge", a, b))
        elif r < 0.88:
            ops.append(("add_edge", rng.randrange(n + 1), rng.randrange(n)))
        elif r < 0.96:
            ops.append(("remove_edge", rng.randrange(n + 1), rng.randrange(n)))
        else:
            ops.append(("add_node", rng.randrange(n)))
    return ops


def study_cases(DAG, tier, rng, hist, after_history):
    tag = "history-study-api" if after_history else "study-api"
    cases = []
    if not after_history:
        for p in sorted(glob.glob(os.path.join(common.CORPUS, PID, "study_*.json"))):
            j = json.load(open(p))
            j = j.get("case", j)
            cases.append(build_scase(DAG, j["n"], [op_tuple(o) for o in j["ops"]], "corpus:" + os.path.basename(p)))
    if tier == "thorough":
        cases += study_exhaustive(DAG, 2, 3, 2, hist, tag + "-exh") if not after_history else []
        cases += study_exhaustive(DAG, 3, 2, 2, hist, tag + "-exh")
        nr = 1500
    else:
        cases += study_exhaustive(DAG, 2, 2, 2, hist, tag + "-exh")
        if not after_history:
            cases += study_exhaustive(DAG, 3, 1, 2, hist, tag + "-exh")
        nr = 90
    for _ in range(nr):
        n = rng.randint(2, 7)
        cases.append(build_scase(DAG, n, study_random_sequence(rng, n, rng.randint(2, 3 * n + 2)), tag + "-random"))
    hist[tag + "-random sequences"] = nr
    return cases


def evaluate_s(tag, cases, fn="scheck_case", timeout=1500):
    if not cases:
        return [], []
    lits = [g_scase(c) for c in cases]
    size = sum(len(l) for l in lits)
    nshard = max(1, min(8, size // 50000 + 1, len(lits)))
    shard = max(1, min(400, (len(lits) + nshard - 1) // nshard))
    return common.coq_failing(tag, HEADER, "scase", fn, lits, shard=shard, timeout=timeout)


def table_wellformed(adj):
    keys = [k for k, _ in adj]
    return len(set(keys)) == len(keys) and all(c in keys for _, v in adj for c in v)


def describe_s(case):
    where = "on a Study object"
    if case.get("hist"):
        where += " (after %d studies were staged in the same process)" % case["hist"]
    for op, o in case["steps"]:
        if not table_wellformed(o["adj"]):
            return "%s: after %s (ended with kind %s) the table %s has an edge to a node that does not exist; topological_sort: %s" % (
                where, op, o["kind"], o["adj"], o["topo"])
        if table_cyclic(o["adj"]):
            return "%s: after %s the table %s contains a cycle" % (where, op, o["adj"])
        if o["cyc"] != 0 or o["topo"][0] != "ok":
            return "%s: after %s detect_cycle()/topological_sort() failed: %s %s" % (where, op, o["cyc"], o["topo"])
    return "%s: C14_study_ok is false on the implementation's observables" % where


def shrink_s(DAG, case, fn, rounds=14):
    seq = [op_tuple(o) for o, _ in case["steps"]]
    n = case["n"]
    best = case
    for _ in range(rounds):
        cands = [seq[:i] + seq[i + 1:] for i in range(len(seq))]
        for i, o in enumerate(seq):                      # drop one dependency
            if o[0] == "add_step" and o[2]:
                for j in range(len(o[2])):
                    cands.append(seq[:i] + [("add_step", o[1], o[2][:j] + o[2][j + 1:])] + seq[i + 1:])
        cands = [c for c in cands if c]
        if not cands:
            break
        built = [build_scase(DAG, n, c, case.get("stream", "")) for c in cands]
        bad, errs = evaluate_s("C14_sshrink", built, fn)
        if errs or not bad:
            break
        seq, best = cands[bad[0]], built[bad[0]]
    return best


def strip_s(case):
    return {"api": "study", "n": case["n"], "hist": case.get("hist", 0), "stream": case.get("stream", ""),
            "ops": [op for op, _ in case["steps"]]}


def model_text_s(case):
    ops = ";".join(g_sop(op_tuple(o)) for o, _ in case["steps"])
    return common.coq_eval("C14_smodel", HEADER, "model_strace %d %d (study_start %d) [%s]" % (
        case["n"], case["n"], case["n"], ops))[-6000:]


def process_s(ck, DAG, cases):
    bad, errs = evaluate_s("C14_study", cases)
    for e in errs:
        ck.mismatch("coqc failed on cases file " + e[0], None, e[1])
    if not bad:
        return 0
    cands = []
    for i in bad[:30]:
        c = cases[i]
        for k in range(1, len(c["steps"]) + 1):
            cands.append(dict(c, steps=c["steps"][:k]))
    badc, e1 = evaluate_s("C14_study_red", cands)
    failing = [cands[i] for i in badc]
    badm, e2 = evaluate_s("C14_study_mon", failing, fn="smonitor_ok")
    for e in e1 + e2:
        ck.mismatch("coqc failed on reduced cases " + e[0], None, e[1])
    mon = set(badm)
    viol = [c for j, c in enumerate(failing) if j in mon]
    mism = [c for j, c in enumerate(failing) if j not in mon]
    key = lambda c: len(c["steps"])
    if viol:
        c = shrink_s(DAG, min(viol, key=key), "smonitor_ok")
        ck.violation(describe_s(c), dict(strip_s(c), observed=c["steps"]))
    if mism:
        c = shrink_s(DAG, min(mism, key=key), "scheck_case")
        ck.mismatch("model of Study.add_step and the Study class disagree", dict(strip_s(c), observed=c["steps"]),
                    model_text_s(c))
    return len(bad)


def classify_step(op, prev, o):
    if o["kind"] == 9:
        return "add_step:other-exception"
    keys = [k for k, _ in prev]
    deps = op[2] or []
    if op[1] in keys:
        return "add_step:name-taken(ValueError)"
    if o["kind"] == 0:
        return "add_step:accepted" + ("(no depends -> _source)" if not deps else "")
    for i, (d, _) in enumerate(deps):
        if d == op[1]:
            return "add_step:self-dependency at position %d of %d(ValueError)" % (i, len(deps))
        if d not in keys:
            return "add_step:unknown dependency at position %d of %d(ValueError)" % (i, len(deps))
    return "add_step:raised-other"


def account_s(ck, cases, hist):
    h = {}
    for c in cases:
        prev = [[c["n"], []]]
        for op, o in c["steps"]:
            if op[0] == "add_step":
                k = classify_step(op, prev, o)
                if o["kind"] == 0 and len({d for d, _ in (op[2] or [])}) < len(op[2] or []):
                    k += "+duplicate"
                if any(f for _, f in (op[2] or [])):
                    h["add_step:with a _* / * dependency"] = h.get("add_step:with a _* / * dependency", 0) + 1
            else:
                k = "inherited %s on a study table" % op[0]
            h[k] = h.get(k, 0) + 1
            ck.count(("Study-api", bool(c.get("hist")), json.dumps(prev), json.dumps(op)),
                     nontrivial=op[0] != "add_node" and len(prev) > 1)
            prev = o["adj"]
        ck.cov["traces_validated_against_impl"] += 1
    hist["Study API operations by outcome"] = dict(sorted(h.items()))


def load_corpus(DAG, kinds=("DAG",), tag="corpus"):
    cases = []
    for p in sorted(glob.glob(os.path.join(common.CORPUS, PID, "*.json"))):
        if os.path.basename(p).startswith("study_"):
            continue
        j = json.load(open(p))
        j = j.get("case", j)
        for kind in kinds:
            c = build_case(DAG, j["n"], [tuple(o) for o in j.get("setup", [])],
                           [[tuple(o) for o in br] for br in j["branches"]], kind)
            c["stream"] = "%s:%s" % (tag, os.path.basename(p))
            cases.append(c)
    return cases


def budgets(tier):
    if tier == "thorough":
        return dict(nodedup=(3, 4), states=[(3, 6), (4, 5)], random=3000, exotic=1500,
                    sub_nodedup=(3, 3), hist_nodedup=(3, 2), hist_random=1200, hist_exotic=400, stagings=4)
    return dict(nodedup=(3, 3), states=[(3, 5), (4, 3)], random=250, exotic=150,
                sub_nodedup=(2, 3), hist_nodedup=(2, 2), hist_random=80, hist_exotic=30, stagings=2)


def pick_kind(rng):
    r = rng.random()
    return "DAG" if r < 0.4 else "ExecutionGraph" if r < 0.75 else "Study"


def sequences(DAG, rng, hist, n_random, n_exotic, stream_r, stream_e, kind_of):
    cases = []
    for _ in range(n_random):
        n = rng.randint(2, 10)
        seq = random_sequence(rng, n, rng.randint(n, 4 * n + 6))
        c = build_case(DAG, n, [], [seq], kind_of(rng))
        c["stream"] = stream_r
        cases.append(c)
    for _ in range(n_exotic):
        n = rng.randint(1, 5)
        seq = exotic_sequence(rng, n, rng.randint(1, 30))
        c = build_case(DAG, n, [], [seq], kind_of(rng))
        c["stream"] = stream_e
        cases.append(c)
    hist["%s sequences" % stream_r] = n_random
    hist["%s sequences" % stream_e] = n_exotic
    return cases


def generate(ck, DAG, tier, rng, hist):
    b = budgets(tier)
    cases = load_corpus(DAG)
    hist["corpus"] = len(cases)
    attrs = None
    try:
        attrs = sorted(vars(DAG()).keys())
    except Exception:
        pass
    stateful_only = attrs == ["adjacency_table", "values"]
    ck.notes["dag_attributes"] = attrs
    n0, L0 = b["nodedup"]
    cases += exhaustive_nodedup(DAG, n0, L0, hist)
    if stateful_only:
        for n, L in b["states"]:
            cases += exhaustive_states(DAG, n, L, hist)
    else:
        ck.notes["exh-states"] = "skipped: DAG objects carry attributes besides adjacency_table/values"
        if tier != "thorough":
            cases += exhaustive_nodedup(DAG, 3, 4, hist)
    # the other two kinds of object, no study staged so far in this process
    if _HIST["staged"]:
        ck.notes["history"] = "a study had already been staged in this process before the no-history streams"
    n1, L1 = b["sub_nodedup"]
    for kind in KINDS[1:]:
        cases += exhaustive_nodedup(DAG, n1, L1, hist, kind)
        cases += probes(DAG, kind, "probe", hist)
    cases += probes(DAG, "DAG", "probe", hist)
    cases += sequences(DAG, rng, hist, b["random"], b["exotic"], "random", "exotic", pick_kind)
    # process history: stage real studies, then fresh objects again
    n2, L2 = b["hist_nodedup"]
    for k in range(b["stagings"]):
        stage_history(rng, k)
        if k == 0:
            cases += load_corpus(DAG, KINDS, "history-corpus")
            for kind in KINDS:
                cases += probes(DAG, kind, "history-probe", hist)
                cases += exhaustive_nodedup(DAG, n2, L2, hist, kind, "history-exh-nodedup")
        cases += sequences(DAG, rng, {}, b["hist_random"] // b["stagings"], b["hist_exotic"] // b["stagings"],
                           "history-random", "history-exotic", pick_kind)
    hist["history-random sequences"] = (b["hist_random"] // b["stagings"]) * b["stagings"]
    hist["history-exotic sequences"] = (b["hist_exotic"] // b["stagings"]) * b["stagings"]
    hist["studies staged in this process"] = dict(_HIST, errors=dict(_HIST["errors"]))
    import shutil
    shutil.rmtree(os.path.join(common.WORK, "C14_hist"), ignore_errors=True)
    return cases


def account(ck, cases, hist):
    ops_h = {}
    sizes = {}
    kinds = {}
    for c in cases:
        h = classify_ops(c)
        for k, v in h.items():
            ops_h[k] = ops_h.get(k, 0) + v
        nsteps = sum(len(br) for br in c["branches"])
        # distinct = (start table, operation) pairs; non-trivial = an edge operation on a non-empty table
        for br in c["branches"]:
            prev = c["start"]
            for op, o in br:
                ck.count((c.get("obj", "DAG"), bool(c.get("hist")), json.dumps(prev), tuple(op)),
                         nontrivial=bool(prev) and op[0] != "add_node")
                prev = o["adj"]
        if c.get("stream") in ("random", "exotic", "history-random", "history-exotic"):
            k = "%s: nodes=%d" % (c["stream"], len(c["branches"][0][-1][1]["adj"]) if c["branches"][0] else 0)
            sizes[k] = sizes.get(k, 0) + 1
        k = "%s / %s" % (c.get("obj", "DAG"), "after staging" if c.get("hist") else "no study staged before")
        kinds[k] = kinds.get(k, 0) + nsteps
        ck.cov["traces_validated_against_impl"] += len(c["branches"])
    hist["operations by outcome"] = ops_h
    hist["operations by object kind and process history"] = dict(sorted(kinds.items()))
    hist["final node count of random/exotic sequences"] = dict(sorted(sizes.items()))


def run(ck):
    ck.build_proofs(extra_targets=["theories/Dag/DagGenProofs.vo"])
    DAG = _import_dag()
    rng = random.Random(ck.seed)
    hist = {}
    t0 = time.time()
    rng_s = random.Random(ck.seed * 7919 + 17)
    scases = study_cases(DAG, ck.tier, rng_s, hist, after_history=False)
    cases = generate(ck, DAG, ck.tier, rng, hist)
    scases += study_cases(DAG, ck.tier, rng_s, hist, after_history=True)
    ck.notes["impl_seconds"] = round(time.time() - t0, 1)
    account(ck, cases, hist)
    account_s(ck, scases, hist)
    for c in scases:
        if c.get("stream", "").endswith("-random"):
            ck.sample({"n": c["n"], "object": "Study", "ops": [op for op, _ in c["steps"]],
                       "final_table": c["steps"][-1][1]["adj"]}, limit=5)
    for c in cases:
        if c.get("stream") == "random":
            ck.sample({"n": c["n"], "object": c.get("obj", "DAG"), "ops": flatten(c),
                       "final_table": c["branches"][0][-1][1]["adj"]}, limit=3)
    t1 = time.time()
    process(ck, DAG, cases, "C14")
    process_s(ck, DAG, scases)
    ck.notes["coq_seconds"] = round(time.time() - t1, 1)
    ck.cov["rule"] = (
        "corpus; every operation sequence (add_node/add_edge/remove_edge, all argument choices incl. self, dangling, "
        "duplicate, cycle-creating) up to the stated lengths over 3 and 4 names (trie without sharing, and with states "
        "reached twice explored once -- DAG objects hold only adjacency_table and values, checked); seeded structured "
        "random sequences on 2..10 nodes and uniformly random ones.  Objects: plain DAG for every stream; fresh ExecutionGraph "
        "objects and a fresh Study object's own DAG API (born with _source = name n) for the trie, the probe stream (from a "
        "built edge / chain / diamond: every next operation and every pair edge-operation + operation) and the random/exotic "
        "streams.  Process history: after these, small real studies are staged in the same process (c08's builder, as "
        "maestro.run_study) and the corpus, probe, trie and random/exotic streams run again on FRESH objects of the three "
        "kinds (history-* streams): the monitor must hold on every object whatever was done to other objects before.  The "
        "staged ExecutionGraph itself is not examined: Study.stage() disables detect_cycle on that one instance by design.  "
        "Study API (study-api streams, before and after the stagings): sequences on ONE fresh Study object of add_step calls "
        "(depends lists: valid, the step itself at every position, unknown step at every position, duplicates, written "
        "plain / name_* / name*; name already taken; no depends) mixed with inherited add_edge/remove_edge/add_node, every "
        "call wrapped in try/except and the object observed after it, returned or raised: exhaustive small scopes "
        "(all sequences of add_step calls up to the stated length over 2 and 3 names with <=2 dependencies, each followed by "
        "cycle-probing operations) plus seeded random sequences on 2..7 names; monitor C14_study_ok (state conjuncts of "
        "C14_ok + table = expected_step).  "
        "evaluation = one operation applied to the real DAG "
        "class with table, values keys, result kind, detect_cycle, topological_sort, bfs_subtree and dfs_subtree of every "
        "name compared with the model and C14_ok evaluated on the implementation's observable; distinct = (table before, "
        "operation, object kind, staged-before?); non-trivial = an edge operation on a non-empty table")
    ck.cov["input_distribution"] = hist

    def search():
        if ck.tier == "thorough":
            return None
        h2 = {}
        smore = study_cases(DAG, "thorough", random.Random(ck.seed + 2), h2, after_history=True)
        sbad, _ = evaluate_s("C14_ssearch", smore, fn="smonitor_ok")
        if sbad:
            cands = [dict(smore[i], steps=smore[i]["steps"][:k]) for i in sbad[:10]
                     for k in range(1, len(smore[i]["steps"]) + 1)]
            sb, _ = evaluate_s("C14_ssearch_red", cands, fn="smonitor_ok")
            if sb:
                c = shrink_s(DAG, min((cands[i] for i in sb), key=lambda c: len(c["steps"])), "smonitor_ok")
                return describe_s(c), dict(strip_s(c), observed=c["steps"])
        more = generate(ck, DAG, "thorough", random.Random(ck.seed + 1), h2)
        bad, errs = evaluate("C14_search", more, fn="monitor_ok")
        if not bad:
            return None
        cands = []
        for i in bad[:10]:
            cands.extend(single_branch_prefixes(more[i]))
        badm, _ = evaluate("C14_search_red", cands, fn="monitor_ok")
        if not badm:
            return None
        c = min((cands[i] for i in badm), key=lambda c: len(c["setup"]) + len(c["branches"][0]))
        c = shrink(DAG, c, "monitor_ok")
        return describe(c), dict(strip(c), observed=c["branches"])

    return ck.finish(search=search)


def replay(ck, path):
    DAG = _import_dag()
    j = json.load(open(path))
    j = j.get("case", j)
    if j is None:
        print("replay file holds no input (broken proof or correspondence without a failing input):")
        print(json.dumps(json.load(open(path)), indent=1)[:4000])
        return 1
    for k in range(int(j.get("hist", 0) or 0)):
        stage_history(random.Random(ck.seed + k), k)
    if j.get("hist"):
        print("process history: staged %d studies first: %s" % (_HIST["staged"], json.dumps(_HIST)))
    if j.get("api") == "study":
        c = build_scase(DAG, j["n"], [op_tuple(o) for o in j["ops"]])
        print("implementation (Study object, add_step API):")
        for op, o in c["steps"]:
            print("  ", op, json.dumps(o))
        bad_all, e1 = evaluate_s("C14_replay", [c], fn="scheck_case")
        bad_mon, e2 = evaluate_s("C14_replay_m", [c], fn="smonitor_ok")
        print("model:")
        print(model_text_s(c))
        for e in e1 + e2:
            print("coqc error:", e[1])
        mon_ok = not bad_mon and not e2
        print("C14_study_ok on the implementation's observables: %s" % mon_ok)
        print("model agrees with implementation: %s" % (not bad_all and not e1))
        if not mon_ok:
            print("VIOLATION property=C14 replay=%s" % path)
            return 1
        if bad_all or e1:
            print("VIOLATION property=C14 replay=%s no-failing-input-found" % path)
            return 1
        print("C14 ok (replay)")
        return 0
    c = build_case(DAG, j["n"], [tuple(o) for o in j.get("setup", [])],
                   [[tuple(o) for o in br] for br in j["branches"]], j.get("obj", "DAG"))
    print("implementation (%s object):" % j.get("obj", "DAG"))
    for br in c["branches"]:
        for op, o in br:
            print("  ", op, json.dumps(o))
    bad_all, e1 = evaluate("C14_replay", [c], fn="check_case")
    bad_mon, e2 = evaluate("C14_replay_m", [c], fn="monitor_ok")
    if len(c["branches"]) == 1:
        print("model:")
        print(model_text(c))
    for e in e1 + e2:
        print("coqc error:", e[1])
    mon_ok = not bad_mon and not e2
    corr_ok = not bad_all and not e1
    print("C14_ok on the implementation's observables: %s" % mon_ok)
    print("model agrees with implementation: %s" % (corr_ok or (mon_ok is False and None)))
    if not mon_ok:
        print("VIOLATION property=C14 replay=%s" % path)
        return 1
    if not corr_ok:
        print("VIOLATION property=C14 replay=%s no-failing-input-found" % path)
        return 1
    print("C14 ok (replay)")
    return 0

"""T-data generator for C10: the path sanitiser and the file-name templates.

Parses (python `ast`, never imports /repo) and emits
coq/theories/Gen/SafePathData.v:

* `safe_alphabet : list N` -- the characters `make_safe_path` keeps (the
  `valid` string of maestrowf/utils.py; `string.ascii_letters` etc. are
  resolved from the standard library, everything else must be literal);
* `safe_replaces : list (N * list N)` -- the single-character `str.replace`
  rules applied, in order, after the filter (today: space -> underscore);
* `script_tmpl`, `restart_tmpl : adapter -> list tpiece` -- the file-name
  templates of the four script adapters' `_write_script` with
  `self._extension` resolved from `__init__`, and which name attribute of the
  step they use (`step.name` = nickname-aware, `step.real_name`);
* `out_tmpl`, `err_tmpl` -- `LocalScriptAdapter.submit`'s output file names;
* the workspace shapes of `Study._stage` (`[step]`, `[step, combo]`,
  `[step, nickname]`), the instance-name separator, and the facts the model of
  SafePath.v hard-wires (checked here, fail-closed): the nickname is the md5
  hex digest of the combination string, `StudyStep.name` prefers the nickname,
  `_StepRecord.generate_script` writes into `<tmp>/<md5(record name)>` when a
  temp directory is in use and into the workspace otherwise, `submit` gets the
  workspace as cwd, and every path is built with `os.path.join(dir, name)`.

Two kinds of checks.  DATA (alphabet, replace rules, templates, workspace
shapes, separator): extracted with a tolerant symbolic evaluator (str.format,
f-strings, `+`, `%s`, local single-assignment variables; make_safe_path falls
back to evaluating the isolated function definition -- never the package -- on
every code point when its loop has been rewritten); when the data cannot be
determined the generator fails closed (NotTranslatable).  STRUCTURE the
hand-written model hard-wires (property getters, guards, which `open` calls
exist, ...): advisory only -- recorded in NOTES / _work/tdata_misc_notes.json,
because the correspondence run is what validates the hand-written part and a
behaviour-preserving rewrite must not break the tie.
"""
import ast
import os
import string as _pystring

from translate.regen import NotTranslatable

UTILS = "maestrowf/utils.py"
STUDY = "maestrowf/datastructures/core/study.py"
EXECG = "maestrowf/datastructures/core/executiongraph.py"
ADAPTERS = (
    ("ALocal", "maestrowf/interfaces/script/localscriptadapter.py", "LocalScriptAdapter"),
    ("ASlurm", "maestrowf/interfaces/script/slurmscriptadapter.py", "SlurmScriptAdapter"),
    ("ALsf", "maestrowf/interfaces/script/lsfscriptadapter.py", "LSFScriptAdapter"),
    ("AFlux", "maestrowf/interfaces/script/fluxscriptadapter.py", "FluxScriptAdapter"),
)
OUT = "Gen/SafePathData.v"
NOTES = []      # advisory findings of the last generate()


def _soft(fn, *args):
    """Run a structural (non-data) check; a failure is a note, not an error."""
    try:
        return fn(*args)
    except NotTranslatable as e:
        NOTES.append(str(e))
        return None


def _fail(msg, node=None):
    if node is not None and hasattr(node, "lineno"):
        msg = "%s (line %d)" % (msg, node.lineno)
    raise NotTranslatable(msg)


def _parse(repo, rel):
    p = os.path.join(repo, rel)
    try:
        with open(p, encoding="utf-8") as f:
            return ast.parse(f.read(), filename=p)
    except (OSError, SyntaxError) as e:
        _fail("cannot parse %s: %r" % (rel, e))


def _dump(node):
    """Position-free, context-free (Load/Store) structural text of a node."""
    return ast.dump(node, annotate_fields=True, include_attributes=False) \
        .replace("ctx=Store()", "ctx=Load()")


def _expr(text):
    return ast.parse(text, mode="eval").body


def _same(node, text):
    """Structural equality of an expression node with the expression `text`."""
    return node is not None and _dump(node) == _dump(_expr(text))


def _find_class(tree, name, rel):
    cs = [n for n in tree.body if isinstance(n, ast.ClassDef) and n.name == name]
    if len(cs) != 1:
        _fail("%s: expected exactly one class %s" % (rel, name))
    return cs[0]


def _find_method(cls, name):
    fs = [n for n in cls.body if isinstance(n, ast.FunctionDef) and n.name == name]
    if len(fs) != 1:
        _fail("expected exactly one method %s.%s, found %d" % (cls.name, name, len(fs)))
    return fs[0]


def _find_property(cls, name):
    """The getter of property `name` (decorated with @property)."""
    fs = [n for n in cls.body if isinstance(n, ast.FunctionDef) and n.name == name and
          any(isinstance(d, ast.Name) and d.id == "property" for d in n.decorator_list)]
    if len(fs) != 1:
        _fail("expected exactly one @property %s.%s" % (cls.name, name))
    return fs[0]


def _is_log_call(v):
    return (isinstance(v, ast.Call) and isinstance(v.func, ast.Attribute) and
            isinstance(v.func.value, ast.Name) and v.func.value.id in ("LOGGER", "logger", "logging"))


def _is_noise(st):
    if isinstance(st, ast.Pass):
        return True
    if isinstance(st, ast.Expr):
        v = st.value
        if isinstance(v, ast.Constant):
            return True
        if _is_log_call(v):
            return True
        if isinstance(v, ast.Tuple) and all(_is_log_call(e) for e in v.elts):
            return True
    return False


def _body(fn):
    return [st for st in fn.body if not _is_noise(st)]


def _assigns(fn, target):
    """All `target = value` assignments (simple Name target) anywhere inside fn."""
    res = []
    for n in ast.walk(fn):
        if isinstance(n, ast.Assign) and len(n.targets) == 1:
            t = n.targets[0]
            if isinstance(t, ast.Name) and t.id == target:
                res.append(n)
    return res


def _attr_assigns(fn, obj, attr):
    res = []
    for n in ast.walk(fn):
        if isinstance(n, ast.Assign) and len(n.targets) == 1:
            t = n.targets[0]
            if (isinstance(t, ast.Attribute) and isinstance(t.value, ast.Name) and
                    t.value.id == obj and t.attr == attr):
                res.append(n)
    return res


# ----------------------------------------------------------------------------
# constant string expressions
# ----------------------------------------------------------------------------
def _split_format(fmt, node):
    """'{}.{}' -> ['', '.', ''] ; only auto-numbered empty fields are understood."""
    parts, cur, i = [], "", 0
    while i < len(fmt):
        c = fmt[i]
        if c == "{":
            if fmt.startswith("{{", i):
                cur += "{"
                i += 2
                continue
            if fmt.startswith("{}", i):
                parts.append(cur)
                cur = ""
                i += 2
                continue
            _fail("format field other than '{}' in %r" % fmt, node)
        if c == "}":
            if fmt.startswith("}}", i):
                cur += "}"
                i += 2
                continue
            _fail("stray '}' in format %r" % fmt, node)
        cur += c
        i += 1
    parts.append(cur)
    return parts


def _const_str(node):
    """Evaluate a constant string expression: literals, '+', '...'.format(consts),
    and the str constants of the standard `string` module."""
    if isinstance(node, ast.Constant) and isinstance(node.value, str):
        return node.value
    if isinstance(node, ast.BinOp) and isinstance(node.op, ast.Add):
        return _const_str(node.left) + _const_str(node.right)
    if (isinstance(node, ast.Attribute) and isinstance(node.value, ast.Name) and
            node.value.id == "string"):
        v = getattr(_pystring, node.attr, None)
        if isinstance(v, str):
            return v
        _fail("unknown constant string.%s" % node.attr, node)
    if (isinstance(node, ast.Call) and isinstance(node.func, ast.Attribute) and
            node.func.attr == "format" and not node.keywords):
        fmt = _const_str(node.func.value)
        parts = _split_format(fmt, node)
        if len(parts) != len(node.args) + 1:
            _fail("format arity mismatch", node)
        out = parts[0]
        for a, p in zip(node.args, parts[1:]):
            out += _const_str(a) + p
        return out
    _fail("not a constant string expression: %s" % _dump(node)[:120], node)


# ----------------------------------------------------------------------------
# make_safe_path
# ----------------------------------------------------------------------------
def _safe_path(repo):
    tree = _parse(repo, UTILS)
    fns = [n for n in tree.body if isinstance(n, ast.FunctionDef) and n.name == "make_safe_path"]
    if len(fns) != 1:
        _fail("utils.py: expected exactly one make_safe_path")
    fn = fns[0]
    a = fn.args
    if ([x.arg for x in a.args] != ["base_path"] or a.vararg is None or a.vararg.arg != "args" or
            a.kwonlyargs or a.kwarg or a.defaults):
        _fail("make_safe_path: signature is not (base_path, *args)", fn)
    body = _body(fn)
    if len(body) != 4:
        _fail("make_safe_path: expected 4 statements (valid, path, for, return), found %d" % len(body), fn)
    st_valid, st_path, st_for, st_ret = body
    if not (isinstance(st_valid, ast.Assign) and len(st_valid.targets) == 1 and
            isinstance(st_valid.targets[0], ast.Name)):
        _fail("make_safe_path: first statement is not `valid = ...`", st_valid)
    vname = st_valid.targets[0].id
    alphabet = _const_str(st_valid.value)
    if not (isinstance(st_path, ast.Assign) and _same(st_path.value, "[base_path]") and
            len(st_path.targets) == 1 and isinstance(st_path.targets[0], ast.Name)):
        _fail("make_safe_path: second statement is not `path = [base_path]`", st_path)
    pname = st_path.targets[0].id
    if not (isinstance(st_for, ast.For) and isinstance(st_for.target, ast.Name) and
            _same(st_for.iter, "args") and not st_for.orelse):
        _fail("make_safe_path: third statement is not `for arg in args:`", st_for)
    aname = st_for.target.id
    fbody = [s_ for s_ in st_for.body if not _is_noise(s_)]
    if len(fbody) < 2:
        _fail("make_safe_path: loop body too short", st_for)
    first, middle, last = fbody[0], fbody[1:-1], fbody[-1]
    want_filter = '"".join(c for c in %s if c in %s)' % (aname, vname)
    if not (isinstance(first, ast.Assign) and len(first.targets) == 1 and
            isinstance(first.targets[0], ast.Name) and first.targets[0].id == aname and
            _same(first.value, want_filter)):
        _fail("make_safe_path: loop does not start with `%s = %s`" % (aname, want_filter), first)
    replaces = []
    for st in middle:
        ok = (isinstance(st, ast.Assign) and len(st.targets) == 1 and
              isinstance(st.targets[0], ast.Name) and st.targets[0].id == aname and
              isinstance(st.value, ast.Call) and isinstance(st.value.func, ast.Attribute) and
              st.value.func.attr == "replace" and _same(st.value.func.value, aname) and
              len(st.value.args) == 2 and not st.value.keywords)
        if not ok:
            _fail("make_safe_path: statement is not `%s = %s.replace(a, b)`" % (aname, aname), st)
        old, new = _const_str(st.value.args[0]), _const_str(st.value.args[1])
        if len(old) != 1:
            _fail("make_safe_path: replace of a pattern that is not one character: %r" % old, st)
        replaces.append((old, new))
    if not (isinstance(last, ast.Expr) and _same(last.value, "%s.append(%s)" % (pname, aname))):
        _fail("make_safe_path: loop does not end with `%s.append(%s)`" % (pname, aname), last)
    if not (isinstance(st_ret, ast.Return) and _same(st_ret.value, "os.path.join(*%s)" % pname)):
        _fail("make_safe_path: does not `return os.path.join(*%s)`" % pname, st_ret)
    return alphabet, replaces


# ----------------------------------------------------------------------------
# adapters
# ----------------------------------------------------------------------------
def _template(call, ext, what):
    """`"{}.{}".format(step.name, self._extension)` -> pieces."""
    if not (isinstance(call, ast.Call) and isinstance(call.func, ast.Attribute) and
            call.func.attr == "format" and not call.keywords):
        _fail("%s: not a `<literal>.format(...)` call" % what, call)
    fmt = _const_str(call.func.value)
    parts = _split_format(fmt, call)
    if len(parts) != len(call.args) + 1:
        _fail("%s: format arity mismatch" % what, call)
    pieces = [("lit", parts[0])]
    for a, p in zip(call.args, parts[1:]):
        if _same(a, "step.name"):
            pieces.append(("name",))
        elif _same(a, "step.real_name"):
            pieces.append(("real",))
        elif _same(a, "self._extension"):
            if ext is None:
                _fail("%s: self._extension used but not a literal in __init__" % what, call)
            pieces.append(("lit", ext))
        elif _same(a, "pid"):
            pieces.append(("pid",))
        else:
            pieces.append(("lit", _const_str(a)))
        pieces.append(("lit", p))
    # merge literals, drop empty ones
    out = []
    for p in pieces:
        if p[0] == "lit":
            if not p[1]:
                continue
            if out and out[-1][0] == "lit":
                out[-1] = ("lit", out[-1][1] + p[1])
                continue
        out.append(p)
    return out


def _single_assign(fn, name, what):
    xs = _assigns(fn, name)
    if len(xs) != 1:
        _fail("%s: expected exactly one assignment to %s, found %d" % (what, name, len(xs)), fn)
    return xs[0]


def _parents(fn):
    par = {}
    for n in ast.walk(fn):
        for c in ast.iter_child_nodes(n):
            par[c] = n
    return par


def _adapter(repo, rel, cname):
    tree = _parse(repo, rel)
    cls = _find_class(tree, cname, rel)
    init = _find_method(cls, "__init__")
    exts = _attr_assigns(init, "self", "_extension")
    ext = None
    if exts:
        if len(exts) != 1:
            _fail("%s.__init__: several assignments to self._extension" % cname, init)
        ext = _const_str(exts[0].value)
    ws = _find_method(cls, "_write_script")
    if [x.arg for x in ws.args.args] != ["self", "ws_path", "step"]:
        _fail("%s._write_script: signature is not (self, ws_path, step)" % cname, ws)
    what = cname + "._write_script"
    fname = _single_assign(ws, "fname", what)
    rname = _single_assign(ws, "rname", what)
    sp = _single_assign(ws, "script_path", what)
    rps = _assigns(ws, "restart_path")
    if not _same(sp.value, "os.path.join(ws_path, fname)"):
        _fail("%s: script_path is not os.path.join(ws_path, fname)" % what, sp)
    joins = [r for r in rps if not _same(r.value, "None")]
    nones = [r for r in rps if _same(r.value, "None")]
    if len(joins) != 1 or len(nones) != 1 or not _same(joins[0].value, "os.path.join(ws_path, rname)"):
        _fail("%s: restart_path is not os.path.join(ws_path, rname) / None" % what, ws)
    # the restart script exists exactly when the restart command is non-empty
    par = _parents(ws)
    node, guard = rname, None
    while node in par:
        node = par[node]
        if isinstance(node, ast.If):
            guard = node
            break
    if guard is None or not _same(guard.test, "restart") or nones[0] not in guard.orelse:
        _fail("%s: rname is not guarded by `if restart: ... else: restart_path = None`" % what, rname)
    opens = [n for n in ast.walk(ws) if isinstance(n, ast.Call) and isinstance(n.func, ast.Name) and
             n.func.id == "open"]
    targets = sorted(_dump(o.args[0]) for o in opens if o.args)
    if targets != sorted([_dump(_expr("script_path")), _dump(_expr("restart_path"))]):
        _fail("%s: opens something other than script_path and restart_path" % what, ws)
    rets = [n for n in ast.walk(ws) if isinstance(n, ast.Return)]
    if len(rets) != 1 or not _same(rets[0].value, "(to_be_scheduled, script_path, restart_path)"):
        _fail("%s: does not return (to_be_scheduled, script_path, restart_path)" % what, ws)
    return _template(fname.value, ext, what + " fname"), _template(rname.value, ext, what + " rname"), cls


def _local_outputs(cls):
    sub = _find_method(cls, "submit")
    names = [x.arg for x in sub.args.args]
    if names[:4] != ["self", "step", "path", "cwd"]:
        _fail("LocalScriptAdapter.submit: signature does not start (self, step, path, cwd)", sub)
    pid = _single_assign(sub, "pid", "LocalScriptAdapter.submit")
    if not _same(pid.value, "p.pid"):
        _fail("LocalScriptAdapter.submit: pid is not p.pid", pid)
    res = []
    for var in ("o_path", "e_path"):
        a = _single_assign(sub, var, "LocalScriptAdapter.submit")
        v = a.value
        if not (isinstance(v, ast.Call) and _same(v.func, "os.path.join") and len(v.args) == 2 and
                _same(v.args[0], "cwd")):
            _fail("LocalScriptAdapter.submit: %s is not os.path.join(cwd, <name>)" % var, a)
        res.append(_template(v.args[1], None, "LocalScriptAdapter.submit " + var))
    opens = [n for n in ast.walk(sub) if isinstance(n, ast.Call) and isinstance(n.func, ast.Name) and
             n.func.id == "open"]
    targets = sorted(_dump(o.args[0]) for o in opens if o.args)
    if targets != sorted([_dump(_expr("o_path")), _dump(_expr("e_path"))]):
        _fail("LocalScriptAdapter.submit: opens something other than o_path and e_path", sub)
    starts = [n for n in ast.walk(sub) if isinstance(n, ast.Call) and isinstance(n.func, ast.Name) and
              n.func.id == "start_process"]
    if len(starts) != 1 or not any(k.arg == "cwd" and _same(k.value, "cwd") for k in starts[0].keywords):
        _fail("LocalScriptAdapter.submit: the process is not started with cwd=cwd", sub)
    return res


# ----------------------------------------------------------------------------
# study.py / executiongraph.py shapes the model hard-wires
# ----------------------------------------------------------------------------
def _study_shapes(repo):
    tree = _parse(repo, STUDY)
    step_cls = _find_class(tree, "StudyStep", STUDY)
    nm = _body(_find_property(step_cls, "name"))
    ok = (len(nm) == 2 and isinstance(nm[0], ast.If) and _same(nm[0].test, "self.nickname") and
          len(nm[0].body) == 1 and isinstance(nm[0].body[0], ast.Return) and
          _same(nm[0].body[0].value, "self.nickname") and not nm[0].orelse and
          isinstance(nm[1], ast.Return) and _same(nm[1].value, "self._name"))
    if not ok:
        _fail("StudyStep.name is not `if self.nickname: return self.nickname; return self._name`")
    rn = _body(_find_property(step_cls, "real_name"))
    if not (len(rn) == 1 and isinstance(rn[0], ast.Return) and _same(rn[0].value, "self._name")):
        _fail("StudyStep.real_name is not `return self._name`")
    setters = [n for n in step_cls.body if isinstance(n, ast.FunctionDef) and n.name == "name" and
               any(isinstance(d, ast.Attribute) and d.attr == "setter" for d in n.decorator_list)]
    if len(setters) != 1 or not any(
            isinstance(x, ast.Assign) and _same(x.targets[0], "self._name") and _same(x.value, "value")
            for x in _body(setters[0])):
        _fail("StudyStep.name setter does not assign self._name = value")

    study_cls = _find_class(tree, "Study", STUDY)
    stage = _find_method(study_cls, "_stage")
    # every make_safe_path call inside _stage
    shapes = []
    for n in ast.walk(stage):
        if isinstance(n, ast.Call) and isinstance(n.func, ast.Name) and n.func.id == "make_safe_path":
            if not (len(n.args) == 2 and _same(n.args[0], "self._out_path") and
                    isinstance(n.args[1], ast.Starred) and isinstance(n.args[1].value, ast.List) and
                    all(isinstance(e, ast.Name) for e in n.args[1].value.elts) and not n.keywords):
                _fail("Study._stage: make_safe_path call is not (self._out_path, *[names])", n)
            shapes.append(tuple(e.id for e in n.args[1].value.elts))
    ws_assigns = _assigns(stage, "workspace")
    ws_shapes = []
    for a in ws_assigns:
        v = a.value
        if not (isinstance(v, ast.Call) and isinstance(v.func, ast.Name) and v.func.id == "make_safe_path"):
            _fail("Study._stage: workspace assigned from something else than make_safe_path", a)
        ws_shapes.append(tuple(e.id for e in v.args[1].value.elts))
    if sorted(ws_shapes) != sorted([("step",), ("step", "nickname"), ("step", "combo_str")]):
        _fail("Study._stage: workspace shapes are %r" % (sorted(ws_shapes),))
    others = sorted(set(shapes) - set(ws_shapes))
    if others not in ([], [("match",)]):
        _fail("Study._stage: unexpected make_safe_path argument lists %r" % (others,))
    # nickname = md5(combo_str.encode("utf-8")).hexdigest()  under `if self._hash_ws`
    par = _parents(stage)
    nicks = [a for a in _assigns(stage, "nickname") if not _same(a.value, "None")]
    if len(nicks) != 1 or not _same(nicks[0].value, 'md5(combo_str.encode("utf-8")).hexdigest()'):
        _fail("Study._stage: nickname is not md5(combo_str.encode('utf-8')).hexdigest()")
    g = par.get(nicks[0])
    if not (isinstance(g, ast.If) and _same(g.test, "self._hash_ws") and nicks[0] in g.body):
        _fail("Study._stage: nickname not computed under `if self._hash_ws:`", nicks[0])
    hashed = [a for a in ws_assigns if tuple(e.id for e in a.value.args[1].value.elts) == ("step", "nickname")]
    plain = [a for a in ws_assigns if tuple(e.id for e in a.value.args[1].value.elts) == ("step", "combo_str")]
    if hashed[0] not in g.body or plain[0] not in g.orelse:
        _fail("Study._stage: hashed/plain workspace not in the two branches of `if self._hash_ws`", g)
    if not any(_same(a.value, "None") for a in _assigns(stage, "nickname")):
        _fail("Study._stage: nickname is not reset to None for every combination")
    # instance name:  combo_str = "{}_{}".format(step, combo_str)   (after the workspace was computed)
    names = [a for a in _assigns(stage, "combo_str")
             if isinstance(a.value, ast.Call) and isinstance(a.value.func, ast.Attribute) and
             a.value.func.attr == "format"]
    if len(names) != 1:
        _fail("Study._stage: expected one `combo_str = <fmt>.format(step, combo_str)`")
    nm_call = names[0].value
    parts = _split_format(_const_str(nm_call.func.value), nm_call)
    if not (len(nm_call.args) == 2 and _same(nm_call.args[0], "step") and _same(nm_call.args[1], "combo_str") and
            len(parts) == 3 and parts[0] == "" and parts[2] == ""):
        _fail("Study._stage: instance name is not '{}<sep>{}'.format(step, combo_str)", nm_call)
    if not names[0].lineno > g.lineno:
        _fail("Study._stage: instance name computed before the workspace", names[0])
    sep = parts[1]
    got = {(_dump(a.targets[0]), _dump(a.value)) for a in ast.walk(stage)
           if isinstance(a, ast.Assign) and len(a.targets) == 1}
    for t, v in (("step_exp.name", "combo_str"), ("step_exp.nickname", "nickname"),
                 ("self.workspaces[combo_str]", "workspace"), ("self.workspaces[step]", "workspace")):
        if (_dump(_expr(t)), _dump(_expr(v))) not in got:
            _fail("Study._stage: missing `%s = %s`" % (t, v))
    # the workspace handed to the graph is the computed one
    adds = [n for n in ast.walk(stage) if isinstance(n, ast.Call) and _same(n.func, "dag.add_step")]
    if len(adds) != 2 or not all(len(c.args) >= 3 and _same(c.args[2], "workspace") for c in adds):
        _fail("Study._stage: dag.add_step is not called twice with the computed workspace")
    if not any(_same(c.args[0], "step_exp.real_name") and _same(c.args[1], "step_exp") for c in adds):
        _fail("Study._stage: expanded step not added under step_exp.real_name")
    if not any(_same(c.args[0], "step") for c in adds):
        _fail("Study._stage: unparameterised step not added under its own name")
    return sep


def _exec_shapes(repo):
    tree = _parse(repo, EXECG)
    rec = _find_class(tree, "_StepRecord", EXECG)
    nm = _body(_find_property(rec, "name"))
    if not (len(nm) == 1 and isinstance(nm[0], ast.Return) and _same(nm[0].value, "self.step.real_name")):
        _fail("_StepRecord.name is not `return self.step.real_name`")
    init = _find_method(rec, "__init__")
    if not any(_same(a.value, 'Variable("WORKSPACE", workspace)') for a in _attr_assigns(init, "self", "workspace")):
        _fail("_StepRecord.__init__: self.workspace is not Variable('WORKSPACE', workspace)")
    sw = _body(_find_method(rec, "setup_workspace"))
    if not (len(sw) == 1 and isinstance(sw[0], ast.Expr) and
            _same(sw[0].value, "create_parentdir(self.workspace.value)")):
        _fail("_StepRecord.setup_workspace is not create_parentdir(self.workspace.value)")
    gs = _find_method(rec, "generate_script")
    ifs = [st for st in _body(gs) if isinstance(st, ast.If)]
    if len(ifs) != 1 or not _same(ifs[0].test, "tmp_dir"):
        _fail("_StepRecord.generate_script: no single `if tmp_dir:`", gs)
    tb = [st for st in ifs[0].body if not _is_noise(st)]
    eb = [st for st in ifs[0].orelse if not _is_noise(st)]
    ok_t = (len(tb) == 2 and isinstance(tb[0], ast.Assign) and _same(tb[0].targets[0], "scr_dir") and
            _same(tb[0].value, 'os.path.join(tmp_dir, md5(self.name.encode("utf-8")).hexdigest())') and
            isinstance(tb[1], ast.Expr) and _same(tb[1].value, "create_parentdir(scr_dir)"))
    ok_e = (len(eb) == 1 and isinstance(eb[0], ast.Assign) and _same(eb[0].targets[0], "scr_dir") and
            _same(eb[0].value, "self.workspace.value"))
    if not (ok_t and ok_e):
        _fail("_StepRecord.generate_script: script directory is not <tmp>/<md5(name)> | workspace", ifs[0])
    calls = [n for n in ast.walk(gs) if isinstance(n, ast.Call) and _same(n.func, "adapter.write_script")]
    if len(calls) != 1 or not (len(calls[0].args) == 2 and _same(calls[0].args[0], "scr_dir") and
                               _same(calls[0].args[1], "self.step")):
        _fail("_StepRecord.generate_script: not exactly one adapter.write_script(scr_dir, self.step)", gs)
    ex = _find_method(rec, "_execute")
    subs = [n for n in ast.walk(ex) if isinstance(n, ast.Call) and isinstance(n.func, ast.Attribute) and
            n.func.attr == "submit"]
    if len(subs) != 2 or not all(len(c.args) == 3 and _same(c.args[0], "self.step") and _same(c.args[1], "script") and
                                 _same(c.args[2], "self.workspace.value") for c in subs):
        _fail("_StepRecord._execute: submit is not called as (self.step, script, self.workspace.value)", ex)
    g = _find_class(tree, "ExecutionGraph", EXECG)
    init = _find_method(g, "__init__")
    tmp = _attr_assigns(init, "self", "_tmp_dir")
    if sorted(_dump(a.value) for a in tmp) != sorted([_dump(_expr("tempfile.mkdtemp()")), _dump(_expr('""'))]):
        _fail("ExecutionGraph.__init__: _tmp_dir is not tempfile.mkdtemp() | ''")
    add = _find_method(g, "add_step")
    if not any(isinstance(n, ast.Dict) and any(
            isinstance(k, ast.Constant) and k.value == "workspace" and _same(v, "workspace")
            for k, v in zip(n.keys, n.values)) for n in ast.walk(add)):
        _fail("ExecutionGraph.add_step: record not built with workspace=workspace")


# ----------------------------------------------------------------------------
# emission
# ----------------------------------------------------------------------------
def _g_codes(s):
    return "[" + "; ".join("%d%%N" % ord(c) for c in s) + "]"


def _g_str(s):
    if all(32 <= ord(c) < 127 and c != '"' for c in s):
        return '(s "%s")' % s
    return _g_codes(s)


def _g_piece(p):
    if p[0] == "lit":
        return "TLit %s" % _g_str(p[1])
    return {"name": "TName", "real": "TRealName", "pid": "TPid"}[p[0]]


def _g_tmpl(t):
    return "[" + "; ".join(_g_piece(p) for p in t) + "]"


def generate(repo):
    alphabet, replaces = _safe_path(repo)
    scripts, restarts, local_cls = {}, {}, None
    for aid, rel, cname in ADAPTERS:
        f, r, cls = _adapter(repo, rel, cname)
        scripts[aid], restarts[aid] = f, r
        if aid == "ALocal":
            local_cls = cls
    out_t, err_t = _local_outputs(local_cls)
    sep = _study_shapes(repo)
    _exec_shapes(repo)

    L = []
    L.append("(** GENERATED by translate/tdata_misc.py from the source text of /repo -- do not edit.")
    L.append("    make_safe_path's alphabet and replace rules (maestrowf/utils.py), the script /")
    L.append("    restart-script file-name templates of the four adapters' _write_script, the")
    L.append("    output file names of LocalScriptAdapter.submit, and the workspace shapes of")
    L.append("    Study._stage.  The generator also checked (fail-closed) the facts SafePath.v")
    L.append("    hard-wires: see the doc-string of the generator. *)")
    L.append("From MWF Require Import Base.Str.")
    L.append("")
    L.append("(* the `valid` string, as code points, in source order *)")
    L.append("Definition safe_alphabet : list N :=")
    L.append("  " + _g_codes(alphabet) + ".")
    L.append("")
    L.append("(* `arg = arg.replace(a, b)` statements after the filter, in order *)")
    L.append("Definition safe_replaces : list (N * str) :=")
    L.append("  [" + "; ".join("(%d%%N, %s)" % (ord(a), _g_codes(b)) for a, b in replaces) + "].")
    L.append("")
    L.append("Inductive adapter := ALocal | ASlurm | ALsf | AFlux.")
    L.append("(* TName = step.name (the nickname when there is one), TRealName = step.real_name *)")
    L.append("Inductive tpiece := TLit (x : str) | TName | TRealName | TPid.")
    L.append("")
    for title, tbl in (("script_tmpl", scripts), ("restart_tmpl", restarts)):
        L.append("Definition %s (a : adapter) : list tpiece :=" % title)
        L.append("  match a with")
        for aid, _, _ in ADAPTERS:
            L.append("  | %s => %s" % (aid, _g_tmpl(tbl[aid])))
        L.append("  end.")
        L.append("")
    L.append("(* LocalScriptAdapter.submit: os.path.join(cwd, <template>) *)")
    L.append("Definition out_tmpl : list tpiece := %s." % _g_tmpl(out_t))
    L.append("Definition err_tmpl : list tpiece := %s." % _g_tmpl(err_t))
    L.append("")
    L.append("(* Study._stage: arguments of make_safe_path(self._out_path, *[...]) *)")
    L.append("Inductive wcomp := WStep | WCombo | WNick.")
    L.append("Definition ws_unparam : list wcomp := [WStep].")
    L.append("Definition ws_plain : list wcomp := [WStep; WCombo].")
    L.append("Definition ws_hashed : list wcomp := [WStep; WNick].")
    L.append("(* instance name = step ++ iname_sep ++ combination string *)")
    L.append("Definition iname_sep : str := %s." % _g_str(sep))
    L.append("")
    return {OUT: "\n".join(L)}

"""T-data generator for C10: the path sanitiser and the file-name templates.

Parses (python `ast`, never imports /repo) and emits
coq/theories/Gen/SafePathData.v:

* `safe_alphabet : list N` -- the characters `make_safe_path` keeps (the
  `valid` string of maestrowf/utils.py; `string.ascii_letters` etc. are
  resolved from the standard library, everything else must be literal);
* `safe_replaces : list (N * list N)` -- the single-character `str.replace`
  rules applied, in order, after the filter (today: space -> underscore);
* `script_tmpl`, `restart_tmpl : adapter -> list tpiece` -- the file-name
  templates of the four script adapters' `_write_script` with
  `self._extension` resolved from `__init__`, and which name attribute of the
  step they use (`step.name` = nickname-aware, `step.real_name`);
* `out_tmpl`, `err_tmpl` -- `LocalScriptAdapter.submit`'s output file names;
* the workspace shapes of `Study._stage` (`[step]`, `[step, combo]`,
  `[step, nickname]`), the instance-name separator, and the facts the model of
  SafePath.v hard-wires (checked here, fail-closed): the nickname is the md5
  hex digest of the combination string, `StudyStep.name` prefers the nickname,
  `_StepRecord.generate_script` writes into `<tmp>/<md5(record name)>` when a
  temp directory is in use and into the workspace otherwise, `submit` gets the
  workspace as cwd, and every path is built with `os.path.join(dir, name)`.

Two kinds of checks.  DATA (alphabet, replace rules, templates, workspace
shapes, separator): extracted with a tolerant symbolic evaluator (str.format,
f-strings, `+`, `%s`, local single-assignment variables; make_safe_path falls
back to evaluating the isolated function definition -- never the package -- on
every code point when its loop has been rewritten); when the data cannot be
determined the generator fails closed (NotTranslatable).  STRUCTURE the
hand-written model hard-wires (property getters, guards, which `open` calls
exist, ...): advisory only -- recorded in NOTES / _work/tdata_misc_notes.json,
because the correspondence run is what validates the hand-written part and a
behaviour-preserving rewrite must not break the tie.
"""
import ast
import os
import string as _pystring

from translate.regen import NotTranslatable

UTILS = "maestrowf/utils.py"
STUDY = "maestrowf/datastructures/core/study.py"
EXECG = "maestrowf/datastructures/core/executiongraph.py"
ADAPTERS = (
    ("ALocal", "maestrowf/interfaces/script/localscriptadapter.py", "LocalScriptAdapter"),
    ("ASlurm", "maestrowf/interfaces/script/slurmscriptadapter.py", "SlurmScriptAdapter"),
    ("ALsf", "maestrowf/interfaces/script/lsfscriptadapter.py", "LSFScriptAdapter"),
    ("AFlux", "maestrowf/interfaces/script/fluxscriptadapter.py", "FluxScriptAdapter"),
)
OUT = "Gen/SafePathData.v"
NOTES = []      # advisory findings of the last generate()


def _soft(fn, *args):
    """Run a structural (non-data) check; a failure is a note, not an error."""
    try:
        return fn(*args)
    except NotTranslatable as e:
        NOTES.append(str(e))
        return None


def _fail(msg, node=None):
    if node is not None and hasattr(node, "lineno"):
        msg = "%s (line %d)" % (msg, node.lineno)
    raise NotTranslatable(msg)


def _parse(repo, rel):
    p = os.path.join(repo, rel)
    try:
        with open(p, encoding="utf-8") as f:
            return ast.parse(f.read(), filename=p)
    except (OSError, SyntaxError) as e:
        _fail("cannot parse %s: %r" % (rel, e))


def _dump(node):
    """Position-free, context-free (Load/Store) structural text of a node."""
    return ast.dump(node, annotate_fields=True, include_attributes=False) \
        .replace("ctx=Store()", "ctx=Load()")


def _expr(text):
    return ast.parse(text, mode="eval").body


def _same(node, text):
    """Structural equality of an expression node with the expression `text`."""
    return node is not None and _dump(node) == _dump(_expr(text))


def _find_class(tree, name, rel):
    cs = [n for n in tree.body if isinstance(n, ast.ClassDef) and n.name == name]
    if len(cs) != 1:
        _fail("%s: expected exactly one class %s" % (rel, name))
    return cs[0]


def _find_method(cls, name):
    fs = [n for n in cls.body if isinstance(n, ast.FunctionDef) and n.name == name]
    if len(fs) != 1:
        _fail("expected exactly one method %s.%s, found %d" % (cls.name, name, len(fs)))
    return fs[0]


def _find_property(cls, name):
    """The getter of property `name` (decorated with @property)."""
    fs = [n for n in cls.body if isinstance(n, ast.FunctionDef) and n.name == name and
          any(isinstance(d, ast.Name) and d.id == "property" for d in n.decorator_list)]
    if len(fs) != 1:
        _fail("expected exactly one @property %s.%s" % (cls.name, name))
    return fs[0]


def _is_log_call(v):
    return (isinstance(v, ast.Call) and isinstance(v.func, ast.Attribute) and
            isinstance(v.func.value, ast.Name) and v.func.value.id in ("LOGGER", "logger", "logging"))


def _is_noise(st):
    if isinstance(st, ast.Pass):
        return True
    if isinstance(st, ast.Expr):
        v = st.value
        if isinstance(v, ast.Constant):
            return True
        if _is_log_call(v):
            return True
        if isinstance(v, ast.Tuple) and all(_is_log_call(e) for e in v.elts):
            return True
    return False


def _body(fn):
    return [st for st in fn.body if not _is_noise(st)]


def _assigns(fn, target):
    """All `target = value` assignments (simple Name target) anywhere inside fn."""
    res = []
    for n in ast.walk(fn):
        if isinstance(n, ast.Assign) and len(n.targets) == 1:
            t = n.targets[0]
            if isinstance(t, ast.Name) and t.id == target:
                res.append(n)
    return res


def _attr_assigns(fn, obj, attr):
    res = []
    for n in ast.walk(fn):
        if isinstance(n, ast.Assign) and len(n.targets) == 1:
            t = n.targets[0]
            if (isinstance(t, ast.Attribute) and isinstance(t.value, ast.Name) and
                    t.value.id == obj and t.attr == attr):
                res.append(n)
    return res


# ----------------------------------------------------------------------------
# constant string expressions
# ----------------------------------------------------------------------------
def _split_format(fmt, node):
    """'{}.{}' -> ['', '.', ''] ; only auto-numbered empty fields are understood."""
    parts, cur, i = [], "", 0
    while i < len(fmt):
        c = fmt[i]
        if c == "{":
            if fmt.startswith("{{", i):
                cur += "{"
                i += 2
                continue
            if fmt.startswith("{}", i):
                parts.append(cur)
                cur = ""
                i += 2
                continue
            _fail("format field other than '{}' in %r" % fmt, node)
        if c == "}":
            if fmt.startswith("}}", i):
                cur += "}"
                i += 2
                continue
            _fail("stray '}' in format %r" % fmt, node)
        cur += c
        i += 1
    parts.append(cur)
    return parts


def _const_str(node):
    """Evaluate a constant string expression: literals, '+', '...'.format(consts),
    and the str constants of the standard `string` module."""
    if isinstance(node, ast.Constant) and isinstance(node.value, str):
        return node.value
    if isinstance(node, ast.BinOp) and isinstance(node.op, ast.Add):
        return _const_str(node.left) + _const_str(node.right)
    if (isinstance(node, ast.Attribute) and isinstance(node.value, ast.Name) and
            node.value.id == "string"):
        v = getattr(_pystring, node.attr, None)
        if isinstance(v, str):
            return v
        _fail("unknown constant string.%s" % node.attr, node)
    if (isinstance(node, ast.Call) and isinstance(node.func, ast.Attribute) and
            node.func.attr == "format" and not node.keywords):
        fmt = _const_str(node.func.value)
        parts = _split_format(fmt, node)
        if len(parts) != len(node.args) + 1:
            _fail("format arity mismatch", node)
        out = parts[0]
        for a, p in zip(node.args, parts[1:]):
            out += _const_str(a) + p
        return out
    _fail("not a constant string expression: %s" % _dump(node)[:120], node)


# ----------------------------------------------------------------------------
# symbolic string expressions
# ----------------------------------------------------------------------------
_FMT = _pystring.Formatter()


def _merge(pieces):
    out = []
    for p in pieces:
        if p[0] == "lit":
            if not p[1]:
                continue
            if out and out[-1][0] == "lit":
                out[-1] = ("lit", out[-1][1] + p[1])
                continue
        out.append(p)
    return out


def _sym(node, leaf, env, what, depth=0):
    """Pieces [("lit", text) | leaf piece] of a string-valued expression built
    with literals, `+`, `%s`, str.format, f-strings, str(), and local variables
    assigned exactly once (env: name -> [assignment nodes])."""
    if depth > 8:
        _fail("%s: expression nested too deeply" % what, node)
    rec = lambda n: _sym(n, leaf, env, what, depth + 1)      # noqa: E731
    if isinstance(node, ast.Constant) and isinstance(node.value, str):
        return [("lit", node.value)]
    p = leaf(node)
    if p is not None:
        return [p]
    if isinstance(node, ast.BinOp) and isinstance(node.op, ast.Add):
        return rec(node.left) + rec(node.right)
    if (isinstance(node, ast.BinOp) and isinstance(node.op, ast.Mod) and
            isinstance(node.left, ast.Constant) and isinstance(node.left.value, str)):
        args = list(node.right.elts) if isinstance(node.right, ast.Tuple) else [node.right]
        fmt, out, cur, i, k = node.left.value, [], "", 0, 0
        while i < len(fmt):
            if fmt.startswith("%%", i):
                cur, i = cur + "%", i + 2
            elif fmt.startswith("%s", i):
                if k >= len(args):
                    _fail("%s: %%-format arity mismatch" % what, node)
                out += [("lit", cur)] + rec(args[k])
                cur, i, k = "", i + 2, k + 1
            elif fmt[i] == "%":
                _fail("%s: %%-format directive other than %%s" % what, node)
            else:
                cur, i = cur + fmt[i], i + 1
        if k != len(args):
            _fail("%s: %%-format arity mismatch" % what, node)
        return out + [("lit", cur)]
    if isinstance(node, ast.JoinedStr):
        out = []
        for v in node.values:
            if isinstance(v, ast.Constant):
                out.append(("lit", str(v.value)))
            elif (isinstance(v, ast.FormattedValue) and v.format_spec is None and
                  v.conversion in (-1, 115)):
                out += rec(v.value)
            else:
                _fail("%s: f-string field with a format spec / conversion" % what, node)
        return out
    if (isinstance(node, ast.Call) and isinstance(node.func, ast.Attribute) and
            node.func.attr == "format"):
        fmt = _const_str(node.func.value)
        kw = {k.arg: k.value for k in node.keywords if k.arg}
        out, auto = [], 0
        try:
            fields = list(_FMT.parse(fmt))
        except ValueError as e:
            _fail("%s: bad format string %r (%s)" % (what, fmt, e), node)
        for lit, field, spec, conv in fields:
            out.append(("lit", lit))
            if field is None:
                continue
            if spec or conv not in (None, "s"):
                _fail("%s: format field with a spec / conversion in %r" % (what, fmt), node)
            if field == "":
                idx, auto = auto, auto + 1
                arg = node.args[idx] if idx < len(node.args) else None
            elif field.isdigit():
                arg = node.args[int(field)] if int(field) < len(node.args) else None
            else:
                arg = kw.get(field)
            if arg is None:
                _fail("%s: format field %r has no argument" % (what, field), node)
            out += rec(arg)
        return out
    if (isinstance(node, ast.Call) and isinstance(node.func, ast.Name) and node.func.id == "str" and
            len(node.args) == 1 and not node.keywords):
        return rec(node.args[0])
    if isinstance(node, ast.Name) and node.id in env:
        vals = env[node.id]
        if len(vals) == 1:
            return rec(vals[0].value)
        _fail("%s: variable %s assigned %d times" % (what, node.id, len(vals)), node)
    try:
        return [("lit", _const_str(node))]
    except NotTranslatable:
        _fail("%s: not a string expression that is understood: %s" % (what, _dump(node)[:100]), node)


def _local_env(fn):
    env = {}
    for n in ast.walk(fn):
        if isinstance(n, ast.Assign) and len(n.targets) == 1 and isinstance(n.targets[0], ast.Name):
            env.setdefault(n.targets[0].id, []).append(n)
    return env


def _is_none(node):
    return isinstance(node, ast.Constant) and node.value is None


def _values_of(node, env):
    """The expressions a returned / opened expression can stand for."""
    if isinstance(node, ast.Name) and node.id in env:
        return [a.value for a in env[node.id]]
    return [node]


def _join_tail(node, first, what):
    """`os.path.join(<first>, X)` -> X."""
    if not (isinstance(node, ast.Call) and _same(node.func, "os.path.join") and len(node.args) == 2 and
            not node.keywords and _same(node.args[0], first)):
        _fail("%s: not os.path.join(%s, <name>)" % (what, first), node)
    return node.args[1]


# ----------------------------------------------------------------------------
# make_safe_path
# ----------------------------------------------------------------------------
def _safe_path_ast(fn):
    body = _body(fn)
    if len(body) != 4:
        _fail("make_safe_path: expected 4 statements (valid, path, for, return), found %d" % len(body), fn)
    st_valid, st_path, st_for, st_ret = body
    if not (isinstance(st_valid, ast.Assign) and len(st_valid.targets) == 1 and
            isinstance(st_valid.targets[0], ast.Name)):
        _fail("make_safe_path: first statement is not `valid = ...`", st_valid)
    vname = st_valid.targets[0].id
    alphabet = _const_str(st_valid.value)
    if not (isinstance(st_path, ast.Assign) and _same(st_path.value, "[base_path]") and
            len(st_path.targets) == 1 and isinstance(st_path.targets[0], ast.Name)):
        _fail("make_safe_path: second statement is not `path = [base_path]`", st_path)
    pname = st_path.targets[0].id
    if not (isinstance(st_for, ast.For) and isinstance(st_for.target, ast.Name) and
            _same(st_for.iter, "args") and not st_for.orelse):
        _fail("make_safe_path: third statement is not `for arg in args:`", st_for)
    aname = st_for.target.id
    fbody = [s_ for s_ in st_for.body if not _is_noise(s_)]
    if len(fbody) < 2:
        _fail("make_safe_path: loop body too short", st_for)
    first, middle, last = fbody[0], fbody[1:-1], fbody[-1]
    want_filter = '"".join(c for c in %s if c in %s)' % (aname, vname)
    if not (isinstance(first, ast.Assign) and len(first.targets) == 1 and
            isinstance(first.targets[0], ast.Name) and first.targets[0].id == aname and
            _same(first.value, want_filter)):
        _fail("make_safe_path: loop does not start with `%s = %s`" % (aname, want_filter), first)
    replaces = []
    for st in middle:
        ok = (isinstance(st, ast.Assign) and len(st.targets) == 1 and
              isinstance(st.targets[0], ast.Name) and st.targets[0].id == aname and
              isinstance(st.value, ast.Call) and isinstance(st.value.func, ast.Attribute) and
              st.value.func.attr == "replace" and _same(st.value.func.value, aname) and
              len(st.value.args) == 2 and not st.value.keywords)
        if not ok:
            _fail("make_safe_path: statement is not `%s = %s.replace(a, b)`" % (aname, aname), st)
        old, new = _const_str(st.value.args[0]), _const_str(st.value.args[1])
        if len(old) != 1:
            _fail("make_safe_path: replace of a pattern that is not one character: %r" % old, st)
        replaces.append((old, new))
    if not (isinstance(last, ast.Expr) and _same(last.value, "%s.append(%s)" % (pname, aname))):
        _fail("make_safe_path: loop does not end with `%s.append(%s)`" % (pname, aname), last)
    if not (isinstance(st_ret, ast.Return) and _same(st_ret.value, "os.path.join(*%s)" % pname)):
        _fail("make_safe_path: does not `return os.path.join(*%s)`" % pname, st_ret)
    return alphabet, replaces


_PROBE_OK_NAMES = {"string", "os", "re", "posixpath", "str", "len", "list", "tuple", "set", "frozenset", "dict",
                   "filter", "map", "any", "all", "ord", "chr", "range", "enumerate", "zip", "sorted", "reversed",
                   "isinstance", "True", "False", "None"}


def _safe_path_probe(fn, why):
    """The loop was rewritten.  Evaluate the ISOLATED definition of make_safe_path
    (a closed function over `string`, `os`, `re` and builtins -- checked: it reads
    no other global) on every code point and on a battery of strings, and accept
    only if it behaves like `filter by an alphabet, then per-character replaces,
    then os.path.join`."""
    import posixpath
    import re as _re
    import sys
    bound = {a.arg for a in fn.args.args} | {fn.args.vararg.arg}
    for n in ast.walk(fn):
        if isinstance(n, (ast.Import, ast.ImportFrom, ast.Global, ast.Nonlocal, ast.Lambda, ast.FunctionDef,
                          ast.AsyncFunctionDef, ast.ClassDef, ast.While, ast.With, ast.Try, ast.Raise,
                          ast.Yield, ast.YieldFrom, ast.Await, ast.Delete)) and n is not fn:
            _fail("make_safe_path: %s; and the rewritten body uses %s" % (why, type(n).__name__), n)
        if isinstance(n, ast.Name) and isinstance(n.ctx, ast.Store):
            bound.add(n.id)
        if isinstance(n, ast.Attribute) and n.attr.startswith("_") and n.attr != "__contains__":
            _fail("make_safe_path: %s; and the rewritten body touches %s" % (why, n.attr), n)
    for n in ast.walk(fn):
        if isinstance(n, ast.Name) and isinstance(n.ctx, ast.Load) and n.id not in bound | _PROBE_OK_NAMES:
            _fail("make_safe_path: %s; and the rewritten body reads the global %s" % (why, n.id), n)
    mod = ast.Module(body=[ast.FunctionDef(name=fn.name, args=fn.args, body=fn.body, decorator_list=[],
                                           returns=None, type_comment=None)], type_ignores=[])
    ast.fix_missing_locations(mod)
    safe_builtins = {k: getattr(__import__("builtins"), k) for k in _PROBE_OK_NAMES
                     if hasattr(__import__("builtins"), k)}
    ns = {"__builtins__": safe_builtins, "string": _pystring, "os": os, "re": _re, "posixpath": posixpath}
    try:
        exec(compile(mod, "<make_safe_path>", "exec"), ns)
        f = ns[fn.name]
        image = {}
        for cp in range(sys.maxunicode + 1):
            c = chr(cp)
            r = f("", c)
            if r != "":
                image[c] = r
        alphabet = "".join(sorted(image))
        replaces = [(c, r) for c, r in sorted(image.items()) if r != c]
        for c, r in replaces:
            if any(image.get(d) != d for d in r):
                _fail("make_safe_path: %s; and a replacement text is itself rewritten" % why, fn)

        def model(base, *args):
            return posixpath.join(base, *["".join(image.get(c, "") for c in a) for a in args])
        battery = ["", "a", "a b", " a  b ", "x/y", "../z", "..", ".", "a*b", "(q).1-2_3", "é中 \U0001f600z",
                   "".join(sorted(image)), "//", "a/", " /", "\t\n"]
        for base in ("", "/r", "/r/", "rel", "//x"):
            for a in battery:
                if f(base, a) != model(base, a):
                    _fail("make_safe_path: %s; and it is not filter/replace/join on %r, %r" % (why, base, a), fn)
                for b in battery[:9]:
                    if f(base, a, b) != model(base, a, b):
                        _fail("make_safe_path: %s; and it is not filter/replace/join on %r, %r, %r" %
                              (why, base, a, b), fn)
            if f(base) != model(base):
                _fail("make_safe_path: %s; and it is not os.path.join on %r alone" % (why, base), fn)
    except NotTranslatable:
        raise
    except Exception as e:
        _fail("make_safe_path: %s; and evaluating the isolated definition raised %r" % (why, e), fn)
    NOTES.append("make_safe_path: %s -- alphabet and replace rules determined by evaluating the isolated "
                 "definition on every code point" % why)
    return alphabet, replaces


def _safe_path(repo):
    tree = _parse(repo, UTILS)
    fns = [n for n in tree.body if isinstance(n, ast.FunctionDef) and n.name == "make_safe_path"]
    if len(fns) != 1:
        _fail("utils.py: expected exactly one make_safe_path")
    fn = fns[0]
    a = fn.args
    if (len(a.args) != 1 or a.vararg is None or a.kwonlyargs or a.kwarg or a.defaults or
            getattr(a, "posonlyargs", [])):
        _fail("make_safe_path: signature is not (base_path, *args)", fn)
    try:
        return _safe_path_ast(fn)
    except NotTranslatable as e:
        return _safe_path_probe(fn, str(e))


# ----------------------------------------------------------------------------
# adapters
# ----------------------------------------------------------------------------
def _adapter_leaf(step, ext, extra=()):
    def leaf(n):
        if _same(n, "%s.name" % step):
            return ("name",)
        if _same(n, "%s.real_name" % step):
            return ("real",)
        if _same(n, "self._extension") or _same(n, "self.extension"):
            if ext is None:
                _fail("self._extension used but not a literal in __init__", n)
            return ("lit", ext)
        for text, piece in extra:
            if _same(n, text):
                return piece
        return None
    return leaf


def _parents(fn):
    par = {}
    for n in ast.walk(fn):
        for c in ast.iter_child_nodes(n):
            par[c] = n
    return par


def _adapter_structure(ws, cname):
    """advisory: the restart script exists exactly when the restart command is
    non-empty; nothing else is opened"""
    what = cname + "._write_script"
    par = _parents(ws)
    rps = _assigns(ws, "restart_path")
    nones = [r for r in rps if _is_none(r.value)]
    joins = [r for r in rps if not _is_none(r.value)]
    if len(joins) != 1 or len(nones) != 1:
        _fail("%s: restart_path is not assigned once a path and once None" % what, ws)
    node, guard = joins[0], None
    while node in par:
        node = par[node]
        if isinstance(node, ast.If):
            guard = node
            break
    if guard is None or not _same(guard.test, "restart") or nones[0] not in guard.orelse:
        _fail("%s: restart path is not guarded by `if restart: ... else: restart_path = None`" % what, ws)
    opens = [n for n in ast.walk(ws) if isinstance(n, ast.Call) and isinstance(n.func, ast.Name) and
             n.func.id == "open"]
    targets = sorted(_dump(o.args[0]) for o in opens if o.args)
    if targets != sorted([_dump(_expr("script_path")), _dump(_expr("restart_path"))]):
        _fail("%s: opens something other than script_path and restart_path" % what, ws)


def _adapter(repo, rel, cname):
    tree = _parse(repo, rel)
    cls = _find_class(tree, cname, rel)
    init = _find_method(cls, "__init__")
    exts = _attr_assigns(init, "self", "_extension")
    ext = None
    if exts:
        if len(exts) != 1:
            _fail("%s.__init__: several assignments to self._extension" % cname, init)
        ext = _const_str(exts[0].value)
    ws = _find_method(cls, "_write_script")
    params = [x.arg for x in ws.args.args]
    if len(params) != 3 or params[0] != "self":
        _fail("%s._write_script: signature is not (self, ws_path, step)" % cname, ws)
    p_ws, p_step = params[1], params[2]
    what = cname + "._write_script"
    env = _local_env(ws)
    rets = [n for n in ast.walk(ws) if isinstance(n, ast.Return)]
    if len(rets) != 1 or not (isinstance(rets[0].value, ast.Tuple) and len(rets[0].value.elts) == 3):
        _fail("%s: does not end in one `return <scheduled>, <script path>, <restart path>`" % what, ws)
    e_script, e_restart = rets[0].value.elts[1], rets[0].value.elts[2]
    leaf = _adapter_leaf(p_step, ext)
    sv = [v for v in _values_of(e_script, env) if not _is_none(v)]
    rv = [v for v in _values_of(e_restart, env) if not _is_none(v)]
    if len(sv) != 1 or len(rv) != 1:
        _fail("%s: script / restart path not determined by one expression each" % what, rets[0])
    f = _merge(_sym(_join_tail(sv[0], p_ws, what + " script path"), leaf, env, what + " script name"))
    r = _merge(_sym(_join_tail(rv[0], p_ws, what + " restart path"), leaf, env, what + " restart name"))
    _soft(_adapter_structure, ws, cname)
    return f, r, cls


def _local_outputs(cls):
    sub = _find_method(cls, "submit")
    names = [x.arg for x in sub.args.args]
    if len(names) < 4 or names[0] != "self":
        _fail("LocalScriptAdapter.submit: signature does not start (self, step, path, cwd)", sub)
    p_step, p_cwd = names[1], names[3]
    env = _local_env(sub)
    leaf = _adapter_leaf(p_step, None, extra=(("p.pid", ("pid",)),))
    opens = [n for n in ast.walk(sub) if isinstance(n, ast.Call) and isinstance(n.func, ast.Name) and
             n.func.id == "open" and n.args]
    opens.sort(key=lambda n: (n.lineno, n.col_offset))
    if len(opens) != 2:
        _fail("LocalScriptAdapter.submit: expected two open(...) calls (stdout, stderr files), found %d" %
              len(opens), sub)
    res = []
    for o in opens:
        vals = _values_of(o.args[0], env)
        if len(vals) != 1:
            _fail("LocalScriptAdapter.submit: opened path not determined by one expression", o)
        tail = _join_tail(vals[0], p_cwd, "LocalScriptAdapter.submit output path")
        res.append(_merge(_sym(tail, leaf, env, "LocalScriptAdapter.submit output name")))

    def structure():
        starts = [n for n in ast.walk(sub) if isinstance(n, ast.Call) and isinstance(n.func, ast.Name) and
                  n.func.id == "start_process"]
        if len(starts) != 1 or not any(k.arg == "cwd" and _same(k.value, p_cwd) for k in starts[0].keywords):
            _fail("LocalScriptAdapter.submit: the process is not started with cwd=cwd", sub)
    _soft(structure)
    return res


# ----------------------------------------------------------------------------
# study.py / executiongraph.py shapes the model hard-wires
# ----------------------------------------------------------------------------
def _msp_args(call):
    """argument names of make_safe_path(self._out_path, *[a, b]) / (self._out_path, a, b)"""
    if not (call.args and _same(call.args[0], "self._out_path") and not call.keywords):
        _fail("Study._stage: make_safe_path call is not (self._out_path, ...)", call)
    rest = call.args[1:]
    if len(rest) == 1 and isinstance(rest[0], ast.Starred) and isinstance(rest[0].value, (ast.List, ast.Tuple)):
        rest = rest[0].value.elts
    if not all(isinstance(e, ast.Name) for e in rest):
        _fail("Study._stage: make_safe_path arguments are not plain names", call)
    return tuple(e.id for e in rest)


def _stepclass_structure(tree):
    step_cls = _find_class(tree, "StudyStep", STUDY)
    nm = _body(_find_property(step_cls, "name"))
    ok = (len(nm) == 2 and isinstance(nm[0], ast.If) and _same(nm[0].test, "self.nickname") and
          len(nm[0].body) == 1 and isinstance(nm[0].body[0], ast.Return) and
          _same(nm[0].body[0].value, "self.nickname") and not nm[0].orelse and
          isinstance(nm[1], ast.Return) and _same(nm[1].value, "self._name"))
    if not ok:
        _fail("StudyStep.name is not `if self.nickname: return self.nickname; return self._name`")
    rn = _body(_find_property(step_cls, "real_name"))
    if not (len(rn) == 1 and isinstance(rn[0], ast.Return) and _same(rn[0].value, "self._name")):
        _fail("StudyStep.real_name is not `return self._name`")
    setters = [n for n in step_cls.body if isinstance(n, ast.FunctionDef) and n.name == "name" and
               any(isinstance(d, ast.Attribute) and d.attr == "setter" for d in n.decorator_list)]
    if len(setters) != 1 or not any(
            isinstance(x, ast.Assign) and _same(x.targets[0], "self._name") and _same(x.value, "value")
            for x in _body(setters[0])):
        _fail("StudyStep.name setter does not assign self._name = value")


def _stage_structure(stage, ws_assigns):
    par = _parents(stage)
    nicks = [a for a in _assigns(stage, "nickname") if not _is_none(a.value)]
    if len(nicks) != 1 or not _same(nicks[0].value, 'md5(combo_str.encode("utf-8")).hexdigest()'):
        _fail("Study._stage: nickname is not md5(combo_str.encode('utf-8')).hexdigest()")
    g = par.get(nicks[0])
    if not (isinstance(g, ast.If) and _same(g.test, "self._hash_ws") and nicks[0] in g.body):
        _fail("Study._stage: nickname not computed under `if self._hash_ws:`", nicks[0])
    hashed = [a for a in ws_assigns if _msp_args(a.value) == ("step", "nickname")]
    plain = [a for a in ws_assigns if _msp_args(a.value) == ("step", "combo_str")]
    if hashed[0] not in g.body or plain[0] not in g.orelse:
        _fail("Study._stage: hashed/plain workspace not in the two branches of `if self._hash_ws`", g)
    if not any(_is_none(a.value) for a in _assigns(stage, "nickname")):
        _fail("Study._stage: nickname is not reset to None for every combination")
    got = {(_dump(a.targets[0]), _dump(a.value)) for a in ast.walk(stage)
           if isinstance(a, ast.Assign) and len(a.targets) == 1}
    for t_, v in (("step_exp.name", "combo_str"), ("step_exp.nickname", "nickname"),
                  ("self.workspaces[combo_str]", "workspace"), ("self.workspaces[step]", "workspace")):
        if (_dump(_expr(t_)), _dump(_expr(v))) not in got:
            _fail("Study._stage: missing `%s = %s`" % (t_, v))
    adds = [n for n in ast.walk(stage) if isinstance(n, ast.Call) and _same(n.func, "dag.add_step")]
    if len(adds) != 2 or not all(len(c.args) >= 3 and _same(c.args[2], "workspace") for c in adds):
        _fail("Study._stage: dag.add_step is not called twice with the computed workspace")
    if not any(_same(c.args[0], "step_exp.real_name") and _same(c.args[1], "step_exp") for c in adds):
        _fail("Study._stage: expanded step not added under step_exp.real_name")
    if not any(_same(c.args[0], "step") for c in adds):
        _fail("Study._stage: unparameterised step not added under its own name")


def _study_shapes(repo):
    tree = _parse(repo, STUDY)
    _soft(_stepclass_structure, tree)
    study_cls = _find_class(tree, "Study", STUDY)
    stage = _find_method(study_cls, "_stage")
    # DATA: the argument lists of the make_safe_path calls that produce a workspace
    ws_assigns = [a for a in _assigns(stage, "workspace")]
    ws_shapes = []
    for a in ws_assigns:
        v = a.value
        if not (isinstance(v, ast.Call) and isinstance(v.func, ast.Name) and v.func.id == "make_safe_path"):
            _fail("Study._stage: workspace assigned from something else than make_safe_path", a)
        ws_shapes.append(_msp_args(v))
    if sorted(set(ws_shapes)) != sorted([("step",), ("step", "nickname"), ("step", "combo_str")]):
        _fail("Study._stage: workspace shapes are %r" % (sorted(set(ws_shapes)),))
    # DATA: instance name  combo_str = "{}_{}".format(step, combo_str)  (any string-building form)
    leaf = lambda n: (("step",) if _same(n, "step") else ("combo",) if _same(n, "combo_str") else None)  # noqa: E731
    sep = None
    for a in _assigns(stage, "combo_str"):
        try:
            pieces = _merge(_sym(a.value, leaf, {}, "Study._stage instance name"))
        except NotTranslatable:
            continue
        if len(pieces) == 3 and pieces[0] == ("step",) and pieces[1][0] == "lit" and pieces[2] == ("combo",):
            if sep is not None and sep != pieces[1][1]:
                _fail("Study._stage: two different instance-name separators")
            sep = pieces[1][1]
    if sep is None:
        _fail("Study._stage: no `combo_str = <step><sep><combo_str>` instance name found")
    _soft(_stage_structure, stage, ws_assigns)
    return sep


def _exec_shapes(repo):
    tree = _parse(repo, EXECG)
    rec = _find_class(tree, "_StepRecord", EXECG)
    nm = _body(_find_property(rec, "name"))
    if not (len(nm) == 1 and isinstance(nm[0], ast.Return) and _same(nm[0].value, "self.step.real_name")):
        _fail("_StepRecord.name is not `return self.step.real_name`")
    init = _find_method(rec, "__init__")
    if not any(_same(a.value, 'Variable("WORKSPACE", workspace)') for a in _attr_assigns(init, "self", "workspace")):
        _fail("_StepRecord.__init__: self.workspace is not Variable('WORKSPACE', workspace)")
    sw = _body(_find_method(rec, "setup_workspace"))
    if not (len(sw) == 1 and isinstance(sw[0], ast.Expr) and
            _same(sw[0].value, "create_parentdir(self.workspace.value)")):
        _fail("_StepRecord.setup_workspace is not create_parentdir(self.workspace.value)")
    gs = _find_method(rec, "generate_script")
    ifs = [st for st in _body(gs) if isinstance(st, ast.If)]
    if len(ifs) != 1 or not _same(ifs[0].test, "tmp_dir"):
        _fail("_StepRecord.generate_script: no single `if tmp_dir:`", gs)
    tb = [st for st in ifs[0].body if not _is_noise(st)]
    eb = [st for st in ifs[0].orelse if not _is_noise(st)]
    ok_t = (len(tb) == 2 and isinstance(tb[0], ast.Assign) and _same(tb[0].targets[0], "scr_dir") and
            _same(tb[0].value, 'os.path.join(tmp_dir, md5(self.name.encode("utf-8")).hexdigest())') and
            isinstance(tb[1], ast.Expr) and _same(tb[1].value, "create_parentdir(scr_dir)"))
    ok_e = (len(eb) == 1 and isinstance(eb[0], ast.Assign) and _same(eb[0].targets[0], "scr_dir") and
            _same(eb[0].value, "self.workspace.value"))
    if not (ok_t and ok_e):
        _fail("_StepRecord.generate_script: script directory is not <tmp>/<md5(name)> | workspace", ifs[0])
    calls = [n for n in ast.walk(gs) if isinstance(n, ast.Call) and _same(n.func, "adapter.write_script")]
    if len(calls) != 1 or not (len(calls[0].args) == 2 and _same(calls[0].args[0], "scr_dir") and
                               _same(calls[0].args[1], "self.step")):
        _fail("_StepRecord.generate_script: not exactly one adapter.write_script(scr_dir, self.step)", gs)
    ex = _find_method(rec, "_execute")
    subs = [n for n in ast.walk(ex) if isinstance(n, ast.Call) and isinstance(n.func, ast.Attribute) and
            n.func.attr == "submit"]
    if len(subs) != 2 or not all(len(c.args) == 3 and _same(c.args[0], "self.step") and _same(c.args[1], "script") and
                                 _same(c.args[2], "self.workspace.value") for c in subs):
        _fail("_StepRecord._execute: submit is not called as (self.step, script, self.workspace.value)", ex)
    g = _find_class(tree, "ExecutionGraph", EXECG)
    init = _find_method(g, "__init__")
    tmp = _attr_assigns(init, "self", "_tmp_dir")
    if sorted(_dump(a.value) for a in tmp) != sorted([_dump(_expr("tempfile.mkdtemp()")), _dump(_expr('""'))]):
        _fail("ExecutionGraph.__init__: _tmp_dir is not tempfile.mkdtemp() | ''")
    add = _find_method(g, "add_step")
    if not any(isinstance(n, ast.Dict) and any(
            isinstance(k, ast.Constant) and k.value == "workspace" and _same(v, "workspace")
            for k, v in zip(n.keys, n.values)) for n in ast.walk(add)):
        _fail("ExecutionGraph.add_step: record not built with workspace=workspace")


# ----------------------------------------------------------------------------
# emission
# ----------------------------------------------------------------------------
def _g_codes(s):
    return "[" + "; ".join("%d%%N" % ord(c) for c in s) + "]"


def _g_str(s):
    if all(32 <= ord(c) < 127 and c != '"' for c in s):
        return '(s "%s")' % s
    return _g_codes(s)


def _g_piece(p):
    if p[0] == "lit":
        return "TLit %s" % _g_str(p[1])
    return {"name": "TName", "real": "TRealName", "pid": "TPid"}[p[0]]


def _g_tmpl(t):
    return "[" + "; ".join(_g_piece(p) for p in t) + "]"


def _write_notes():
    try:
        import json
        from harness import common
        os.makedirs(common.WORK, exist_ok=True)
        with open(os.path.join(common.WORK, "tdata_misc_notes.json"), "w") as f:
            json.dump(NOTES, f, indent=1)
    except Exception:
        pass


def generate(repo):
    del NOTES[:]
    try:
        return _generate(repo)
    finally:
        _write_notes()


def _generate(repo):
    alphabet, replaces = _safe_path(repo)
    scripts, restarts, local_cls = {}, {}, None
    for aid, rel, cname in ADAPTERS:
        f, r, cls = _adapter(repo, rel, cname)
        scripts[aid], restarts[aid] = f, r
        if aid == "ALocal":
            local_cls = cls
    out_t, err_t = _local_outputs(local_cls)
    sep = _study_shapes(repo)
    _soft(_exec_shapes, repo)        # structure of the hand-written part: advisory

    L = []
    L.append("(** GENERATED by translate/tdata_misc.py from the source text of /repo -- do not edit.")
    L.append("    make_safe_path's alphabet and replace rules (maestrowf/utils.py), the script /")
    L.append("    restart-script file-name templates of the four adapters' _write_script, the")
    L.append("    output file names of LocalScriptAdapter.submit, and the workspace shapes of")
    L.append("    Study._stage (data: fail-closed).  The structural facts SafePath.v hard-wires are")
    L.append("    checked too, as advisory notes: see the doc-string of the generator. *)")
    L.append("From MWF Require Import Base.Str.")
    L.append("")
    L.append("(* the `valid` string, as code points, in source order *)")
    L.append("Definition safe_alphabet : list N :=")
    L.append("  " + _g_codes(alphabet) + ".")
    L.append("")
    L.append("(* `arg = arg.replace(a, b)` statements after the filter, in order *)")
    L.append("Definition safe_replaces : list (N * str) :=")
    L.append("  [" + "; ".join("(%d%%N, %s)" % (ord(a), _g_codes(b)) for a, b in replaces) + "].")
    L.append("")
    L.append("Inductive adapter := ALocal | ASlurm | ALsf | AFlux.")
    L.append("(* TName = step.name (the nickname when there is one), TRealName = step.real_name *)")
    L.append("Inductive tpiece := TLit (x : str) | TName | TRealName | TPid.")
    L.append("")
    for title, tbl in (("script_tmpl", scripts), ("restart_tmpl", restarts)):
        L.append("Definition %s (a : adapter) : list tpiece :=" % title)
        L.append("  match a with")
        for aid, _, _ in ADAPTERS:
            L.append("  | %s => %s" % (aid, _g_tmpl(tbl[aid])))
        L.append("  end.")
        L.append("")
    L.append("(* LocalScriptAdapter.submit: os.path.join(cwd, <template>) *)")
    L.append("Definition out_tmpl : list tpiece := %s." % _g_tmpl(out_t))
    L.append("Definition err_tmpl : list tpiece := %s." % _g_tmpl(err_t))
    L.append("")
    L.append("(* Study._stage: arguments of make_safe_path(self._out_path, *[...]) *)")
    L.append("Inductive wcomp := WStep | WCombo | WNick.")
    L.append("Definition ws_unparam : list wcomp := [WStep].")
    L.append("Definition ws_plain : list wcomp := [WStep; WCombo].")
    L.append("Definition ws_hashed : list wcomp := [WStep; WNick].")
    L.append("(* instance name = step ++ iname_sep ++ combination string *)")
    L.append("Definition iname_sep : str := %s." % _g_str(sep))
    L.append("")
    return {OUT: "\n".join(L)}

"""T-code for C08 / C11 / C13_stageable / C18_stage_function: regenerate the
Gallina text of the parameter-expansion code as Expand/StageGen.v.

Sources (parsed with `ast`, never imported):
  maestrowf/datastructures/core/parameters.py
      Combination.get_param_string, Combination.get_param_values,
      ParameterGenerator._get_used_parameters, ParameterGenerator.get_used_parameters
  maestrowf/datastructures/core/executiongraph.py
      ExecutionGraph.add_step, ExecutionGraph.add_connection
  maestrowf/datastructures/core/study.py
      the module constants SOURCE / WSREGEX / ALL_COMBOS (pinned), the five
      management dictionaries of Study.__init__, Study._stage, Study.stage

A fail-closed, typed statement / expression level translator.  Every Python
construct it understands maps to one combinator of Expand/StageOps.v:

  values        str | set (of names or of parameter keys) | list of str |
                dictionaries self.workspaces / hub_depends / depends / used_params /
                step_combos | a StudyStep | a workspace path (make_safe_path) |
                the ExecutionGraph `dag` | a Combination (= a row) | int
  expressions   literals, locals, SOURCE, self._out_path, self._restart_limit,
                node.run["cmd"|"restart"|"depends"], x.real_name, self.values[k],
                self.<dict>[k] (dict_get when the SAME iteration assigned that key
                before, otherwise a KeyError-raising dict_item), set(), a | b,
                "fmt".format(..), x.replace(a, b), re.sub(ALL_COMBOS, "", x),
                re.findall(WSREGEX, x), make_safe_path(self._out_path, *[..]),
                combo.get_param_string(..) / get_param_values(..),
                self.parameters.get_used_parameters(..), copy.deepcopy(node),
                x in <set> / <dict> / <str>, ==, not / and / or, truth tests
  statements    x = e, x |= e, self.<dict>[k] = e, self.<dict>[k].add(e),
                node.run[..] = e, step_exp.name = e, modified, s = node.apply_parameters(combo),
                dag.add_node / add_step / add_connection, if / elif / else (code after an
                `if` is copied into both branches; an if/else of two plain assignments
                to one variable becomes one `let`), for over a list / a SET (through
                the order oracle `pi`) / self.parameters, continue, raise, return
  frames        the body of `for step in t_sorted`, the branch of a step without used
                parameters and the body of `for combo in self.parameters` are emitted as
                separate definitions over ALL variables in scope (so the signatures do
                not depend on what the bodies mention)

Python variable names are kept.  A wrong set in a membership test, a dropped
`sorted`, a funnel / ordinary mix-up, a dropped half of an `or`, a wrong variable
for rlimit or the workspace, an edge to one instance instead of all CHANGE the
generated text; Expand/StageGenProofs.v proves the generated definitions equal
to the hand-written model of Expand/Expand.v, so such a change breaks a proof
obligation.  Logging, doc strings, message strings are dropped; the
`self._hash_ws` branch is pinned verbatim (the model has hash_ws off); anything
else outside the templates raises NotTranslatable.
"""
import ast
import os
import re

from translate.regen import NotTranslatable

PARAMS = "maestrowf/datastructures/core/parameters.py"
EXECG = "maestrowf/datastructures/core/executiongraph.py"
STUDY = "maestrowf/datastructures/core/study.py"
OUT = "Expand/StageGen.v"

RESERVED = set("""at as end fun let match with return fix cofix forall exists struct where using by then else if in
Type Prop Set SProp mod s str nat list option bool true false Some None S O sp ps ap san pi call dict path graph
rec spec param result usedmap sstate nonempty staged""".split())

# the management dictionaries of Study and the type of their values
FIELD_TYPES = {"workspaces": "str", "hub_depends": "set", "depends": "set", "used_params": "set",
               "step_combos": "set"}

GTYPE = {"str": "str", "set": "list str", "strlist": "list str", "dict:str": "dict str",
         "dict:set": "dict (list str)", "path": "path", "step": "study_step", "graph": "graph",
         "nat": "nat", "kvs": "list (str * str)", "combo": "nat", "rec": "rec"}

WSREGEX_TEXT = r"\$\(([-!\$%\^&\*\(\)_\+\|~=`{}\[\]:;<>\?,\.\/\w]+)\.workspace\)"
ALL_COMBOS_TEXT = r"_\*|\*"
PARAM_REGEX_TEXT = r"\{}\({}(?:\.\w+)?\)"

_CTX = re.compile(r", (?:Load|Store|Del)\(\)")


class T:
    src = "?"


def bad(node, why):
    raise NotTranslatable("%s: line %s: %s" % (T.src, getattr(node, "lineno", "?"), why))


def D(node):
    return _CTX.sub("", ast.dump(node, annotate_fields=False))


def P(src, mode="eval"):
    t = ast.parse(src, mode=mode)
    return D(t.body if mode == "eval" else t.body[0])


def G(name):
    if name == "_":
        return "u_"
    return name + "_" if name in RESERVED or name.endswith("_gen") else name


def g_str(x):
    if x and all(32 <= ord(c) < 127 and c != '"' for c in x):
        return '(s "%s")' % x
    return "[" + "; ".join("%d%%N" % ord(c) for c in x) + "]"


def src_of(node):
    return ast.unparse(node).split("\n")[0][:90]


def atom(t):
    if " " not in t or (t[0] == "[" and t[-1] == "]" and t.count("[") == 1):
        return t
    if t[0] == "(" and t[-1] == ")":
        depth = 0
        for i, ch in enumerate(t):
            depth += ch == "("
            depth -= ch == ")"
            if depth == 0 and i < len(t) - 1:
                break
        else:
            return t
    return "(%s)" % t


def tup(names):
    return G(names[0]) if len(names) == 1 else "(%s)" % ", ".join(G(n) for n in names)


def pat(names):
    return G(names[0]) if len(names) == 1 else "'(%s)" % ", ".join(G(n) for n in names)


def close(lines, n=1):
    lines = list(lines)
    lines[-1] += ")" * n
    return lines


def is_doc(st):
    return isinstance(st, ast.Expr) and isinstance(st.value, ast.Constant) and isinstance(st.value.value, str)


def is_logging(st):
    if isinstance(st, ast.Expr) and isinstance(st.value, ast.Call):
        f = st.value.func
        return isinstance(f, ast.Attribute) and isinstance(f.value, ast.Name) and \
            f.value.id in ("LOGGER", "logger", "logging")
    return False


def const_str(e):
    return e.value if isinstance(e, ast.Constant) and isinstance(e.value, str) else None


def self_attr(e, name=None):
    ok = isinstance(e, ast.Attribute) and isinstance(e.value, ast.Name) and e.value.id == "self"
    return ok and (name is None or e.attr == name)


def field_of(e):
    """self.<management dictionary> -> its name"""
    return e.attr if self_attr(e) and e.attr in FIELD_TYPES else None


def is_string_expr(e):
    if const_str(e) is not None:
        return True
    if isinstance(e, ast.Call) and isinstance(e.func, ast.Attribute) and e.func.attr == "format":
        return is_string_expr(e.func.value)
    return False


def params_of(fn, names):
    a = fn.args
    got = [x.arg for x in a.args]
    if a.vararg or a.kwarg or a.kwonlyargs or getattr(a, "posonlyargs", None) or fn.decorator_list or \
            got != ["self"] + names:
        bad(fn, "signature of %s changed (expected %s)" % (fn.name, ", ".join(["self"] + names)))


def find_class(tree, name):
    for n in tree.body:
        if isinstance(n, ast.ClassDef) and n.name == name:
            return n
    bad(tree, "class %s not found" % name)


def find_fn(cls, name):
    found = [n for n in cls.body if isinstance(n, ast.FunctionDef) and n.name == name]
    if len(found) != 1:
        bad(cls, "method %s.%s not found exactly once" % (cls.name, name))
    return found[0]


def group_params(pairs):
    """[(name, gallina type)] -> '(a b : T) (c : U)'"""
    out, i = [], 0
    while i < len(pairs):
        j = i
        while j + 1 < len(pairs) and pairs[j + 1][1] == pairs[i][1]:
            j += 1
        out.append("(%s : %s)" % (" ".join(G(n) for n, _t in pairs[i:j + 1]), pairs[i][1]))
        i = j + 1
    return " ".join(out)


def gtype(ty):
    if ty not in GTYPE:
        raise NotTranslatable("internal: no Gallina type for %s" % ty)
    return GTYPE[ty]


def tuple_type(cx, names):
    return " * ".join(gtype(cx.env[n]) for n in names)


# ----------------------------------------------------------------------------
# context
# ----------------------------------------------------------------------------
class Cx:
    def __init__(self, fn, frame):
        self.fn = fn
        self.frame = frame          # 'stage' | 'combination' | 'pgen' | 'graph'
        self.env = {}               # python variable -> type, in definition order
        self.present = set()        # (dictionary, key variable) assigned in this iteration
        self.msgvars = set()        # string variables only used in messages
        self.ignored = set()        # variables without a model counterpart
        self.pure = False           # no exceptions / oracle: plain values instead of option
        self.defs = None            # list collecting the definitions split off
        self.kw = {}                # name -> {key: ast} of `data = {...}` keyword dictionaries
        self.loop_depth = 0

    def fork(self):
        c = Cx(self.fn, self.frame)
        c.__dict__.update(self.__dict__)
        c.env = dict(self.env)
        c.present = set(self.present)
        c.kw = dict(self.kw)
        return c

    def fresh(self):
        for n in ["v_"] + ["v_%d" % i for i in range(50)]:
            if n not in self.env:
                return n
        bad(self.fn, "too many nested lookups")


def used_outside_messages(fn, name):
    """is the variable read anywhere but in logging calls and `raise X(name)`?"""
    class V(ast.NodeVisitor):
        hit = False

        def visit_Expr(self, st):
            if not is_logging(st):
                self.generic_visit(st)

        def visit_Raise(self, st):
            pass

        def visit_Name(self, n):
            if n.id == name and isinstance(n.ctx, ast.Load):
                self.hit = True
    v = V()
    v.visit(fn)
    return v.hit


# ----------------------------------------------------------------------------
# expressions: expr(cx, e, hoist) -> (text, type); KeyError-raising lookups are
# appended to `hoist` as (dictionary text, key text, variable) and wrap the statement
# ----------------------------------------------------------------------------
def to_str(x):
    t, ty = x
    if ty == "path":
        return "path_str %s" % atom(t)
    return t


def want(cx, e, hoist, types, what):
    t, ty = expr(cx, e, hoist)
    if ty == "path" and "str" in types and "path" not in types:
        return to_str((t, ty)), "str"
    if ty not in types:
        bad(e, "%s: `%s` is a %s, expected %s" % (what, src_of(e), ty, "/".join(types)))
    return t, ty


def run_key(cx, e):
    """X.run["k"] for a StudyStep variable X -> (X, k)"""
    if isinstance(e, ast.Subscript) and isinstance(e.value, ast.Attribute) and e.value.attr == "run" and \
            isinstance(e.value.value, ast.Name) and cx.env.get(e.value.value.id) == "step" and \
            const_str(e.slice) is not None:
        return e.value.value.id, e.slice.value
    return None


RUN_READ = {"cmd": ("run_cmd", "str"), "restart": ("run_restart", "str"), "depends": ("run_depends", "strlist")}


def lookup(cx, e, hoist, name=None):
    """self.<dict>[k] -> (text, type)"""
    f = field_of(e.value)
    if cx.frame != "stage":
        bad(e, "dictionary lookup outside Study._stage")
    if self_attr(e.value, "values"):
        k, _ = want(cx, e.slice, hoist, ("str",), "key of self.values")
        if hoist is None:
            bad(e, "a lookup that can raise is not supported here")
        v = name or cx.fresh()
        hoist.append(("(study_values sp)", k, v, "step"))
        return G(v), "step"
    if not f:
        bad(e, "subscript `%s` is outside the templates" % src_of(e))
    k, _ = want(cx, e.slice, hoist, ("str",), "dictionary key")
    if FIELD_TYPES[f] == "set" and isinstance(e.slice, ast.Name) and (f, e.slice.id) in cx.present:
        return "dict_get %s %s" % (atom(k), f), "set"
    if hoist is None:
        bad(e, "a lookup that can raise is not supported here: " + src_of(e))
    v = name or cx.fresh()
    hoist.append((f, k, v, FIELD_TYPES[f]))
    cx.env[v] = FIELD_TYPES[f]          # in scope for the rest of the statement's continuation
    return G(v), FIELD_TYPES[f]


def expr(cx, e, hoist):
    c = const_str(e)
    if c is not None:
        return g_str(c), "str"
    if isinstance(e, ast.Constant) and isinstance(e.value, int) and not isinstance(e.value, bool) and 0 <= e.value < 1000:
        return str(e.value), "nat"
    if isinstance(e, ast.Name):
        if e.id == "SOURCE" and cx.frame == "stage":
            return "SOURCE", "str"
        if e.id in cx.ignored or e.id in cx.msgvars:
            bad(e, "`%s` has no counterpart in the model" % e.id)
        if e.id in cx.env:
            return G(e.id), cx.env[e.id]
        bad(e, "unknown variable `%s`" % e.id)
    if isinstance(e, ast.Attribute):
        if cx.frame == "stage" and self_attr(e, "_out_path"):
            return "out_path sp", "str"
        if cx.frame == "stage" and self_attr(e, "_restart_limit"):
            return "restart_limit sp", "nat"
        if cx.frame in ("combination", "pgen") and (self_attr(e, "_token") or self_attr(e, "token")):
            return "combo_token", "str"
        if e.attr == "real_name" and isinstance(e.value, ast.Name) and cx.env.get(e.value.id) == "step":
            return "step_real_name %s" % G(e.value.id), "str"
        if e.attr == "__dict__" and isinstance(e.value, ast.Name) and cx.env.get(e.value.id) == "step":
            return "step_dict %s" % G(e.value.id), "pyval"
        bad(e, "attribute `%s` is outside the templates" % src_of(e))
    if isinstance(e, ast.List):
        items = [want(cx, x, hoist, ("str",), "list element")[0] for x in e.elts]
        return "[" + "; ".join(items) + "]", "strlist"
    if isinstance(e, ast.Subscript):
        rk = run_key(cx, e)
        if rk:
            if rk[1] not in RUN_READ:
                bad(e, "run[%r] is not modelled" % rk[1])
            fn_, ty = RUN_READ[rk[1]]
            return "%s %s" % (fn_, G(rk[0])), ty
        if cx.frame == "combination" and (self_attr(e.value, "_labels") or self_attr(e.value, "_params")):
            k, _ = want(cx, e.slice, hoist, ("str",), "key")
            tbl = "combo_labels" if e.value.attr == "_labels" else "combo_params"
            return "combo_item (%s ps combo) %s" % (tbl, atom(k)), "str"
        if isinstance(e.value, ast.Attribute):
            return lookup(cx, e, hoist)
        bad(e, "subscript `%s` is outside the templates" % src_of(e))
    if isinstance(e, ast.BinOp) and isinstance(e.op, ast.BitOr):
        a, _ = want(cx, e.left, hoist, ("set",), "operand of |")
        b, _ = want(cx, e.right, hoist, ("set",), "operand of |")
        return "pk_union (sp_params sp) %s %s" % (atom(a), atom(b)), "set"
    if isinstance(e, (ast.Compare, ast.BoolOp)) or (isinstance(e, ast.UnaryOp) and isinstance(e.op, ast.Not)):
        return cond(cx, e, hoist), "bool"
    if isinstance(e, ast.Call):
        return call_expr(cx, e, hoist)
    bad(e, "expression `%s` is outside the templates" % src_of(e))


def call_expr(cx, e, hoist):
    f = e.func
    dump = D(f)
    if isinstance(f, ast.Name) and f.id == "set" and not e.args and not e.keywords:
        return "set_empty", "set"
    if isinstance(f, ast.Name) and f.id == "sorted" and len(e.args) == 1 and not e.keywords:
        a, _ = want(cx, e.args[0], hoist, ("set", "strlist"), "argument of sorted")
        return "py_sorted %s" % atom(a), "strlist"
    if e.keywords:
        bad(e, "keyword arguments are outside the templates: " + src_of(e))
    if cx.frame == "stage":
        if dump == P("self.parameters.get_used_parameters") and len(e.args) == 1:
            a, _ = want(cx, e.args[0], hoist, ("step",), "argument of get_used_parameters")
            return "get_used_parameters_gen (sp_params sp) %s" % atom(a), "set"
        if dump == P("re.sub") and len(e.args) == 3 and D(e.args[0]) == P("ALL_COMBOS") and const_str(e.args[1]) == "":
            a, _ = want(cx, e.args[2], hoist, ("str",), "argument of re.sub")
            return "re_sub_all_combos %s" % atom(a), "str"
        if dump == P("re.findall") and len(e.args) == 2 and D(e.args[0]) == P("WSREGEX"):
            a, _ = want(cx, e.args[1], hoist, ("str",), "argument of re.findall")
            return "re_findall_wsregex %s" % atom(a), "strlist"
        if isinstance(f, ast.Name) and f.id == "make_safe_path" and e.args:
            base, _ = want(cx, e.args[0], hoist, ("str",), "base of make_safe_path")
            rest = e.args[1:]
            if len(rest) == 1 and isinstance(rest[0], ast.Starred) and isinstance(rest[0].value, ast.List):
                comps = rest[0].value.elts
            elif rest and not any(isinstance(x, ast.Starred) for x in rest):
                comps = rest
            else:
                bad(e, "components of make_safe_path are outside the templates")
            cs = [want(cx, x, hoist, ("str",), "path component")[0] for x in comps]
            return "make_safe_path san %s [%s]" % (atom(base), "; ".join(cs)), "path"
        if dump == P("copy.deepcopy") and len(e.args) == 1:
            a, _ = want(cx, e.args[0], hoist, ("step",), "argument of deepcopy")
            return "step_copy %s" % atom(a), "step"
        if isinstance(f, ast.Attribute) and isinstance(f.value, ast.Name) and cx.env.get(f.value.id) == "combo" and \
                f.attr in ("get_param_string", "get_param_values") and len(e.args) == 1:
            a, _ = want(cx, e.args[0], hoist, ("set",), "argument of " + f.attr)
            return "%s_gen (sp_params sp) %s %s" % (f.attr, G(f.value.id), atom(a)), \
                   ("str" if f.attr == "get_param_string" else "kvs")
    if isinstance(f, ast.Attribute) and f.attr == "format" and const_str(f.value) is not None and e.args:
        items = [want(cx, x, hoist, ("str",), "argument of format")[0] for x in e.args]
        if f.value.value.count("{}") != len(items) or "{" in f.value.value.replace("{}", "") or \
                "}" in f.value.value.replace("{}", ""):
            bad(e, "format string outside the templates")
        return "py_format %s [%s]" % (g_str(f.value.value), "; ".join(items)), "str"
    if isinstance(f, ast.Attribute) and f.attr == "replace" and len(e.args) == 2:
        x, _ = want(cx, f.value, hoist, ("str",), "receiver of replace")
        a, _ = want(cx, e.args[0], hoist, ("str",), "argument of replace")
        b, _ = want(cx, e.args[1], hoist, ("str",), "argument of replace")
        return "py_replace %s %s %s" % (atom(a), atom(b), atom(x)), "str"
    if isinstance(f, ast.Attribute) and f.attr == "join" and const_str(f.value) is not None and len(e.args) == 1:
        a, _ = want(cx, e.args[0], hoist, ("strlist",), "argument of join")
        return "py_join %s %s" % (g_str(f.value.value), atom(a)), "str"
    bad(e, "call `%s` is outside the templates" % src_of(e))


def truth(cx, e, hoist):
    t, ty = expr(cx, e, hoist)
    if ty == "bool":
        return t
    if ty in ("str", "set", "strlist", "kvs"):
        return "nonempty %s" % atom(t)
    bad(e, "truth test of a %s" % ty)


def cond(cx, e, hoist):
    if isinstance(e, ast.BoolOp):
        # every operand is evaluated here: a lookup that can raise must not hide behind a short circuit
        parts = [truth(cx, v, None if i else hoist) for i, v in enumerate(e.values)]
        parts = [atom(p) if (" && " in p or " || " in p) else p for p in parts]
        return (" && " if isinstance(e.op, ast.And) else " || ").join(parts)
    if isinstance(e, ast.UnaryOp) and isinstance(e.op, ast.Not):
        return "negb %s" % atom(truth(cx, e.operand, hoist))
    if isinstance(e, ast.Compare) and len(e.ops) == 1:
        l, op, r = e.left, e.ops[0], e.comparators[0]
        if isinstance(op, (ast.Eq, ast.NotEq)):
            a, _ = want(cx, l, hoist, ("str",), "operand of ==")
            b, _ = want(cx, r, hoist, ("str",), "operand of ==")
            t = "str_eqb %s %s" % (atom(a), atom(b))
            return t if isinstance(op, ast.Eq) else "negb (%s)" % t
        if isinstance(op, (ast.In, ast.NotIn)):
            a, _ = want(cx, l, hoist, ("str",), "left operand of in")
            if field_of(r) and cx.frame == "stage":
                t = "dict_has %s %s" % (atom(a), r.attr)
            else:
                b, ty = want(cx, r, hoist, ("set", "strlist", "str"), "right operand of in")
                if ty == "str":
                    if const_str(l) is None:
                        bad(e, "substring test with a non-literal needle")
                    t = "str_in %s %s" % (atom(a), atom(b))
                else:
                    t = "set_mem %s %s" % (atom(a), atom(b))
            return t if isinstance(op, ast.In) else "negb (%s)" % t
    return truth(cx, e, hoist)

"""T-code for C08 / C11 / C13_stageable / C18_stage_function: regenerate the
Gallina text of the parameter-expansion code as Expand/StageGen.v.

Sources (parsed with `ast`, never imported):
  maestrowf/datastructures/core/parameters.py
      Combination.get_param_string, Combination.get_param_values,
      ParameterGenerator._get_used_parameters, ParameterGenerator.get_used_parameters
  maestrowf/datastructures/core/executiongraph.py
      ExecutionGraph.add_step, ExecutionGraph.add_connection
  maestrowf/datastructures/core/study.py
      the module constants SOURCE / WSREGEX / ALL_COMBOS (pinned), the five
      management dictionaries of Study.__init__, Study._stage, Study.stage

A fail-closed, typed statement / expression level translator.  Every Python
construct it understands maps to one combinator of Expand/StageOps.v:

  values        str | set (of names or of parameter keys) | list of str |
                dictionaries self.workspaces / hub_depends / depends / used_params /
                step_combos | a StudyStep | a workspace path (make_safe_path) |
                the ExecutionGraph `dag` | a Combination (= a row) | int
  expressions   literals, locals, SOURCE, self._out_path, self._restart_limit,
                node.run["cmd"|"restart"|"depends"], x.real_name, self.values[k],
                self.<dict>[k] (dict_get when the SAME iteration assigned that key
                before, otherwise a KeyError-raising dict_item), set(), a | b,
                "fmt".format(..), x.replace(a, b), re.sub(ALL_COMBOS, "", x),
                re.findall(WSREGEX, x), make_safe_path(self._out_path, *[..]),
                combo.get_param_string(..) / get_param_values(..),
                self.parameters.get_used_parameters(..), copy.deepcopy(node),
                x in <set> / <dict> / <str>, ==, not / and / or, truth tests
  statements    x = e, x |= e, self.<dict>[k] = e, self.<dict>[k].add(e),
                node.run[..] = e, step_exp.name = e, modified, s = node.apply_parameters(combo),
                dag.add_node / add_step / add_connection, if / elif / else (code after an
                `if` is copied into both branches; an if/else of two plain assignments
                to one variable becomes one `let`), for over a list / a SET (through
                the order oracle `pi`) / self.parameters, continue, raise, return
  frames        the body of `for step in t_sorted`, the branch of a step without used
                parameters and the body of `for combo in self.parameters` are emitted as
                separate definitions over ALL variables in scope (so the signatures do
                not depend on what the bodies mention)

Python variable names are kept.  A wrong set in a membership test, a dropped
`sorted`, a funnel / ordinary mix-up, a dropped half of an `or`, a wrong variable
for rlimit or the workspace, an edge to one instance instead of all CHANGE the
generated text; Expand/StageGenProofs.v proves the generated definitions equal
to the hand-written model of Expand/Expand.v, so such a change breaks a proof
obligation.  Logging, doc strings, message strings are dropped; the
`self._hash_ws` branch is pinned verbatim (the model has hash_ws off); anything
else outside the templates raises NotTranslatable.
"""
import ast
import os
import re

from translate.regen import NotTranslatable

PARAMS = "maestrowf/datastructures/core/parameters.py"
EXECG = "maestrowf/datastructures/core/executiongraph.py"
STUDY = "maestrowf/datastructures/core/study.py"
OUT = "Expand/StageGen.v"

RESERVED = set("""at as end fun let match with return fix cofix forall exists struct where using by then else if in
Type Prop Set SProp mod s str nat list option bool true false Some None S O sp ps ap san pi call dict path graph
rec spec param result usedmap sstate nonempty staged""".split())

# the management dictionaries of Study and the type of their values
FIELD_TYPES = {"workspaces": "str", "hub_depends": "set", "depends": "set", "used_params": "set",
               "step_combos": "set"}

GTYPE = {"str": "str", "set": "list str", "strlist": "list str", "dict:str": "dict str",
         "dict:set": "dict (list str)", "path": "path", "step": "study_step", "graph": "graph",
         "nat": "nat", "kvs": "list (str * str)", "combo": "nat", "rec": "rec"}

WSREGEX_TEXT = r"\$\(([-!\$%\^&\*\(\)_\+\|~=`{}\[\]:;<>\?,\.\/\w]+)\.workspace\)"
ALL_COMBOS_TEXT = r"_\*|\*"
# ParameterGenerator._get_used_parameters builds  PARAM_REGEX_TEXT.format(re.escape(self.token), key).
# HYPOTHESIS of the tie (stated at StageOps.re_param_token_found): the model fixes the parameter token to
# the default "$"; re.escape("$") = "\\$", so for that token the pattern is  \$\(KEY(?:\.\w+)?\)  -- exactly
# the regex the scanner Expand.uses_key was written for (and the same as the former text r"\{}\(..." with
# the raw token).  Other tokens are tied by the correspondence run of C08 only.
PARAM_REGEX_TEXT = r"{}\({}(?:\.\w+)?\)"
PARAM_REGEX_ARGS = "re.escape(self.token), %s"

_CTX = re.compile(r", (?:Load|Store|Del)\(\)")


class T:
    src = "?"


def bad(node, why):
    raise NotTranslatable("%s: line %s: %s" % (T.src, getattr(node, "lineno", "?"), why))


def D(node):
    return _CTX.sub("", ast.dump(node, annotate_fields=False))


def P(src, mode="eval"):
    t = ast.parse(src, mode=mode)
    return D(t.body if mode == "eval" else t.body[0])


def G(name):
    if name == "_":
        return "u_"
    return name + "_" if name in RESERVED or name.endswith("_gen") else name


def g_str(x):
    if x and all(32 <= ord(c) < 127 and c != '"' for c in x):
        return '(s "%s")' % x
    return "[" + "; ".join("%d%%N" % ord(c) for c in x) + "]"


def src_of(node):
    return ast.unparse(node).split("\n")[0][:90]


def atom(t):
    if " " not in t or (t[0] == "[" and t[-1] == "]" and t.count("[") == 1):
        return t
    if t[0] == "(" and t[-1] == ")":
        depth = 0
        for i, ch in enumerate(t):
            depth += ch == "("
            depth -= ch == ")"
            if depth == 0 and i < len(t) - 1:
                break
        else:
            return t
    return "(%s)" % t


def tup(names):
    return G(names[0]) if len(names) == 1 else "(%s)" % ", ".join(G(n) for n in names)


def pat(names):
    return G(names[0]) if len(names) == 1 else "'(%s)" % ", ".join(G(n) for n in names)


def close(lines, n=1):
    lines = list(lines)
    lines[-1] += ")" * n
    return lines


def is_doc(st):
    return isinstance(st, ast.Expr) and isinstance(st.value, ast.Constant) and isinstance(st.value.value, str)


def is_logging(st):
    if isinstance(st, ast.Expr) and isinstance(st.value, ast.Call):
        f = st.value.func
        return isinstance(f, ast.Attribute) and isinstance(f.value, ast.Name) and \
            f.value.id in ("LOGGER", "logger", "logging")
    return False


def const_str(e):
    return e.value if isinstance(e, ast.Constant) and isinstance(e.value, str) else None


def self_attr(e, name=None):
    ok = isinstance(e, ast.Attribute) and isinstance(e.value, ast.Name) and e.value.id == "self"
    return ok and (name is None or e.attr == name)


def field_of(e):
    """self.<management dictionary> -> its name"""
    return e.attr if self_attr(e) and e.attr in FIELD_TYPES else None


def is_string_expr(e):
    if const_str(e) is not None:
        return True
    if isinstance(e, ast.Call) and isinstance(e.func, ast.Attribute) and e.func.attr == "format":
        return is_string_expr(e.func.value)
    return False


def params_of(fn, names):
    a = fn.args
    got = [x.arg for x in a.args]
    if a.vararg or a.kwarg or a.kwonlyargs or getattr(a, "posonlyargs", None) or fn.decorator_list or \
            got != ["self"] + names:
        bad(fn, "signature of %s changed (expected %s)" % (fn.name, ", ".join(["self"] + names)))


def find_class(tree, name):
    for n in tree.body:
        if isinstance(n, ast.ClassDef) and n.name == name:
            return n
    bad(tree, "class %s not found" % name)


def find_fn(cls, name):
    found = [n for n in cls.body if isinstance(n, ast.FunctionDef) and n.name == name]
    if len(found) != 1:
        bad(cls, "method %s.%s not found exactly once" % (cls.name, name))
    return found[0]


def group_params(pairs):
    """[(name, gallina type)] -> '(a b : T) (c : U)'"""
    out, i = [], 0
    while i < len(pairs):
        j = i
        while j + 1 < len(pairs) and pairs[j + 1][1] == pairs[i][1]:
            j += 1
        out.append("(%s : %s)" % (" ".join(G(n) for n, _t in pairs[i:j + 1]), pairs[i][1]))
        i = j + 1
    return " ".join(out)


def gtype(ty):
    if ty not in GTYPE:
        raise NotTranslatable("internal: no Gallina type for %s" % ty)
    return GTYPE[ty]


def tuple_type(cx, names):
    return " * ".join(gtype(cx.env[n]) for n in names)


# ----------------------------------------------------------------------------
# context
# ----------------------------------------------------------------------------
class Cx:
    def __init__(self, fn, frame):
        self.fn = fn
        self.frame = frame          # 'stage' | 'combination' | 'pgen' | 'graph'
        self.env = {}               # python variable -> type, in definition order
        self.present = set()        # (dictionary, key variable) assigned in this iteration
        self.msgvars = set()        # string variables only used in messages
        self.ignored = set()        # variables without a model counterpart
        self.pure = False           # no exceptions / oracle: plain values instead of option
        self.defs = None            # list collecting the definitions split off
        self.kw = {}                # name -> {key: ast} of `data = {...}` keyword dictionaries
        self.loop_depth = 0

    def fork(self):
        c = Cx(self.fn, self.frame)
        c.__dict__.update(self.__dict__)
        c.env = dict(self.env)
        c.present = set(self.present)
        c.kw = dict(self.kw)
        return c

    def fresh(self):
        for n in ["v_"] + ["v_%d" % i for i in range(50)]:
            if n not in self.env:
                return n
        bad(self.fn, "too many nested lookups")


def used_outside_messages(fn, name):
    """is the variable read anywhere but in logging calls and `raise X(name)`?"""
    class V(ast.NodeVisitor):
        hit = False

        def visit_Expr(self, st):
            if not is_logging(st):
                self.generic_visit(st)

        def visit_Raise(self, st):
            pass

        def visit_Name(self, n):
            if n.id == name and isinstance(n.ctx, ast.Load):
                self.hit = True
    v = V()
    v.visit(fn)
    return v.hit


# ----------------------------------------------------------------------------
# expressions: expr(cx, e, hoist) -> (text, type); KeyError-raising lookups are
# appended to `hoist` as (dictionary text, key text, variable) and wrap the statement
# ----------------------------------------------------------------------------
def to_str(x):
    t, ty = x
    if ty == "path":
        return "path_str %s" % atom(t)
    return t


def want(cx, e, hoist, types, what):
    t, ty = expr(cx, e, hoist)
    if ty == "path" and "str" in types and "path" not in types:
        return to_str((t, ty)), "str"
    if ty not in types:
        bad(e, "%s: `%s` is a %s, expected %s" % (what, src_of(e), ty, "/".join(types)))
    return t, ty


def run_key(cx, e):
    """X.run["k"] for a StudyStep variable X -> (X, k)"""
    if isinstance(e, ast.Subscript) and isinstance(e.value, ast.Attribute) and e.value.attr == "run" and \
            isinstance(e.value.value, ast.Name) and cx.env.get(e.value.value.id) == "step" and \
            const_str(e.slice) is not None:
        return e.value.value.id, e.slice.value
    return None


RUN_READ = {"cmd": ("run_cmd", "str"), "restart": ("run_restart", "str"), "depends": ("run_depends", "strlist")}


def lookup(cx, e, hoist, name=None):
    """self.<dict>[k] -> (text, type)"""
    f = field_of(e.value)
    if cx.frame != "stage":
        bad(e, "dictionary lookup outside Study._stage")
    if self_attr(e.value, "values"):
        k, _ = want(cx, e.slice, hoist, ("str",), "key of self.values")
        if hoist is None:
            bad(e, "a lookup that can raise is not supported here")
        v = name or cx.fresh()
        hoist.append(("(study_values sp)", k, v, "step"))
        return G(v), "step"
    if not f:
        bad(e, "subscript `%s` is outside the templates" % src_of(e))
    k, _ = want(cx, e.slice, hoist, ("str",), "dictionary key")
    if FIELD_TYPES[f] == "set" and isinstance(e.slice, ast.Name) and (f, e.slice.id) in cx.present:
        return "dict_get %s %s" % (atom(k), f), "set"
    if hoist is None:
        bad(e, "a lookup that can raise is not supported here: " + src_of(e))
    v = name or cx.fresh()
    hoist.append((f, k, v, FIELD_TYPES[f]))
    cx.env[v] = FIELD_TYPES[f]          # in scope for the rest of the statement's continuation
    return G(v), FIELD_TYPES[f]


def expr(cx, e, hoist):
    c = const_str(e)
    if c is not None:
        return g_str(c), "str"
    if isinstance(e, ast.Constant) and isinstance(e.value, int) and not isinstance(e.value, bool) and 0 <= e.value < 1000:
        return str(e.value), "nat"
    if isinstance(e, ast.Name):
        if e.id == "SOURCE" and cx.frame == "stage":
            return "SOURCE", "str"
        if e.id in cx.ignored or e.id in cx.msgvars:
            bad(e, "`%s` has no counterpart in the model" % e.id)
        if e.id in cx.env:
            return G(e.id), cx.env[e.id]
        bad(e, "unknown variable `%s`" % e.id)
    if isinstance(e, ast.Attribute):
        if cx.frame == "stage" and self_attr(e, "_out_path"):
            return "out_path sp", "str"
        if cx.frame == "stage" and self_attr(e, "_restart_limit"):
            return "restart_limit sp", "nat"
        if cx.frame in ("combination", "pgen") and (self_attr(e, "_token") or self_attr(e, "token")):
            return "combo_token", "str"
        if e.attr == "real_name" and isinstance(e.value, ast.Name) and cx.env.get(e.value.id) == "step":
            return "step_real_name %s" % G(e.value.id), "str"
        if e.attr == "__dict__" and isinstance(e.value, ast.Name) and cx.env.get(e.value.id) == "step":
            return "step_dict %s" % G(e.value.id), "pyval"
        bad(e, "attribute `%s` is outside the templates" % src_of(e))
    if isinstance(e, ast.List):
        items = [want(cx, x, hoist, ("str",), "list element")[0] for x in e.elts]
        return "[" + "; ".join(items) + "]", "strlist"
    if isinstance(e, ast.Subscript):
        rk = run_key(cx, e)
        if rk:
            if rk[1] not in RUN_READ:
                bad(e, "run[%r] is not modelled" % rk[1])
            fn_, ty = RUN_READ[rk[1]]
            return "%s %s" % (fn_, G(rk[0])), ty
        if cx.frame == "combination" and (self_attr(e.value, "_labels") or self_attr(e.value, "_params")):
            k, _ = want(cx, e.slice, hoist, ("str",), "key")
            tbl = "combo_labels" if e.value.attr == "_labels" else "combo_params"
            return "combo_item (%s ps combo) %s" % (tbl, atom(k)), "str"
        if isinstance(e.value, ast.Attribute):
            return lookup(cx, e, hoist)
        bad(e, "subscript `%s` is outside the templates" % src_of(e))
    if isinstance(e, ast.BinOp) and isinstance(e.op, ast.BitOr):
        a, _ = want(cx, e.left, hoist, ("set",), "operand of |")
        b, _ = want(cx, e.right, hoist, ("set",), "operand of |")
        return "pk_union (sp_params sp) %s %s" % (atom(a), atom(b)), "set"
    if isinstance(e, (ast.Compare, ast.BoolOp)) or (isinstance(e, ast.UnaryOp) and isinstance(e.op, ast.Not)):
        return cond(cx, e, hoist), "bool"
    if isinstance(e, ast.Call):
        return call_expr(cx, e, hoist)
    bad(e, "expression `%s` is outside the templates" % src_of(e))


def call_expr(cx, e, hoist):
    f = e.func
    dump = D(f)
    if isinstance(f, ast.Name) and f.id == "set" and not e.args and not e.keywords:
        return "set_empty", "set"
    if isinstance(f, ast.Name) and f.id == "sorted" and len(e.args) == 1 and not e.keywords:
        a, _ = want(cx, e.args[0], hoist, ("set", "strlist"), "argument of sorted")
        return "py_sorted %s" % atom(a), "strlist"
    if e.keywords:
        bad(e, "keyword arguments are outside the templates: " + src_of(e))
    if cx.frame == "stage":
        if dump == P("self.parameters.get_used_parameters") and len(e.args) == 1:
            a, _ = want(cx, e.args[0], hoist, ("step",), "argument of get_used_parameters")
            return "get_used_parameters_gen (sp_params sp) %s" % atom(a), "set"
        if dump == P("re.sub") and len(e.args) == 3 and D(e.args[0]) == P("ALL_COMBOS") and const_str(e.args[1]) == "":
            a, _ = want(cx, e.args[2], hoist, ("str",), "argument of re.sub")
            return "re_sub_all_combos %s" % atom(a), "str"
        if dump == P("re.findall") and len(e.args) == 2 and D(e.args[0]) == P("WSREGEX"):
            a, _ = want(cx, e.args[1], hoist, ("str",), "argument of re.findall")
            return "re_findall_wsregex %s" % atom(a), "strlist"
        if isinstance(f, ast.Name) and f.id == "make_safe_path" and e.args:
            base, _ = want(cx, e.args[0], hoist, ("str",), "base of make_safe_path")
            rest = e.args[1:]
            if len(rest) == 1 and isinstance(rest[0], ast.Starred) and isinstance(rest[0].value, ast.List):
                comps = rest[0].value.elts
            elif rest and not any(isinstance(x, ast.Starred) for x in rest):
                comps = rest
            else:
                bad(e, "components of make_safe_path are outside the templates")
            cs = [want(cx, x, hoist, ("str",), "path component")[0] for x in comps]
            return "make_safe_path san %s [%s]" % (atom(base), "; ".join(cs)), "path"
        if dump == P("copy.deepcopy") and len(e.args) == 1:
            a, _ = want(cx, e.args[0], hoist, ("step",), "argument of deepcopy")
            return "step_copy %s" % atom(a), "step"
        if isinstance(f, ast.Attribute) and isinstance(f.value, ast.Name) and cx.env.get(f.value.id) == "combo" and \
                f.attr in ("get_param_string", "get_param_values") and len(e.args) == 1:
            a, _ = want(cx, e.args[0], hoist, ("set",), "argument of " + f.attr)
            return "%s_gen (sp_params sp) %s %s" % (f.attr, G(f.value.id), atom(a)), \
                   ("str" if f.attr == "get_param_string" else "kvs")
    if isinstance(f, ast.Attribute) and f.attr == "format" and const_str(f.value) is not None and e.args:
        items = [want(cx, x, hoist, ("str",), "argument of format")[0] for x in e.args]
        if f.value.value.count("{}") != len(items) or "{" in f.value.value.replace("{}", "") or \
                "}" in f.value.value.replace("{}", ""):
            bad(e, "format string outside the templates")
        return "py_format %s [%s]" % (g_str(f.value.value), "; ".join(items)), "str"
    if isinstance(f, ast.Attribute) and f.attr == "replace" and len(e.args) == 2:
        x, _ = want(cx, f.value, hoist, ("str",), "receiver of replace")
        a, _ = want(cx, e.args[0], hoist, ("str",), "argument of replace")
        b, _ = want(cx, e.args[1], hoist, ("str",), "argument of replace")
        return "py_replace %s %s %s" % (atom(a), atom(b), atom(x)), "str"
    if isinstance(f, ast.Attribute) and f.attr == "join" and const_str(f.value) is not None and len(e.args) == 1:
        a, _ = want(cx, e.args[0], hoist, ("strlist",), "argument of join")
        return "py_join %s %s" % (g_str(f.value.value), atom(a)), "str"
    bad(e, "call `%s` is outside the templates" % src_of(e))


def truth(cx, e, hoist):
    t, ty = expr(cx, e, hoist)
    if ty == "bool":
        return t
    if ty in ("str", "set", "strlist", "kvs"):
        return "nonempty %s" % atom(t)
    bad(e, "truth test of a %s" % ty)


def cond(cx, e, hoist):
    if isinstance(e, ast.BoolOp):
        # every operand is evaluated here: a lookup that can raise must not hide behind a short circuit
        parts = [truth(cx, v, None if i else hoist) for i, v in enumerate(e.values)]
        parts = [atom(p) if (" && " in p or " || " in p) else p for p in parts]
        return (" && " if isinstance(e.op, ast.And) else " || ").join(parts)
    if isinstance(e, ast.UnaryOp) and isinstance(e.op, ast.Not):
        return "negb %s" % atom(truth(cx, e.operand, hoist))
    if isinstance(e, ast.Compare) and len(e.ops) == 1:
        l, op, r = e.left, e.ops[0], e.comparators[0]
        if isinstance(op, (ast.Eq, ast.NotEq)):
            a, _ = want(cx, l, hoist, ("str",), "operand of ==")
            b, _ = want(cx, r, hoist, ("str",), "operand of ==")
            t = "str_eqb %s %s" % (atom(a), atom(b))
            return t if isinstance(op, ast.Eq) else "negb (%s)" % t
        if isinstance(op, (ast.In, ast.NotIn)):
            a, _ = want(cx, l, hoist, ("str",), "left operand of in")
            if field_of(r) and cx.frame == "stage":
                t = "dict_has %s %s" % (atom(a), r.attr)
            else:
                b, ty = want(cx, r, hoist, ("set", "strlist", "str"), "right operand of in")
                if ty == "str":
                    if const_str(l) is None:
                        bad(e, "substring test with a non-literal needle")
                    t = "str_in %s %s" % (atom(a), atom(b))
                else:
                    t = "set_mem %s %s" % (atom(a), atom(b))
            return t if isinstance(op, ast.In) else "negb (%s)" % t
    if isinstance(e, ast.Compare):
        bad(e, "comparison `%s` is outside the templates" % src_of(e))
    return truth(cx, e, hoist)


# ----------------------------------------------------------------------------
# statements
# ----------------------------------------------------------------------------
PIN_DROP = None
PIN_HASH = None


def _pins():
    global PIN_DROP, PIN_HASH
    if PIN_DROP is None:
        PIN_DROP = [P("nickname = None", "exec"), P("step_exp.nickname = nickname", "exec")]
        PIN_HASH = [P('nickname = md5(combo_str.encode("utf-8")).hexdigest()', "exec"),
                    P("workspace = make_safe_path(self._out_path, *[step, nickname])", "exec")]


def effective(cx, stmts):
    _pins()
    out = []
    for st in stmts:
        if is_logging(st) or is_doc(st) or isinstance(st, ast.Pass):
            continue
        if cx.frame == "stage" and D(st) in PIN_DROP:
            continue
        if isinstance(st, ast.Assign) and len(st.targets) == 1 and isinstance(st.targets[0], ast.Name) and \
                st.targets[0].id not in cx.env and is_string_expr(st.value) and \
                not used_outside_messages(cx.fn, st.targets[0].id):
            cx.msgvars.add(st.targets[0].id)
            continue
        out.append(st)
    return out


def mutated(cx, stmts):
    """the variables / management dictionaries a statement list may assign"""
    out = set()

    def target(t):
        if isinstance(t, ast.Name):
            out.add(t.id)
        elif isinstance(t, ast.Tuple):
            for x in t.elts:
                target(x)
        elif isinstance(t, ast.Subscript):
            if field_of(t.value):
                out.add(t.value.attr)
            elif isinstance(t.value, ast.Attribute) and isinstance(t.value.value, ast.Name):
                out.add(t.value.value.id)
            elif isinstance(t.value, ast.Name):
                out.add(t.value.id)
        elif isinstance(t, ast.Attribute) and isinstance(t.value, ast.Name):
            out.add(t.value.id)

    for st in stmts:
        for n in ast.walk(st):
            if isinstance(n, ast.Assign):
                for t in n.targets:
                    target(t)
            elif isinstance(n, (ast.AugAssign, ast.AnnAssign)):
                target(n.target)
            elif isinstance(n, ast.For):
                target(n.target)
            elif isinstance(n, ast.Call) and isinstance(n.func, ast.Attribute):
                v = n.func.value
                if isinstance(v, ast.Subscript) and field_of(v.value):
                    out.add(v.value.attr)
                elif isinstance(v, ast.Name) and cx.env.get(v.id) in ("graph", "strlist", "set") and \
                        n.func.attr in ("add_node", "add_step", "add_connection", "add_edge", "append", "add",
                                        "remove", "discard", "update", "extend", "pop", "clear"):
                    out.add(v.id)
    return out


def wrap(pad, hoist):
    return [pad + "dict_item %s %s (fun %s =>" % (d, atom(k), G(v)) for d, k, v, _ty in hoist]


def define(cx, st, name, ty):
    if name in cx.msgvars or name in cx.ignored:
        bad(st, "`%s` is reused for a modelled value" % name)
    if name in cx.env and cx.env[name] != ty:
        bad(st, "variable `%s` changes from %s to %s" % (name, cx.env[name], ty))
    cx.env[name] = ty


def split_def(cx, name, comment, params, ret_names, body):
    if any(d[0] == name for d in cx.defs):
        bad(cx.fn, "the structure of %s changed: two candidates for %s" % (cx.fn.name, name))
    sig = "Definition %s (ap : list param -> nat -> str -> str) (san : str -> str) (pi : an_oracle) (sp : spec) %s : option (%s) :=" % (
        name, group_params([(n, gtype(cx.env[n])) for n in params]), tuple_type(cx, ret_names))
    cx.defs.append((name, ["(* %s *)" % comment, sig] + body))
    return "%s ap san pi sp %s" % (name, " ".join(G(n) for n in params))


def is_combo_loop(st):
    return isinstance(st, ast.For) and D(st.iter) == P("self.parameters")


def block(cx, stmts, ind, ret, ret_names):
    """Translate a statement list in tail position.  `ret` is the text of falling off the end
    (None: the function must return explicitly); `ret_names` the variables it hands on."""
    pad = "  " * ind
    stmts = effective(cx, stmts)
    if not stmts:
        if ret is None:
            bad(cx.fn, "%s must return explicitly on every path" % cx.fn.name)
        return [pad + ret]
    st, rest = stmts[0], stmts[1:]

    def go(c=None, r=None, i=None):
        return block(c or cx, rest if r is None else r, ind if i is None else i, ret, ret_names)

    def raising(hoist, lines_after):
        """wrap the continuation in the KeyError lookups of this statement"""
        return wrap(pad, hoist) + close(lines_after, len(hoist)) if hoist else lines_after

    # --- terminators ---------------------------------------------------------
    if isinstance(st, ast.Continue):
        if not cx.loop_depth or ret is None:
            bad(st, "continue outside a loop")
        return [pad + ret]
    if isinstance(st, ast.Raise):
        if cx.pure:
            bad(st, "raise in %s" % cx.fn.name)
        return [pad + "None"]
    if isinstance(st, ast.Return):
        if cx.loop_depth or cx.fn_ret is None:
            bad(st, "return at this position is outside the templates")
        return [pad + cx.fn_ret(cx, st)]
    if isinstance(st, ast.Expr) and isinstance(st.value, ast.Yield) and cx.yield_ok and not rest:
        v = st.value.value
        if not (isinstance(v, ast.Tuple) and len(v.elts) == 2):
            bad(st, "the generator must yield pairs")
        a, _ = want(cx, v.elts[0], None, ("str",), "yielded key")
        b, _ = want(cx, v.elts[1], None, ("str",), "yielded value")
        return [pad + "(%s, %s)" % (a, b)]

    # --- if --------------------------------------------------------------------
    if isinstance(st, ast.If):
        if cx.frame == "stage" and D(st.test) == P("self._hash_ws"):
            if [D(x) for x in effective(cx.fork(), st.body)] != PIN_HASH or not st.orelse:
                bad(st, "the `if self._hash_ws` branch is pinned (the model has hash_ws off) and it changed")
            return block(cx, list(st.orelse) + rest, ind, ret, ret_names)
        body, orelse = effective(cx.fork(), st.body), effective(cx.fork(), st.orelse)
        # if c: x = a  else: x = b   ->  let x := if c then a else b in
        if len(body) == 1 and len(orelse) == 1 and all(
                isinstance(b, ast.Assign) and len(b.targets) == 1 and isinstance(b.targets[0], ast.Name)
                for b in (body[0], orelse[0])) and body[0].targets[0].id == orelse[0].targets[0].id:
            trial, hoist = cx.fork(), []
            try:
                c = truth(trial, st.test, hoist)
                a, ta = expr(trial, body[0].value, hoist)
                b, tb = expr(trial, orelse[0].value, hoist)
            except NotTranslatable:
                hoist = [None]
            if not hoist and ta == tb:
                x = body[0].targets[0].id
                define(cx, st, x, ta)
                return [pad + "let %s := if %s then %s else %s in" % (G(x), c, a, b)] + go()
        # the branch of a step without used parameters is a definition of its own
        if cx.frame == "stage" and not rest and len(orelse) == 1 and is_combo_loop(orelse[0]) and cx.defs is not None:
            hoist = []
            c = truth(cx, st.test, hoist)
            if hoist:
                bad(st, "the test of the parameterised / unparameterised split can raise")
            sub = cx.fork()
            callee = split_def(cx, "_stage_unparam_gen", "Study._stage: the branch `if %s`" % src_of(st.test),
                               list(cx.env), ret_names, close_def(block(sub, body, 1, ret, ret_names)))
            return [pad + "if %s then" % c, pad + "  " + callee, pad + "else"] + \
                block(cx.fork(), orelse, ind + 1, ret, ret_names)
        hoist = []
        c = truth(cx, st.test, hoist)
        lines = [pad + "if %s then" % c] + block(cx.fork(), list(st.body) + rest, ind + 1, ret, ret_names)
        els = effective(cx.fork(), list(st.orelse) + rest)
        sub = None
        if els and isinstance(els[0], ast.If):
            sub = block(cx.fork(), els, ind, ret, ret_names)
            if sub[0].startswith(pad + "if "):
                lines = lines + [pad + "else " + sub[0].strip()] + sub[1:]
            else:
                sub = None
        if sub is None:
            lines = lines + [pad + "else"] + block(cx.fork(), els, ind + 1, ret, ret_names)
        return raising(hoist, lines)

    # --- for -------------------------------------------------------------------
    if isinstance(st, ast.For):
        if st.orelse or not isinstance(st.target, ast.Name):
            bad(st, "unsupported form of for loop")
        x = st.target.id
        hoist = []
        if is_combo_loop(st) and cx.frame == "stage":
            it, ety, kw = "combinations (sp_params sp)", "combo", "for_in"
        else:
            it, ity = want(cx, st.iter, hoist, ("set", "strlist"), "iterated value")
            ety = "str"
            if ity == "set":
                if cx.pure:
                    bad(st, "iteration over a set needs the order oracle, which %s does not have" % cx.fn.name)
                kw = "for_set pi"
            else:
                kw = "for_in"
        S = [v for v in cx.env if v in mutated(cx, st.body) and v != x]
        if not S:
            bad(st, "a loop that assigns nothing has no effect in the model")
        b = cx.fork()
        if x in b.env and b.env[x] != ety:
            bad(st, "loop variable `%s` shadows a %s" % (x, b.env[x]))
        b.env[x] = ety
        b.loop_depth += 1
        if cx.pure:
            if hoist:
                bad(st, "a lookup that can raise in %s" % cx.fn.name)
            body = block(b, st.body, ind + 1, tup(S), S)
            return [pad + "let %s := for_each %s %s (fun %s %s =>" % (tup(S), atom(it), tup(S), G(x), pat(S))] + \
                close_in(body) + go()
        name = None
        if cx.defs is not None and cx.frame == "stage":
            if is_combo_loop(st):
                name, comment = "_stage_combo_gen", "Study._stage: the body of `for combo in self.parameters`"
            elif cx.loop_depth == 0:
                name, comment = "_stage_step_gen", "Study._stage: the body of `for %s in %s`" % (x, src_of(st.iter))
        if name:
            params = [v for v in b.env if v not in S and v != x] + [x] + S
            body = [pad + "  " + split_def(b, name, comment, params, S,
                                           close_def(block(b, st.body, 1, "Some " + tup(S), S)))]
        else:
            body = block(b, st.body, ind + 1, "Some " + tup(S), S)
        lines = [pad + "%s %s %s (fun %s %s =>" % (kw, atom(it), tup(S), G(x), pat(S))] + close(body) + \
                [pad + "(fun %s =>" % pat(S)] + close(go())
        return raising(hoist, lines)

    # --- assignments -----------------------------------------------------------
    if isinstance(st, ast.Assign) and len(st.targets) == 1:
        t, v = st.targets[0], st.value
        # modified, step_exp = node.apply_parameters(combo)
        if isinstance(t, ast.Tuple) and len(t.elts) == 2 and all(isinstance(x, ast.Name) for x in t.elts) and \
                isinstance(v, ast.Call) and isinstance(v.func, ast.Attribute) and v.func.attr == "apply_parameters" and \
                len(v.args) == 1 and not v.keywords and cx.frame == "stage":
            flag, new = t.elts[0].id, t.elts[1].id
            if used_outside_messages(cx.fn, flag):
                bad(st, "the `modified` flag of apply_parameters is used")
            cx.ignored.add(flag)
            n, _ = want(cx, v.func.value, None, ("step",), "receiver of apply_parameters")
            c, _ = want(cx, v.args[0], None, ("combo",), "argument of apply_parameters")
            define(cx, st, new, "step")
            return [pad + "let %s := step_apply_parameters (ap (sp_params sp) %s) %s in" % (G(new), c, atom(n))] + go()
        if isinstance(t, ast.Name):
            hoist = []
            if isinstance(v, ast.Subscript) and isinstance(v.value, ast.Attribute) and not run_key(cx, v) and \
                    cx.frame == "stage":
                before = len(hoist)
                txt, ty = lookup(cx, v, hoist, name=t.id)
                if len(hoist) > before and hoist[-1][2] == t.id:     # x = D[k], raising: the lookup binds x
                    define(cx, st, t.id, ty)
                    return raising(hoist, go())
            else:
                txt, ty = expr(cx, v, hoist)
            if isinstance(v, ast.List) and not v.elts:
                txt, ty = "[]", "strlist"
            if ty in ("bool", "pyval"):
                bad(st, "a %s is not stored in a variable in the templates" % ty)
            define(cx, st, t.id, ty)
            return raising(hoist, [pad + "let %s := %s in" % (G(t.id), txt)] + go())
        if isinstance(t, ast.Subscript) and field_of(t.value) and cx.frame == "stage":
            f = t.value.attr
            hoist = []
            k, _ = want(cx, t.slice, hoist, ("str",), "dictionary key")
            val, _ = want(cx, v, hoist, (FIELD_TYPES[f],), "value stored in self.%s" % f)
            if isinstance(t.slice, ast.Name):
                cx.present.add((f, t.slice.id))
            return raising(hoist, [pad + "let %s := dict_set %s %s %s in" % (f, atom(k), atom(val), f)] + go())
        rk = run_key(cx, t)
        if rk and rk[1] in ("cmd", "restart"):
            hoist = []
            val, _ = want(cx, v, hoist, ("str",), "value stored in run[%r]" % rk[1])
            return raising(hoist, [pad + "let %s := run_set_%s %s %s in" % (G(rk[0]), rk[1], atom(val), G(rk[0]))] + go())
        if isinstance(t, ast.Attribute) and t.attr == "name" and isinstance(t.value, ast.Name) and \
                cx.env.get(t.value.id) == "step":
            hoist = []
            val, _ = want(cx, v, hoist, ("str",), "step name")
            return raising(hoist, [pad + "let %s := step_set_name %s %s in" % (G(t.value.id), atom(val), G(t.value.id))] + go())
        bad(st, "assignment `%s` is outside the templates" % src_of(st))
    if isinstance(st, ast.AugAssign) and isinstance(st.op, ast.BitOr) and isinstance(st.target, ast.Name) and \
            cx.env.get(st.target.id) == "set" and cx.frame == "stage":
        hoist = []
        val, _ = want(cx, st.value, hoist, ("set",), "operand of |=")
        x = G(st.target.id)
        return raising(hoist, [pad + "let %s := pk_union (sp_params sp) %s %s in" % (x, x, atom(val))] + go())

    # --- calls for their effect ------------------------------------------------
    if isinstance(st, ast.Expr) and isinstance(st.value, ast.Call) and isinstance(st.value.func, ast.Attribute):
        c, f = st.value, st.value.func
        # self.<dict>[k].add(x)
        if f.attr == "add" and isinstance(f.value, ast.Subscript) and field_of(f.value.value) and \
                len(c.args) == 1 and not c.keywords and cx.frame == "stage":
            fld, key = f.value.value.attr, f.value.slice
            if FIELD_TYPES[fld] != "set" or not isinstance(key, ast.Name) or (fld, key.id) not in cx.present:
                bad(st, "`.add` on a dictionary entry this iteration did not create: " + src_of(st))
            hoist = []
            k, _ = want(cx, key, hoist, ("str",), "dictionary key")
            val, _ = want(cx, c.args[0], hoist, ("str",), "added element")
            return raising(hoist, [pad + "let %s := dict_set_add %s %s %s in" % (fld, atom(k), atom(val), fld)] + go())
        # <list>.append(x)
        if f.attr == "append" and isinstance(f.value, ast.Name) and cx.env.get(f.value.id) == "strlist" and \
                len(c.args) == 1 and not c.keywords:
            hoist = []
            val, _ = want(cx, c.args[0], hoist, ("str",), "appended element")
            x = G(f.value.id)
            return raising(hoist, [pad + "let %s := list_append %s %s in" % (x, x, atom(val))] + go())
        # dag.<method>(..)
        if isinstance(f.value, ast.Name) and cx.env.get(f.value.id) == "graph" and cx.frame == "stage":
            dag = G(f.value.id)
            hoist = []
            if f.attr == "add_node" and len(c.args) == 2 and not c.keywords and \
                    isinstance(c.args[1], ast.Constant) and c.args[1].value is None:
                n, _ = want(cx, c.args[0], hoist, ("str",), "node name")
                return raising(hoist, [pad + "let %s := dag_add_node %s None %s in" % (dag, atom(n), dag)] + go())
            if f.attr == "add_step" and len(c.args) == 4 and all(k.arg == "params" for k in c.keywords) and \
                    len(c.keywords) <= 1:
                n, _ = want(cx, c.args[0], hoist, ("str",), "name passed to add_step")
                s_, _ = want(cx, c.args[1], hoist, ("step",), "step passed to add_step")
                w, _ = want(cx, c.args[2], hoist, ("path",), "workspace passed to add_step")
                r, _ = want(cx, c.args[3], hoist, ("nat",), "restart limit passed to add_step")
                p = "[]"
                if c.keywords:
                    p, _ = want(cx, c.keywords[0].value, hoist, ("kvs",), "params passed to add_step")
                return raising(hoist, [pad + "let %s := add_step_gen %s %s %s %s %s %s in" % (
                    dag, dag, atom(n), atom(s_), atom(w), atom(r), atom(p))] + go())
            if f.attr == "add_connection" and len(c.args) == 2 and not c.keywords:
                a, _ = want(cx, c.args[0], hoist, ("str",), "parent passed to add_connection")
                b, _ = want(cx, c.args[1], hoist, ("str",), "child passed to add_connection")
                return raising(hoist, [pad + "call (add_connection_gen %s %s %s) (fun %s =>" % (dag, atom(a), atom(b), dag)]
                               + close(go()))
    bad(st, "statement `%s` is outside the templates" % src_of(st))


def close_in(lines):
    lines = list(lines)
    lines[-1] += ") in"
    return lines


def close_def(lines):
    return list(lines)


def new_cx(fn, frame, defs=None):
    cx = Cx(fn, frame)
    cx.defs = defs
    cx.fn_ret = None
    cx.yield_ok = False
    return cx


# ----------------------------------------------------------------------------
# frames: parameters.py
# ----------------------------------------------------------------------------
def finish(lines):
    lines = list(lines)
    lines[-1] += "."
    return "\n".join(lines)


def gen_get_param_string(cls):
    fn = find_fn(cls, "get_param_string")
    params_of(fn, ["params"])
    cx = new_cx(fn, "combination")
    cx.pure = True
    cx.env["params"] = "set"

    def ret(c, st):
        if st.value is None:
            bad(st, "get_param_string must return a string")
        return want(c, st.value, None, ("str",), "returned value")[0]
    cx.fn_ret = ret
    body = block(cx, fn.body, 1, None, [])
    return finish(["(* Combination.get_param_string; [self] is the combination of row [combo] *)",
                   "Definition get_param_string_gen (ps : list param) (combo : nat) (params : list str) : str :="] + body)


def gen_get_param_values(cls):
    fn = find_fn(cls, "get_param_values")
    params_of(fn, ["params"])
    cx = new_cx(fn, "combination")
    cx.pure = True
    cx.env["params"] = "set"
    body = effective(cx, fn.body)
    if len(body) != 1 or not isinstance(body[0], ast.For) or body[0].orelse or not isinstance(body[0].target, ast.Name):
        bad(fn, "get_param_values is not a single `for key in ..: ..; yield key, value`")
    loop = body[0]
    it, ty = want(cx, loop.iter, None, ("set", "strlist"), "iterated value")
    if ty == "set":
        bad(loop, "iteration over a set needs the order oracle, which get_param_values does not have")
    b = cx.fork()
    b.env[loop.target.id] = "str"
    b.yield_ok = True
    b.loop_depth = 1
    inner = block(b, loop.body, 2, None, [])
    return finish(["(* Combination.get_param_values; [self] is the combination of row [combo] *)",
                   "Definition get_param_values_gen (ps : list param) (combo : nat) (params : list str) : list (str * str) :=",
                   "  for_yield %s (fun %s =>" % (atom(it), G(loop.target.id))] + close(inner))


def isinstance_test(e, var, tyname):
    return D(e) == P("isinstance(%s, %s)" % (var, tyname))


def gen_used_rec(cls):
    """ParameterGenerator._get_used_parameters: the isinstance chain becomes a match on the value"""
    fn = find_fn(cls, "_get_used_parameters")
    params_of(fn, ["item", "params"])
    cx = new_cx(fn, "pgen")
    cx.pure = True
    body = effective(cx, fn.body)
    if len(body) != 1 or not isinstance(body[0], ast.If):
        bad(fn, "_get_used_parameters is not one if / elif chain")
    chain, node = [], body[0]
    while True:
        chain.append((node.test, effective(cx, node.body)))
        els = effective(cx, node.orelse)
        if len(els) == 1 and isinstance(els[0], ast.If):
            node = els[0]
            continue
        chain.append((None, els))
        break
    if len(chain) != 5:
        bad(fn, "_get_used_parameters: expected `if not item / elif str / elif list / elif dict / else`")
    (t0, b0), (t1, b1), (t2, b2), (t3, b3), (_t4, b4) = chain

    def only_return(b):
        return len(b) == 1 and isinstance(b[0], ast.Return) and b[0].value is None
    if D(t0) != P("not item") or not only_return(b0):
        bad(t0, "the first case must be `if not item: return`")
    if not only_return(b4):
        bad(fn, "the last case (other types) must only return")
    if not (isinstance_test(t1, "item", "str") and isinstance_test(t2, "item", "list") and
            isinstance_test(t3, "item", "dict")):
        bad(t1, "the cases must be isinstance(item, str) / (item, list) / (item, dict), in this order")
    # str: for key in self.parameters.keys(): r = REGEX.format(re.escape(self.token), key); m = re.findall(r, item); if m: params.add(key)
    if len(b1) != 1 or not isinstance(b1[0], ast.For) or b1[0].orelse or not isinstance(b1[0].target, ast.Name) or \
            D(b1[0].iter) not in (P("self.parameters.keys()"), P("self.parameters")):
        bad(t1, "the str case must be `for key in self.parameters.keys(): ..`")
    key = b1[0].target.id
    sb = effective(cx, b1[0].body)
    ok = len(sb) == 3 and all(isinstance(x, ast.Assign) and len(x.targets) == 1 and isinstance(x.targets[0], ast.Name)
                              for x in sb[:2]) and isinstance(sb[2], ast.If)
    if ok:
        r, m = sb[0].targets[0].id, sb[1].targets[0].id
        ok = D(sb[0].value) == P("%r.format(%s)" % (PARAM_REGEX_TEXT, PARAM_REGEX_ARGS % key)) and \
            D(sb[1].value) == P("re.findall(%s, item)" % r) and D(sb[2].test) == P(m) and not sb[2].orelse and \
            [D(x) for x in effective(cx, sb[2].body)] == [P("params.add(%s)" % key, "exec")]
    if not ok:
        bad(b1[0], "the str case is not `r = r\"%s\".format(re.escape(self.token), key); m = re.findall(r, item); "
                   "if m: params.add(key)`" % PARAM_REGEX_TEXT)

    def rec_loop(b, iter_src):
        if len(b) != 1 or not isinstance(b[0], ast.For) or b[0].orelse or not isinstance(b[0].target, ast.Name) or \
                D(b[0].iter) != P(iter_src):
            return None
        each = b[0].target.id
        inner = effective(cx, b[0].body)
        if [D(x) for x in inner] != [P("self._get_used_parameters(%s, params)" % each, "exec")]:
            return None
        return each
    e2, e3 = rec_loop(b2, "item"), rec_loop(b3, "item.values()")
    if not e2:
        bad(t2, "the list case is not `for each in item: self._get_used_parameters(each, params)`")
    if not e3:
        bad(t3, "the dict case is not `for each in item.values(): self._get_used_parameters(each, params)`")
    k = G(key)
    return finish([
        "(* ParameterGenerator._get_used_parameters *)",
        "Fixpoint _get_used_parameters_gen (ps : list param) (item : pyval) (params : list str) {struct item} : list str :=",
        "  if py_falsy item then",
        "    params",
        "  else",
        "    match item with",
        "    | PStr item =>",
        "      for_each (parameter_keys ps) params (fun %s params =>" % k,
        "        if re_param_token_found %s item then" % k,
        "          let params := pk_add ps %s params in" % k,
        "          params",
        "        else",
        "          params)",
        "    | PList item =>",
        "      for_each item params (fun %s params =>" % G(e2),
        "        _get_used_parameters_gen ps %s params)" % G(e2),
        "    | PDict item =>",
        "      for_values item params (fun %s params =>" % G(e3),
        "        _get_used_parameters_gen ps %s params)" % G(e3),
        "    end"])


def gen_used(cls):
    fn = find_fn(cls, "get_used_parameters")
    params_of(fn, ["step"])
    cx = new_cx(fn, "pgen")
    body = effective(cx, fn.body)
    want_ = [P("params = set()", "exec"), P("self._get_used_parameters(step.__dict__, params)", "exec"),
             P("return params", "exec")]
    if [D(x) for x in body] != want_:
        bad(fn, "get_used_parameters is not `params = set(); self._get_used_parameters(step.__dict__, params); "
                "return params`")
    return finish(["(* ParameterGenerator.get_used_parameters *)",
                   "Definition get_used_parameters_gen (ps : list param) (step : study_step) : list str :=",
                   "  let params := set_empty in",
                   "  let params := _get_used_parameters_gen ps (step_dict step) params in",
                   "  params"])


# ----------------------------------------------------------------------------
# frames: executiongraph.py
# ----------------------------------------------------------------------------
def gen_add_step(cls):
    fn = find_fn(cls, "add_step")
    a = fn.args
    names = [x.arg for x in a.args]
    if names != ["self", "name", "step", "workspace", "restart_limit", "params"] or len(a.defaults) != 1 or \
            not (isinstance(a.defaults[0], ast.Constant) and a.defaults[0].value is None) or a.vararg or a.kwarg or \
            a.kwonlyargs or fn.decorator_list:
        bad(fn, "signature of add_step changed")
    types = {"name": "str", "step": "step", "workspace": "path", "restart_limit": "nat", "params": "kvs"}
    cx = new_cx(fn, "graph")
    body = effective(cx, fn.body)
    if len(body) != 5:
        bad(fn, "add_step: expected `data = {..}; record = _StepRecord(**data); if params: record.add_params(params); "
                "self._dependencies[name] = set(); super(..).add_node(name, record)`")
    s0, s1, s2, s3, s4 = body
    if not (isinstance(s0, ast.Assign) and len(s0.targets) == 1 and isinstance(s0.targets[0], ast.Name) and
            isinstance(s0.value, ast.Dict) and all(const_str(k) is not None for k in s0.value.keys)):
        bad(s0, "the keyword dictionary of the record is not a literal")
    data = s0.targets[0].id
    kw = {k.value: v for k, v in zip(s0.value.keys, s0.value.values)}
    if sorted(kw) != ["restart_limit", "state", "step", "workspace"] or D(kw["state"]) != P("State.INITIALIZED"):
        bad(s0, "the record is not created from exactly step / state=INITIALIZED / workspace / restart_limit")
    args = []
    for key, ty in (("step", "step"), ("workspace", "path"), ("restart_limit", "nat")):
        v = kw[key]
        if not (isinstance(v, ast.Name) and types.get(v.id) == ty):
            bad(v, "`%s` of the record is not one of add_step's %s arguments" % (key, ty))
        args.append(G(v.id))
    if not (isinstance(s1, ast.Assign) and len(s1.targets) == 1 and isinstance(s1.targets[0], ast.Name) and
            D(s1.value) == P("_StepRecord(**%s)" % data)):
        bad(s1, "not `record = _StepRecord(**%s)`" % data)
    rec = s1.targets[0].id
    if not (isinstance(s2, ast.If) and not s2.orelse and isinstance(s2.test, ast.Name) and types.get(s2.test.id) == "kvs"):
        bad(s2, "not `if params: %s.add_params(params)`" % rec)
    inner = effective(cx, s2.body)
    if len(inner) != 1 or not (isinstance(inner[0], ast.Expr) and isinstance(inner[0].value, ast.Call) and
                               D(inner[0].value.func) == P("%s.add_params" % rec) and len(inner[0].value.args) == 1 and
                               isinstance(inner[0].value.args[0], ast.Name) and
                               types.get(inner[0].value.args[0].id) == "kvs" and not inner[0].value.keywords):
        bad(s2, "not `if params: %s.add_params(params)`" % rec)
    if not (isinstance(s3, ast.Assign) and len(s3.targets) == 1 and isinstance(s3.targets[0], ast.Subscript) and
            self_attr(s3.targets[0].value, "_dependencies") and isinstance(s3.targets[0].slice, ast.Name) and
            types.get(s3.targets[0].slice.id) == "str" and D(s3.value) == P("set()")):
        bad(s3, "not `self._dependencies[name] = set()`")
    if not (isinstance(s4, ast.Expr) and isinstance(s4.value, ast.Call) and
            D(s4.value.func) == P("super(ExecutionGraph, self).add_node") and len(s4.value.args) == 2 and
            not s4.value.keywords and isinstance(s4.value.args[0], ast.Name) and
            types.get(s4.value.args[0].id) == "str" and D(s4.value.args[1]) == P(rec)):
        bad(s4, "not `super(ExecutionGraph, self).add_node(name, %s)`" % rec)
    r = G(rec)
    return finish([
        "(* ExecutionGraph.add_step *)",
        "Definition add_step_gen (dag : graph) (name : str) (step : study_step) (workspace : path) "
        "(restart_limit : nat) (params : list (str * str)) : graph :=",
        "  let %s := step_record %s in" % (r, " ".join(args)),
        "  let %s := if nonempty %s then record_add_params %s %s else %s in" % (
            r, G(s2.test.id), G(inner[0].value.args[0].id), r, r),
        "  let dag := dependencies_reset %s dag in" % G(s3.targets[0].slice.id),
        "  let dag := dag_add_node %s (Some %s) dag in" % (G(s4.value.args[0].id), r),
        "  dag"])


def gen_add_connection(cls):
    fn = find_fn(cls, "add_connection")
    params_of(fn, ["parent", "step"])
    cx = new_cx(fn, "graph")
    body = effective(cx, fn.body)
    names = ("parent", "step")

    def two_names(call):
        return len(call.args) == 2 and not call.keywords and all(isinstance(x, ast.Name) and x.id in names
                                                                 for x in call.args)
    if len(body) != 2 or not all(isinstance(x, ast.Expr) and isinstance(x.value, ast.Call) for x in body):
        bad(fn, "add_connection is not `self.add_edge(a, b); self._dependencies[c].add(d)`")
    e0, e1 = body[0].value, body[1].value
    if not (D(e0.func) == P("self.add_edge") and two_names(e0)):
        bad(body[0], "not `self.add_edge(<parent|step>, <parent|step>)`")
    f1 = e1.func
    if not (isinstance(f1, ast.Attribute) and f1.attr == "add" and isinstance(f1.value, ast.Subscript) and
            self_attr(f1.value.value, "_dependencies") and isinstance(f1.value.slice, ast.Name) and
            f1.value.slice.id in names and len(e1.args) == 1 and isinstance(e1.args[0], ast.Name) and
            e1.args[0].id in names and not e1.keywords):
        bad(body[1], "not `self._dependencies[<parent|step>].add(<parent|step>)`")
    return finish([
        "(* ExecutionGraph.add_connection *)",
        "Definition add_connection_gen (dag : graph) (parent step : str) : option graph :=",
        "  dag_add_edge %s %s dag (fun dag =>" % (e0.args[0].id, e0.args[1].id),
        "  let dag := dependencies_add %s %s dag in" % (f1.value.slice.id, e1.args[0].id),
        "  Some dag)"])


# ----------------------------------------------------------------------------
# frames: study.py
# ----------------------------------------------------------------------------
def check_constants(tree):
    found = {}
    for n in tree.body:
        if isinstance(n, ast.Assign) and len(n.targets) == 1 and isinstance(n.targets[0], ast.Name) and \
                n.targets[0].id in ("SOURCE", "WSREGEX", "ALL_COMBOS"):
            if n.targets[0].id in found:
                bad(n, "%s is assigned twice" % n.targets[0].id)
            found[n.targets[0].id] = n.value
    want_ = {"SOURCE": P('"_source"'), "WSREGEX": P("re.compile(%r)" % WSREGEX_TEXT),
             "ALL_COMBOS": P("re.compile(%r)" % ALL_COMBOS_TEXT)}
    for k, v in want_.items():
        if k not in found or D(found[k]) != v:
            bad(tree, "the module constant %s is pinned (Expand.v models its text) and it changed" % k)


def gen_fields(cls):
    """the management dictionaries of Study.__init__, in source order -> [(name, initial value text)]"""
    fn = find_fn(cls, "__init__")
    out = []
    for st in ast.walk(fn):
        if isinstance(st, ast.Assign):
            for t in st.targets:
                if field_of(t):
                    if len(st.targets) != 1:
                        bad(st, "chained assignment of a management dictionary")
                    out.append((st.lineno, t.attr, st.value))
    out.sort()
    if sorted(x[1] for x in out) != sorted(FIELD_TYPES):
        bad(fn, "Study.__init__ does not create each of %s exactly once" % ", ".join(sorted(FIELD_TYPES)))
    res = []
    for _ln, name, v in out:
        if FIELD_TYPES[name] == "str":
            ok, txt = D(v) == P("{SOURCE: self._out_path}"), "dict_one SOURCE (out_path sp)"
        else:
            ok, txt = D(v) == P("{SOURCE: set()}"), "dict_one SOURCE set_empty"
        if not ok:
            bad(v, "self.%s does not start as {SOURCE: %s}" % (name, "self._out_path" if FIELD_TYPES[name] == "str"
                                                             else "set()"))
        res.append((name, txt))
    return res


def gen__stage(cls, fields):
    fn = find_fn(cls, "_stage")
    params_of(fn, ["dag"])
    defs = []
    cx = new_cx(fn, "stage", defs)
    for name, _txt in fields:
        cx.env[name] = "dict:" + FIELD_TYPES[name]
    cx.env["dag"] = "graph"
    entry = list(cx.env)

    def ret(c, st):
        if not (isinstance(st.value, ast.Name) and st.value.id == "dag"):
            bad(st, "_stage must return the graph it was given")
        return "Some " + tup(entry)
    cx.fn_ret = ret
    # t_sorted = self.topological_sort()
    body = effective(cx, fn.body)
    if not body or not (isinstance(body[0], ast.Assign) and len(body[0].targets) == 1 and
                        isinstance(body[0].targets[0], ast.Name) and D(body[0].value) == P("self.topological_sort()")):
        bad(fn, "_stage does not start with `<order> = self.topological_sort()`")
    order = body[0].targets[0].id
    cx.env[order] = "strlist"
    lines = ["  let %s := topological_sort sp in" % G(order)] + block(cx, body[1:], 1, None, entry)
    names = [d[0] for d in defs]
    if sorted(names) != ["_stage_combo_gen", "_stage_step_gen", "_stage_unparam_gen"]:
        bad(fn, "the structure of _stage changed: expected one walk over the steps, one unparameterised branch and "
                "one loop over the combinations (found %s)" % ", ".join(names))
    sig = "Definition _stage_gen (ap : list param -> nat -> str -> str) (san : str -> str) (pi : an_oracle) (sp : spec) %s : option (%s) :=" % (
        group_params([(n, gtype(cx.env[n])) for n in entry]), tuple_type(cx, entry))
    out = [finish(d[1]) for d in defs]
    out.append(finish(["(* Study._stage *)", sig] + lines))
    return out, entry


def mentions(st, name):
    return any(isinstance(n, ast.Name) and n.id == name for n in ast.walk(st))


def gen_stage(cls, fields, entry):
    fn = find_fn(cls, "stage")
    params_of(fn, [])
    cx = new_cx(fn, "stage")
    seen = {"new": False, "nocycle": False, "ret": False}
    passfn = None
    for st in effective(cx, fn.body):
        if isinstance(st, ast.Return):
            if D(st) != P("return self._out_path, self._stage(dag)", "exec") or not (seen["new"] and seen["nocycle"]):
                bad(st, "Study.stage does not end with `return self._out_path, self._stage(dag)` on a fresh graph "
                        "whose cycle check is switched off")
            seen["ret"] = True
            continue
        if seen["ret"]:
            bad(st, "code after the return of Study.stage")
        if isinstance(st, ast.FunctionDef):
            if [x for x in st.body if not is_doc(x) and not isinstance(x, ast.Pass)] or mentions(st, "dag"):
                bad(st, "a local function of Study.stage that does something")
            passfn = st.name
            continue
        if isinstance(st, ast.Assign) and len(st.targets) == 1 and D(st.targets[0]) == P("dag"):
            if not (isinstance(st.value, ast.Call) and D(st.value.func) == P("ExecutionGraph") and not st.value.args) \
                    or seen["new"]:
                bad(st, "the graph is not created by one `dag = ExecutionGraph(<keywords>)`")
            seen["new"] = True          # the keywords configure execution, not expansion
            continue
        if isinstance(st, ast.Assign) and len(st.targets) == 1 and D(st.targets[0]) == P("dag.detect_cycle"):
            if not passfn or D(st.value) != P("MethodType(%s, dag)" % passfn):
                bad(st, "dag.detect_cycle is not replaced by the local no-op")
            seen["nocycle"] = True
            continue
        if isinstance(st, ast.Expr) and isinstance(st.value, ast.Call) and \
                D(st.value.func) in (P("dag.add_description"), P("dag.log_description")):
            continue
        if isinstance(st, ast.If) and not st.orelse and \
                D(st.test) in (P("not os.path.exists(self._out_path)"), P("not self.environment.is_set_up")) and \
                all(isinstance(x, ast.Raise) or is_logging(x) or (isinstance(x, ast.Assign) and is_string_expr(x.value))
                    for x in st.body):
            continue                    # preconditions of staging (outside the model)
        touches_self = any(isinstance(n, (ast.Assign, ast.AugAssign)) and any(
            self_attr(t) or (isinstance(t, ast.Subscript) and self_attr(t.value))
            for t in (n.targets if isinstance(n, ast.Assign) else [n.target])) for n in ast.walk(st))
        calls_self = any(isinstance(n, ast.Call) and isinstance(n.func, ast.Attribute) and
                         isinstance(n.func.value, ast.Name) and n.func.value.id == "self" for n in ast.walk(st))
        if mentions(st, "dag") or touches_self or calls_self or any(isinstance(n, (ast.Return, ast.Raise))
                                                                    for n in ast.walk(st)):
            bad(st, "statement `%s` of Study.stage is outside the templates" % src_of(st))
        # a statement on locals only (e.g. computing a keyword of the ExecutionGraph): not part of the expansion
    if not seen["ret"]:
        bad(fn, "Study.stage does not return")
    if entry != [f for f, _t in fields] + ["dag"] or sorted(f for f, _ in fields) != sorted(FIELD_TYPES):
        bad(fn, "internal: fields")
    lines = ["(* Study.__init__ (management structures) and Study.stage *)",
             "Definition stage_gen (ap : list param -> nat -> str -> str) (san : str -> str) (pi : an_oracle) "
             "(sp : spec) : result (usedmap * sstate) :=",
             "  study_built sp ("]
    for name, txt in fields:
        lines.append("  let %s := %s in" % (name, txt))
    lines += ["  let dag := execution_graph_new in",
              "  staged (",
              "  call (_stage_gen ap san pi sp %s) (fun %s =>" % (" ".join(entry), pat(entry)),
              "  Some (used_params, mkSt dag step_combos workspaces))))"]
    return finish(lines)


HEADER = """(** The expansion code of maestrowf, statement by statement.
    GENERATED by translate/tcode_stage.py from /repo's current source
    (Combination.get_param_string / get_param_values, ParameterGenerator.
    _get_used_parameters / get_used_parameters, ExecutionGraph.add_step /
    add_connection, Study.__init__'s management structures, Study._stage,
    Study.stage) as compositions of the combinators of Expand/StageOps.v;
    Expand/StageGenProofs.v proves the definitions below equal to the hand-written
    model of Expand/Expand.v ([stage], [stage_step], [stage_row], [add_instance],
    [used_step], [combo_string], ...) that the theorems of Props/C08.v, C11.v,
    C13_stageable and C18_stage_function are about, so an edit of the source that
    changes what these functions do breaks a proof obligation.
    Do not edit by hand. *)
From Coq Require Import List Arith Bool NArith.
From MWF Require Import Expand.StageOps.
Import ListNotations.
"""


def _parse(repo, rel):
    T.src = rel
    try:
        return ast.parse(open(os.path.join(repo, rel)).read())
    except (OSError, SyntaxError, ValueError) as e:
        raise NotTranslatable("%s: cannot parse: %s" % (rel, e))


def generate(repo):
    pt = _parse(repo, PARAMS)
    comb, pgen = find_class(pt, "Combination"), find_class(pt, "ParameterGenerator")
    parts = [gen_get_param_string(comb), gen_get_param_values(comb), gen_used_rec(pgen), gen_used(pgen)]
    et = _parse(repo, EXECG)
    eg = find_class(et, "ExecutionGraph")
    parts += [gen_add_step(eg), gen_add_connection(eg)]
    st = _parse(repo, STUDY)
    check_constants(st)
    study = find_class(st, "Study")
    fields = gen_fields(study)
    defs, entry = gen__stage(study, fields)
    parts += defs
    parts.append(gen_stage(study, fields, entry))
    return {OUT: HEADER + "".join("\n" + p + "\n" for p in parts)}


if __name__ == "__main__":
    import sys
    sys.stdout.write(generate(sys.argv[1] if len(sys.argv) > 1 else "/repo")[OUT])

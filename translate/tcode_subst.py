"""T-code for C09: regenerate the Gallina text of maestrowf's substitution code
as Expand/SubstGen.v.

Sources (parsed with `ast`, never imported):
  maestrowf/utils.py                                  apply_function
  maestrowf/datastructures/core/parameters.py         Combination.__init__, add, get_param_string, apply;
                                                      ParameterGenerator.__init__ (token defaults),
                                                      add_parameter (label / name defaults), get_combinations
  maestrowf/datastructures/environment/variable.py    Variable.__init__, get_var, substitute
  maestrowf/datastructures/environment/pathdependency.py   PathDependency.get_var, substitute
  maestrowf/abstracts/envobject.py                    the class hierarchy isinstance() walks
  maestrowf/datastructures/core/studyenvironment.py   StudyEnvironment.__init__, add, find, apply_environment
  maestrowf/datastructures/core/executiongraph.py     _StepRecord.__init__ / generate_script: the statements
                                                      on self.workspace and (self.)step.run

A fail-closed, typed statement / expression translator.  Every Python construct
it understands maps to one combinator of Expand/SubstOps.v:

  expressions   string / None / bool / int literals, locals, attributes of `self`
                (a record) and of environment objects, "<fmt>".format(..) with
                auto-numbered fields, x.replace(a, b[, n]), str(x), sep.join(l),
                sorted(l), len(l), d[k], l[i], d.items() / keys() / values(),
                [e for x in l], {k: e for k, v in d.items()}, [a, b], [], {},
                OrderedDict(), set(), calls of the translated functions / methods
                / constructors, func(x) of a function parameter, a if c else b
  conditions    not / and / or, truth of a string / None-or-string / field value,
                isinstance(x, <class>), k in <dict|set>, sub in <string>,
                any(<cond> for x in l), ==, !=
  statements    x = e, self.attr = e, self.attr[k] = e, step.run["cmd"] = e,
                l.append(e), s.add(e), <local object>.<method>(..), if / elif /
                else (code after a non-terminating `if` is copied into both
                branches; an isinstance chain on a field value becomes case_str /
                case_list / case_dict), for x in l / for k, v in d.items() (the
                variables the body re-assigns are threaded), return, raise, yield
  slices        for the long methods only the statements that (transitively)
                produce the tracked variables are translated

Python variable names are kept.  `str(..)` around a value spliced into a text is
required (a value of unknown type passed to replace() fails closed).  Logging,
doc strings, message strings that only reach logging / exceptions, and the
`_verify` / `_verification` guards of the environment objects are dropped.
Expand/SubstGenProofs.v proves the generated functions equal to the hand-written
model of Expand/Subst.v, so label / value / name mix-ups, replace(.., 1), a
changed pass order, a dropped pass, recursion that does not descend into dict
values or an early exit CHANGE the generated text and break a proof obligation.
Anything outside the templates raises NotTranslatable.

translate/tcode_paths.py reuses this module's core (class Tr).
"""
import ast
import os
import re

from translate.regen import NotTranslatable

UTILS = "maestrowf/utils.py"
PARAMS = "maestrowf/datastructures/core/parameters.py"
VARIABLE = "maestrowf/datastructures/environment/variable.py"
PATHDEP = "maestrowf/datastructures/environment/pathdependency.py"
ENVOBJ = "maestrowf/abstracts/envobject.py"
STUDYENV = "maestrowf/datastructures/core/studyenvironment.py"
EXECG = "maestrowf/datastructures/core/executiongraph.py"
OUT = "Expand/SubstGen.v"

RESERVED = set("""at as end fun let match with return fix cofix forall exists struct where using by then else if in
Type Prop Set SProp mod s str nat list option bool true false Some None S O N h seq replace join tok map filter fst snd
length app rev nth find result Done Raise""".split())

_CTX = re.compile(r", ctx=(?:Load|Store|Del)\(\)|ctx=(?:Load|Store|Del)\(\), |ctx=(?:Load|Store|Del)\(\)")


class Src:
    name = "?"


def bad(node, why):
    raise NotTranslatable("%s: line %s: %s" % (Src.name, getattr(node, "lineno", "?"), why))


def D(node):
    """position- and context-free structural text of a node"""
    return _CTX.sub("", ast.dump(node))


def P(text):
    return D(ast.parse(text, mode="eval").body)


def src_of(node):
    try:
        return ast.unparse(node).split("\n")[0][:90]
    except Exception:
        return "?"


def G(name):
    if name == "_":
        return "u_"
    return name + "_" if name in RESERVED or name.endswith("_gen") else name


def g_str(x):
    if x and all(32 <= ord(c) < 127 and c != '"' for c in x):
        return '(s "%s")' % x
    return "[" + "; ".join("%d%%N" % ord(c) for c in x) + "]" if x else "[]"


def atom(t):
    if " " not in t or (t[0] == "[" and t[-1] == "]" and t.count("[") == 1):
        return t
    if t[0] == "(" and t[-1] == ")":
        depth = 0
        for i, ch in enumerate(t):
            depth += ch == "("
            depth -= ch == ")"
            if depth == 0 and i < len(t) - 1:
                break
        else:
            return t
    return "(%s)" % t


def close(lines, suffix=")"):
    lines = list(lines)
    lines[-1] += suffix
    return lines


def is_doc(st):
    return isinstance(st, ast.Expr) and isinstance(st.value, ast.Constant) and isinstance(st.value.value, str)


def is_log_call(v):
    if isinstance(v, ast.Call):
        f = v.func
        return isinstance(f, ast.Attribute) and isinstance(f.value, ast.Name) and \
            f.value.id in ("LOGGER", "logger", "logging")
    return False


def is_logging(st):
    return isinstance(st, ast.Expr) and is_log_call(st.value)


def const_str(e):
    return e.value if isinstance(e, ast.Constant) and isinstance(e.value, str) else None


def chain(e):
    """a.b.c -> 'a.b.c' (names and attributes only), else None"""
    parts = []
    while isinstance(e, ast.Attribute):
        parts.append(e.attr)
        e = e.value
    if isinstance(e, ast.Name):
        return ".".join([e.id] + parts[::-1])
    return None


def gty(t):
    """Gallina type of a translator type"""
    if t in ("str", "val"):
        return "str"
    if t in ("bool", "nat", "pyval", "run2", "envobj"):
        return t
    if t == "optstr":
        return "option str"
    if t == "optobj":
        return "option envobj"
    if t == "strfun":
        return "str -> str"
    if t == "label":
        return "label_spec"
    if t == "char":
        return "N"
    if t == "digest":
        return "str -> str"
    if isinstance(t, tuple):
        if t[0] == "obj":
            return "envobj"
        if t[0] == "rec":
            return t[1]
        if t[0] in ("list", "set"):
            return "list %s" % atom(gty(t[1]))
        if t[0] == "dict":
            return "list (str * %s)" % gty(t[1])
        if t[0] == "tuple":
            return " * ".join(atom(gty(x)) for x in t[1])
    raise NotTranslatable("internal: no Gallina type for %r" % (t,))


def is_strish(t):
    return t in ("str", "val")


# records: python class -> (Gallina record, blank value, {attribute: (accessor, type)})
RECORDS = {
    "Combination": ("combination", "combo_blank", {
        "_params": ("cb_params", ("dict", "val")),
        "_labels": ("cb_labels", ("dict", "val")),
        "_names": ("cb_names", ("dict", "val")),
        "_token": ("cb_token", "str"),
    }),
    "StudyEnvironment": ("environment", "env_blank", {
        "substitutions": ("env_substitutions", ("dict", ("obj", None))),
        "labels": ("env_labels", ("dict", ("obj", None))),
        "sources": ("env_sources", ("list", ("obj", None))),
        "dependencies": ("env_dependencies", ("dict", ("obj", None))),
        "_tokens": ("env_tokens", ("set", "str")),
        "_names": ("env_names", ("set", "optstr")),
        "_is_set_up": ("env_is_set_up", "bool"),
    }),
    "ParameterGenerator": ("pgen", "pgen_blank", {
        "parameters": ("pg_parameters", ("dict", ("list", "val"))),
        "labels": ("pg_labels", ("dict", "label")),
        "names": ("pg_names", ("dict", "val")),
        "label_token": ("pg_label_token", "str"),
        "token": ("pg_token", "str"),
        "length": ("pg_length", "nat"),
    }),
}

# attributes of environment objects; PathDependency.value is a path string
OBJ_ATTRS = {"name": ("o_name", "str"), "value": ("o_value", "val"), "token": ("o_token", "str")}
STR_VALUED = ("PathDependency",)

EXC = {"TypeError": "TypeError", "ValueError": "ValueError", "KeyError": "KeyError"}


class Cx:
    """translation context of one function"""

    def __init__(self, fn, what):
        self.fn = fn
        self.what = what
        self.vars = {}          # python local -> type
        self.optvars = set()    # locals that are None on some path
        self.msgs = set()       # locals that only reach logging / exceptions
        self.refine = {}        # D(expr) -> (text, type): payload bindings of isinstance branches
        self.opaque = {}        # D(expr) -> (text, type): expressions that are inputs of the function
        self.inputs = {}        # attribute chain 'self.x.y' -> (text, type)
        self.selfvars = {}      # 'self.x' -> local name (self is not a record)
        self.selfcls = None     # python class of `self`
        self.raises = False
        self.ret = None         # result type
        self.fall = None        # cx -> text: value when control falls off the end
        self.loops = []         # carried variable tuples of the enclosing loops
        self.opaque_holders = {}  # attribute chain of a mutable input -> the local that stands for it

    def fork(self):
        c = Cx(self.fn, self.what)
        c.__dict__.update(self.__dict__)
        c.vars = dict(self.vars)
        c.refine = dict(self.refine)
        c.loops = list(self.loops)
        return c

    def wrap(self, text):
        return "Done %s" % atom(text) if self.raises else text


class Tr:
    """The translator: tables of what can be called, and the expression /
    statement rules.  Subclassed / extended by tcode_paths."""

    def __init__(self):
        self.funcs = {}      # python function name -> (gen, [param types], result type)
        self.methods = {}    # (python class, method) -> (gen, [param types], result type | 'self')
        self.ctors = {}      # python class -> (gen, [param types], result type)
        self.consts = {}     # attribute chain -> (text, type)

    # ------------------------------------------------------------------ coercion
    def coerce(self, node, text, ty, want, what="value"):
        if want is None or ty == want:
            return text
        if want == "val" and ty == "str":
            return text
        if want == "str" and ty == "val":
            bad(node, "%s `%s` is spliced into a text without str()" % (what, src_of(node)))
        if want == "optstr" and ty == "none":
            return "None"
        if want == "optstr" and ty == "str":
            return "Some %s" % atom(text)
        if want == "optobj" and ty == "none":
            return "None"
        if want == "optobj" and isinstance(ty, tuple) and ty[0] == "obj":
            return "Some %s" % atom(text)
        if want == "pyval":
            if ty == "str":
                return "py_of_str %s" % atom(text)
            if ty == ("list", "pyval"):
                return "py_of_list %s" % atom(text)
            if ty == ("dict", "pyval"):
                return "py_of_dict %s" % atom(text)
        if want == "label" and ty == "str":
            return "label_of_str %s" % atom(text)
        if isinstance(want, tuple) and isinstance(ty, tuple) and want[0] == ty[0]:
            if want[0] == "obj":
                return text
            if want[0] in ("list", "set", "dict") and (ty[1] == "?" or want[1] == "?" or
                                                         (is_strish(ty[1]) and is_strish(want[1]))):
                return text
        bad(node, "%s `%s` has type %r where %r is needed" % (what, src_of(node), ty, want))

    # --------------------------------------------------------------- expressions
    def fmt_fields(self, node, fmt):
        """number of auto-numbered {} fields; anything else fails closed"""
        n, i = 0, 0
        while i < len(fmt):
            if fmt.startswith("{}", i):
                n, i = n + 1, i + 2
            elif fmt[i] in "{}":
                bad(node, "format string %r has a field other than '{}'" % fmt)
            else:
                i += 1
        return n

    def expr(self, cx, e):
        d = D(e)
        if d in cx.refine:
            return cx.refine[d]
        if d in cx.opaque:
            return cx.opaque[d]
        c = const_str(e)
        if c is not None:
            return g_str(c), "str"
        if isinstance(e, ast.Constant):
            if e.value is None:
                return "None", "none"
            if e.value is True or e.value is False:
                return ("true" if e.value else "false"), "bool"
            if isinstance(e.value, int) and e.value >= 0:
                return str(e.value), "nat"
            bad(e, "constant `%s` is outside the templates" % src_of(e))
        if isinstance(e, ast.Name):
            if e.id in cx.msgs:
                bad(e, "message string `%s` is used as data" % e.id)
            if e.id in cx.vars:
                return G(e.id), cx.vars[e.id]
            bad(e, "unknown variable `%s`" % e.id)
        if isinstance(e, ast.Attribute):
            return self.attribute(cx, e)
        if isinstance(e, ast.Subscript):
            return self.subscript(cx, e)
        if isinstance(e, ast.Call):
            return self.call(cx, e)
        if isinstance(e, ast.List):
            if not e.elts:
                return "list_empty", ("list", "?")
            items = [self.expr(cx, x) for x in e.elts]
            if all(is_strish(t) or t == "optstr" for _x, t in items):
                # an optional string inside a path list: its value (None would be Python's TypeError)
                return "[" + "; ".join(("opt_str %s" % atom(x)) if t == "optstr" else x for x, t in items) + "]", \
                    ("list", "str")
            bad(e, "list display `%s` of %s" % (src_of(e), [t for _x, t in items]))
        if isinstance(e, ast.Dict) and not e.keys:
            return "dict_empty", ("dict", "?")
        if isinstance(e, ast.ListComp):
            return self.listcomp(cx, e)
        if isinstance(e, ast.DictComp):
            return self.dictcomp(cx, e)
        if isinstance(e, ast.IfExp):
            c = self.cond(cx, e.test)
            a, ta = self.expr(cx, e.body)
            b, tb = self.expr(cx, e.orelse)
            if ta != tb:
                bad(e, "the two arms of `%s` have types %r and %r" % (src_of(e), ta, tb))
            return "if %s then %s else %s" % (c, a, b), ta
        if isinstance(e, (ast.BoolOp, ast.Compare)) or (isinstance(e, ast.UnaryOp) and isinstance(e.op, ast.Not)):
            return self.cond(cx, e), "bool"
        bad(e, "expression `%s` is outside the templates" % src_of(e))

    def attribute(self, cx, e):
        ch = chain(e)
        if ch and ch in cx.inputs:
            return cx.inputs[ch]
        if ch and ch in cx.selfvars:
            n = cx.selfvars[ch]
            if n in cx.vars:
                return G(n), cx.vars[n]
            bad(e, "`%s` is read before it is assigned" % ch)
        if ch and ch in self.consts:
            return self.consts[ch]
        if isinstance(e.value, ast.Name) and e.value.id == "self" and cx.selfcls in RECORDS:
            attrs = RECORDS[cx.selfcls][2]
            if e.attr in attrs:
                acc, ty = attrs[e.attr]
                return "%s self" % acc, ty
            bad(e, "attribute self.%s of %s is outside the templates" % (e.attr, cx.selfcls))
        v, ty = self.expr(cx, e.value)
        if isinstance(ty, tuple) and ty[0] == "obj":
            if e.attr in OBJ_ATTRS:
                acc, aty = OBJ_ATTRS[e.attr]
                if e.attr == "value" and ty[1] in STR_VALUED:
                    return "as_str (%s %s)" % (acc, atom(v)), "str"
                return "%s %s" % (acc, atom(v)), aty
            bad(e, "attribute .%s of an environment object is outside the templates" % e.attr)
        bad(e, "attribute `%s` is outside the templates" % src_of(e))

    def subscript(self, cx, e):
        v, ty = self.expr(cx, e.value)
        if ty == "run2":
            k = const_str(e.slice)
            if k in ("cmd", "restart"):
                return "run_%s %s" % (k, atom(v)), "str"
            bad(e, "only run['cmd'] and run['restart'] are modelled")
        k, kty = self.expr(cx, e.slice)
        if isinstance(ty, tuple) and ty[0] == "dict":
            k = self.coerce(e.slice, k, kty, "str", "dictionary key")
            if is_strish(ty[1]):
                return "dict_get_str %s %s" % (atom(k), atom(v)), ty[1]
            if ty[1] == ("list", "val"):
                return "dict_get_values %s %s" % (atom(k), atom(v)), ty[1]
            if ty[1] == "label":
                return "dict_get_label %s %s" % (atom(k), atom(v)), "label"
            if isinstance(ty[1], tuple) and ty[1][0] == "obj":
                return "dict_lookup %s %s" % (atom(k), atom(v)), "optobj"
        if isinstance(ty, tuple) and ty[0] == "list" and kty == "nat" and is_strish(ty[1]):
            return "list_index %s %s" % (atom(v), atom(k)), ty[1]
        bad(e, "subscript `%s` (of a %r) is outside the templates" % (src_of(e), ty))

    def args_of(self, cx, call, tys, what):
        if call.keywords or len(call.args) != len(tys) or any(isinstance(a, ast.Starred) for a in call.args):
            bad(call, "%s is not called with %d positional arguments" % (what, len(tys)))
        out = []
        for a, t in zip(call.args, tys):
            x, ty = self.expr(cx, a)
            out.append(atom(self.coerce(a, x, ty, t, "argument")))
        return out

    def call(self, cx, e):
        f = e.func
        if isinstance(f, ast.Name):
            if f.id in cx.vars and cx.vars[f.id] == "strfun":
                (a,) = self.args_of(cx, e, ["str"], f.id)
                return "%s %s" % (G(f.id), a), "str"
            if f.id == "str" and len(e.args) == 1 and not e.keywords:
                a, ty = self.expr(cx, e.args[0])
                if is_strish(ty):
                    return "py_str %s" % atom(a), "str"
                bad(e, "str() of a %r" % (ty,))
            if f.id == "sorted" and len(e.args) == 1 and not e.keywords:
                a, ty = self.expr(cx, e.args[0])
                if isinstance(ty, tuple) and ty[0] in ("list", "set") and is_strish(ty[1]):
                    return "py_sorted %s" % atom(a), ("list", ty[1])
                bad(e, "sorted() of a %r" % (ty,))
            if f.id == "len" and len(e.args) == 1 and not e.keywords:
                a, ty = self.expr(cx, e.args[0])
                if isinstance(ty, tuple) and ty[0] == "list":
                    return "List.length %s" % atom(a), "nat"
                bad(e, "len() of a %r" % (ty,))
            if f.id in ("OrderedDict", "dict") and not e.args and not e.keywords:
                return "dict_empty", ("dict", "?")
            if f.id == "set" and not e.args and not e.keywords:
                return "set_empty", ("set", "?")
            if f.id in ("any",) or f.id == "isinstance":
                return self.cond(cx, e), "bool"
            if f.id in self.funcs:
                gen, tys, ret = self.funcs[f.id]
                return "%s %s" % (gen, " ".join(self.args_of(cx, e, tys, f.id))), ret
            if f.id in self.ctors:
                return self.ctor_call(cx, e, f.id)
            bad(e, "call of `%s` is outside the templates" % f.id)
        if isinstance(f, ast.Attribute):
            fmt = const_str(f.value)
            if f.attr == "format" and fmt is not None and not e.keywords:
                if self.fmt_fields(e, fmt) != len(e.args):
                    bad(e, "format string %r and its %d arguments do not match" % (fmt, len(e.args)))
                items = []
                for a in e.args:
                    x, ty = self.expr(cx, a)
                    if ty == "val":
                        x, ty = "py_str %s" % atom(x), "str"
                    items.append(self.coerce(a, x, ty, "str", "format argument"))
                return "py_format %s [%s]" % (g_str(fmt), "; ".join(items)), "str"
            if f.attr == "join" and fmt is not None and len(e.args) == 1 and not e.keywords:
                return self.join(cx, e, fmt)
            if f.attr == "replace" and not e.keywords and len(e.args) in (2, 3):
                x, ty = self.expr(cx, f.value)
                x = self.coerce(f.value, x, ty, "str", "replace subject")
                a, ta = self.expr(cx, e.args[0])
                b, tb = self.expr(cx, e.args[1])
                a = self.coerce(e.args[0], a, ta, "str", "replace pattern")
                b = self.coerce(e.args[1], b, tb, "str", "replacement")
                if len(e.args) == 3:
                    n, tn = self.expr(cx, e.args[2])
                    if tn != "nat":
                        bad(e, "replace count `%s` is not a literal" % src_of(e.args[2]))
                    return "replace_count %s %s %s %s" % (n, atom(a), atom(b), atom(x)), "str"
                return "replace %s %s %s" % (atom(a), atom(b), atom(x)), "str"
            if f.attr in ("items", "keys", "values") and not e.args and not e.keywords:
                x, ty = self.expr(cx, f.value)
                if isinstance(ty, tuple) and ty[0] == "dict":
                    if f.attr == "items":
                        return "dict_items %s" % atom(x), ("items", ty[1])
                    if f.attr == "keys":
                        return "dict_keys %s" % atom(x), ("list", "str")
                    return "dict_values %s" % atom(x), ("list", ty[1])
                bad(e, ".%s() of a %r" % (f.attr, ty))
            return self.method_call(cx, e)
        bad(e, "call `%s` is outside the templates" % src_of(e))

    def join(self, cx, e, sep):
        a = e.args[0]
        if isinstance(a, ast.GeneratorExp):
            bad(e, "join over a generator expression is outside the templates")
        x, ty = self.expr(cx, a)
        if isinstance(ty, tuple) and ty[0] == "list" and (is_strish(ty[1]) or ty[1] == "?"):
            return "py_join %s %s" % (g_str(sep), atom(x)), "str"
        bad(e, "join of a %r" % (ty,))

    def ctor_call(self, cx, e, cls):
        if self.ctors[cls] == "variable":
            # Variable(name, value): the type of the value expression decides isinstance(value, str)
            if len(e.args) != 2 or e.keywords:
                bad(e, "Variable(..) is not called with (name, value)")
            n, nty = self.expr(cx, e.args[0])
            v, vty = self.expr(cx, e.args[1])
            if vty != "str":
                bad(e, "Variable(..) of a value that is not known to be a string")
            return "variable_init_gen %s %s true" % (atom(self.coerce(e.args[0], n, nty, "str", "name")), atom(v)), \
                ("obj", "Variable")
        if self.ctors[cls] is None:
            bad(e, "constructor %s is outside the templates here" % cls)
        gen, tys, ret = self.ctors[cls]
        if cls == "Combination" and cx.selfcls == "ParameterGenerator" and not e.keywords and len(e.args) == 1 \
                and isinstance(e.args[0], ast.Attribute) and isinstance(e.args[0].value, ast.Name) \
                and e.args[0].value.id == "self" and e.args[0].attr == "token":
            # `Combination(self.token)` inside ParameterGenerator: the model keeps the parameter
            # token fixed to the default "$" (HYPOTHESIS: pg_token self = "$", the default of both
            # ParameterGenerator.__init__ and Combination.__init__); under it the call is
            # `Combination()`, i.e. combination_init_gen.  Generators built with a non-default
            # parameter token are compared through T-corr only (harness/props/c09.py, after the
            # sound reduction that rewrites the token to "$").  Anything else than exactly
            # `self.token` fails closed.
            return gen, ret
        args = self.args_of(cx, e, tys, cls + "(..)")
        return " ".join([gen] + args), ret

    def method_call(self, cx, e):
        f = e.func
        if isinstance(f.value, ast.Name) and f.value.id == "self" and chain(f) not in cx.selfvars:
            key = (cx.selfcls, f.attr)
            if key in self.methods:
                gen, tys, ret = self.methods[key]
                if ret == "self":
                    bad(e, "self.%s(..) is used as an expression" % f.attr)
                return " ".join([gen, "self"] + self.args_of(cx, e, tys, "self." + f.attr)), ret
            bad(e, "call of self.%s is outside the templates" % f.attr)
        x, ty = self.expr(cx, f.value)
        if isinstance(ty, tuple) and ty[0] == "obj":
            key = (ty[1], f.attr)
            if key in self.methods:
                gen, tys, ret = self.methods[key]
                return " ".join([gen, atom(x)] + self.args_of(cx, e, tys, src_of(f))), ret
            if ty[1] is None and ("*", f.attr) in self.methods:
                gen, tys, ret = self.methods[("*", f.attr)]
                return " ".join([gen, atom(x)] + self.args_of(cx, e, tys, src_of(f))), ret
        if isinstance(ty, tuple) and ty[0] == "rec":
            key = (ty[2], f.attr)
            if key in self.methods and self.methods[key][2] != "self":
                gen, tys, ret = self.methods[key]
                return " ".join([gen, atom(x)] + self.args_of(cx, e, tys, src_of(f))), ret
        bad(e, "call `%s` is outside the templates" % src_of(e))

    def listcomp(self, cx, e):
        if len(e.generators) != 1 or e.generators[0].ifs or e.generators[0].is_async or \
                not isinstance(e.generators[0].target, ast.Name):
            bad(e, "list comprehension outside the templates")
        gen = e.generators[0]
        it, ity = self.expr(cx, gen.iter)
        if not (isinstance(ity, tuple) and ity[0] == "list"):
            bad(e, "list comprehension over a %r" % (ity,))
        c2 = cx.fork()
        c2.vars[gen.target.id] = ity[1]
        b, bty = self.expr(c2, e.elt)
        return "list_comp (fun %s => %s) %s" % (G(gen.target.id), b, atom(it)), ("list", bty)

    def dictcomp(self, cx, e):
        if len(e.generators) != 1 or e.generators[0].ifs or e.generators[0].is_async:
            bad(e, "dict comprehension outside the templates")
        gen = e.generators[0]
        it, ity = self.expr(cx, gen.iter)
        t = gen.target
        if not (isinstance(ity, tuple) and ity[0] == "items" and isinstance(t, ast.Tuple) and len(t.elts) == 2
                and all(isinstance(x, ast.Name) for x in t.elts)):
            bad(e, "dict comprehension is not `for k, v in <dict>.items()`")
        k, v = t.elts[0].id, t.elts[1].id
        c2 = cx.fork()
        c2.vars[k] = "str"
        c2.vars[v] = ity[1]
        kk, kty = self.expr(c2, e.key)
        kk = self.coerce(e.key, kk, kty, "str", "dictionary key")
        vv, vty = self.expr(c2, e.value)
        return "dict_comp (fun %s %s => (%s, %s)) %s" % (G(k), G(v), kk, vv, atom(it)), ("dict", vty)

    # ---------------------------------------------------------------- conditions
    def truth(self, cx, e):
        x, ty = self.expr(cx, e)
        if ty == "bool":
            return x
        if is_strish(ty):
            return "str_truthy %s" % atom(x)
        if ty == "optstr":
            return "optstr_truthy %s" % atom(x)
        if ty == "pyval":
            return "truthy %s" % atom(x)
        if ty == "label":
            return "label_truthy %s" % atom(x)
        if ty == "none":
            return "false"
        bad(e, "truth test of `%s` (a %r)" % (src_of(e), ty))

    def cond(self, cx, e):
        if isinstance(e, ast.BoolOp):
            parts = [atom(self.cond(cx, v)) if isinstance(v, ast.BoolOp) else self.cond(cx, v) for v in e.values]
            return (" && " if isinstance(e.op, ast.And) else " || ").join(parts)
        if isinstance(e, ast.UnaryOp) and isinstance(e.op, ast.Not):
            return "negb %s" % atom(self.cond(cx, e.operand))
        if isinstance(e, ast.Compare) and len(e.ops) == 1:
            return self.compare(cx, e)
        if isinstance(e, ast.Call) and isinstance(e.func, ast.Name):
            if e.func.id == "isinstance" and len(e.args) == 2 and not e.keywords:
                return self.isinstance_b(cx, e)
            if e.func.id == "any" and len(e.args) == 1 and isinstance(e.args[0], ast.GeneratorExp):
                g = e.args[0]
                if len(g.generators) != 1 or g.generators[0].ifs or not isinstance(g.generators[0].target, ast.Name):
                    bad(e, "any(..) outside the templates")
                it, ity = self.expr(cx, g.generators[0].iter)
                if not (isinstance(ity, tuple) and ity[0] in ("list", "set")):
                    bad(e, "any(..) over a %r" % (ity,))
                c2 = cx.fork()
                c2.vars[g.generators[0].target.id] = ity[1]
                return "any_of %s (fun %s => %s)" % (atom(it), G(g.generators[0].target.id), self.cond(c2, g.elt))
        return self.truth(cx, e)

    def compare(self, cx, e):
        op, l, r = e.ops[0], e.left, e.comparators[0]
        if isinstance(op, (ast.In, ast.NotIn)):
            a, ta = self.expr(cx, l)
            b, tb = self.expr(cx, r)
            if isinstance(tb, tuple) and tb[0] == "dict":
                t = "dict_has %s %s" % (atom(self.coerce(l, a, ta, "str", "key")), atom(b))
            elif isinstance(tb, tuple) and tb[0] == "set" and tb[1] == "optstr":
                t = "oset_mem %s %s" % (atom(self.coerce(l, a, ta, "optstr", "element")), atom(b))
            elif isinstance(tb, tuple) and tb[0] in ("set", "list") and is_strish(tb[1]):
                t = "sset_mem %s %s" % (atom(self.coerce(l, a, ta, "str", "element")), atom(b))
            elif ta == "char" and tb == "str":
                t = "char_in %s %s" % (atom(a), atom(b))
            elif is_strish(tb) and ta == "str":
                t = "str_contains %s %s" % (atom(a), atom(b) if tb == "str" else "(as_str %s)" % atom(b))
            else:
                bad(e, "`%s`: membership of a %r in a %r" % (src_of(e), ta, tb))
            return t if isinstance(op, ast.In) else "negb (%s)" % t
        if isinstance(op, (ast.Eq, ast.NotEq)):
            a, ta = self.expr(cx, l)
            b, tb = self.expr(cx, r)
            if ta == "nat" and tb == "nat":
                t = "Nat.eqb %s %s" % (atom(a), atom(b))
            elif is_strish(ta) and is_strish(tb):
                t = "str_eqb %s %s" % (atom(a), atom(b))
            else:
                bad(e, "`%s`: comparison of a %r with a %r" % (src_of(e), ta, tb))
            return t if isinstance(op, ast.Eq) else "negb (%s)" % t
        bad(e, "comparison `%s` is outside the templates" % src_of(e))

    def isinstance_b(self, cx, e):
        x, cls = e.args
        if not isinstance(cls, ast.Name):
            bad(e, "isinstance against `%s`" % src_of(cls))
        # isinstance(<object>.value, str)
        if isinstance(x, ast.Attribute) and x.attr == "value" and cls.id == "str":
            o, ty = self.expr(cx, x.value)
            if isinstance(ty, tuple) and ty[0] == "obj":
                return "o_value_isstr %s" % atom(o)
        v, ty = self.expr(cx, x)
        if isinstance(ty, tuple) and ty[0] == "obj" and cls.id in ("Dependency", "Substitution", "Source"):
            return "isinstance_%s %s" % (cls.id, atom(v))
        bad(e, "`%s` is outside the templates" % src_of(e))

    # ---------------------------------------------------------------- statements
    def is_verification(self, cx, st):
        """self._verification("..") / `if not self._verify(): <message, log, raise>`"""
        if isinstance(st, ast.Expr) and isinstance(st.value, ast.Call) and chain(st.value.func) == "self._verification":
            return True
        if isinstance(st, ast.If) and not st.orelse and D(st.test) == P("not self._verify()"):
            return all(is_logging(x) or isinstance(x, ast.Raise) or self.is_msg_assign(cx, x) for x in st.body)
        return False

    def is_msg_assign(self, cx, st):
        return isinstance(st, ast.Assign) and len(st.targets) == 1 and isinstance(st.targets[0], ast.Name) and \
            st.targets[0].id in cx.msgs

    def effective(self, cx, stmts):
        out = []
        for st in stmts:
            if is_doc(st) or is_logging(st) or isinstance(st, ast.Pass) or self.is_msg_assign(cx, st) or \
                    self.is_verification(cx, st):
                continue
            if isinstance(st, ast.If) and not self.effective(cx, st.body) and not self.effective(cx, st.orelse):
                continue
            out.append(st)
        return out

    def assign_local(self, cx, st, name, text, ty):
        """`name = <text : ty>` -> (line, new context)"""
        c2 = cx.fork()
        if name in cx.optvars:
            want = "optobj" if (isinstance(ty, tuple) and ty[0] == "obj") or cx.vars.get(name) == "optobj" else "optstr"
            text = self.coerce(st, text, ty, want, "assigned value")
            ty = want
        elif ty == "none":
            bad(st, "`%s` is None here but never tested" % name)
        old = cx.vars.get(name)
        if old is not None and old != ty and not (is_strish(old) and is_strish(ty)) and \
                not (isinstance(old, tuple) and isinstance(ty, tuple) and old[0] == ty[0] and "?" in (old[1], ty[1])):
            bad(st, "variable `%s` changes from %r to %r" % (name, old, ty))
        c2.vars[name] = ty
        return "let %s := %s in" % (G(name), text), c2

    def target_update(self, cx, st, target, text, ty):
        """assignment to something that is not a plain local -> (line, new context)"""
        ch = chain(target) if isinstance(target, ast.Attribute) else None
        # self.x of a non-record self: a local
        if ch and ch in cx.selfvars:
            return self.assign_local(cx, st, cx.selfvars[ch], text, ty)
        # self.attr = e
        if isinstance(target, ast.Attribute) and isinstance(target.value, ast.Name) and target.value.id == "self" \
                and cx.selfcls in RECORDS:
            attrs = RECORDS[cx.selfcls][2]
            if target.attr not in attrs:
                bad(st, "attribute self.%s of %s is outside the templates" % (target.attr, cx.selfcls))
            acc, aty = attrs[target.attr]
            return "let self := set_%s %s self in" % (acc, atom(self.coerce(st, text, ty, aty, "assigned value"))), cx
        if isinstance(target, ast.Subscript):
            base, bty = self.expr(cx, target.value)
            if bty == "run2":
                k = const_str(target.slice)
                if k not in ("cmd", "restart"):
                    bad(st, "only run['cmd'] and run['restart'] are modelled")
                if not re.match(r"^\w+$", base):
                    bad(st, "internal: run dictionary is not a variable")
                v = self.coerce(st, text, ty, "str", "assigned value")
                return "let %s := set_run_%s %s %s in" % (base, k, atom(v), base), cx
            if isinstance(bty, tuple) and bty[0] == "dict":
                k, kty = self.expr(cx, target.slice)
                k = self.coerce(target.slice, k, kty, "str", "dictionary key")
                v = self.coerce(st, text, ty, bty[1], "stored value") if bty[1] != "?" else text
                upd = "dict_put %s %s %s" % (atom(k), atom(v), atom(base))
                return self.store_back(cx, st, target.value, upd, bty)
        bad(st, "assignment to `%s` is outside the templates" % src_of(target))

    def store_back(self, cx, st, holder, upd, hty):
        """the container expression `holder` gets the new value `upd`"""
        if isinstance(holder, ast.Name):
            return "let %s := %s in" % (G(holder.id), upd), cx
        if isinstance(holder, ast.Attribute) and isinstance(holder.value, ast.Name) and holder.value.id == "self" \
                and cx.selfcls in RECORDS and holder.attr in RECORDS[cx.selfcls][2]:
            acc = RECORDS[cx.selfcls][2][holder.attr][0]
            return "let self := set_%s %s self in" % (acc, atom(upd)), cx
        bad(st, "update of `%s` is outside the templates" % src_of(holder))

    def effect_call(self, cx, st):
        """an expression statement with an effect -> (line, new context) or None"""
        c = st.value
        f = c.func
        if not isinstance(f, ast.Attribute) or c.keywords:
            return None
        if f.attr in ("append", "add") and len(c.args) == 1:
            base, bty = self.expr(cx, f.value)
            x, xty = self.expr(cx, c.args[0])
            if isinstance(bty, tuple) and bty[0] == "list" and f.attr == "append":
                ety = xty if bty[1] == "?" else bty[1]
                x = self.coerce(c.args[0], x, xty, ety, "appended value")
                line, c2 = self.store_back(cx, st, f.value, "list_append %s %s" % (atom(x), atom(base)), bty)
                if isinstance(f.value, ast.Name):
                    c2 = c2.fork()
                    c2.vars[f.value.id] = ("list", ety)
                return line, c2
            if isinstance(bty, tuple) and bty[0] == "set" and f.attr == "add":
                if bty[1] == "optstr":
                    x = self.coerce(c.args[0], x, xty, "optstr", "added element")
                    return self.store_back(cx, st, f.value, "oset_add %s %s" % (atom(x), atom(base)), bty)
                x = self.coerce(c.args[0], x, xty, "str", "added element")
                return self.store_back(cx, st, f.value, "sset_add %s %s" % (atom(x), atom(base)), bty)
        # <local object>.<mutating method>(..)
        if isinstance(f.value, ast.Name) and f.value.id in cx.vars:
            ty = cx.vars[f.value.id]
            if isinstance(ty, tuple) and ty[0] == "rec" and (ty[2], f.attr) in self.methods:
                gen, tys, ret = self.methods[(ty[2], f.attr)]
                if ret == "self":
                    args = self.args_of(cx, c, tys, src_of(f))
                    return "let %s := %s in" % (G(f.value.id), " ".join([gen, G(f.value.id)] + args)), cx
        return None

    def assigned_names(self, cx, stmts):
        """local names / `self` a statement list (re)binds, in order of first occurrence"""
        out = []

        def add(n):
            if n not in out:
                out.append(n)

        def holder(e):
            while isinstance(e, (ast.Subscript,)):
                e = e.value
            ch = chain(e) if isinstance(e, (ast.Attribute, ast.Name)) else None
            if ch is None:
                return
            if ch in cx.selfvars:
                add(cx.selfvars[ch])
            elif ch in cx.opaque_holders:
                add(cx.opaque_holders[ch])
            elif ch.split(".")[0] == "self":
                add("self")
            else:
                add(ch.split(".")[0])
        for st in stmts:
            for n in ast.walk(st):
                if isinstance(n, ast.Assign):
                    for t in n.targets:
                        for x in (t.elts if isinstance(t, ast.Tuple) else [t]):
                            holder(x)
                elif isinstance(n, ast.AugAssign):
                    holder(n.target)
                elif isinstance(n, ast.Expr) and isinstance(n.value, ast.Call) and \
                        isinstance(n.value.func, ast.Attribute) and not is_log_call(n.value):
                    if n.value.func.attr in ("append", "add", "update", "extend", "remove", "pop"):
                        holder(n.value.func.value)
                    elif isinstance(n.value.func.value, ast.Name) and n.value.func.value.id in cx.vars and \
                            isinstance(cx.vars[n.value.func.value.id], tuple) and \
                            cx.vars[n.value.func.value.id][0] == "rec":
                        add(n.value.func.value.id)
        return out

    def tup(self, names):
        return G(names[0]) if len(names) == 1 else "(%s)" % ", ".join(G(n) for n in names)

    def pat(self, names):
        return G(names[0]) if len(names) == 1 else "'(%s)" % ", ".join(G(n) for n in names)

    def block(self, cx, stmts, ind):
        """statement list in tail position -> lines"""
        pad = "  " * ind
        stmts = self.effective(cx, stmts)
        if not stmts:
            if cx.loops:
                return [pad + self.tup(cx.loops[-1])]
            if cx.fall is None:
                bad(cx.fn, "%s: control falls off the end of the function" % cx.what)
            return [pad + cx.fall(cx)]
        st, rest = stmts[0], stmts[1:]

        if isinstance(st, ast.Return) or (isinstance(st, ast.Expr) and isinstance(st.value, ast.Yield)):
            if cx.loops:
                bad(st, "return inside a loop is outside the templates")
            v = st.value if isinstance(st, ast.Return) else st.value.value
            if v is None:
                if cx.fall is None:
                    bad(st, "bare return in a function with a result")
                return [pad + cx.fall(cx)]
            x, ty = self.expr(cx, v)
            return [pad + cx.wrap(self.coerce(v, x, ty, cx.ret, "returned value"))]
        if isinstance(st, ast.Raise):
            if cx.loops or not cx.raises:
                bad(st, "raise is outside the templates here")
            e = st.exc
            name = e.func.id if isinstance(e, ast.Call) and isinstance(e.func, ast.Name) else \
                e.id if isinstance(e, ast.Name) else None
            if name is None:
                bad(st, "unknown raise `%s`" % src_of(st))
            return [pad + "Raise %s" % EXC.get(name, "OtherError")]
        if isinstance(st, ast.If):
            return self.if_stmt(cx, st, rest, ind)
        if isinstance(st, ast.For):
            return self.for_stmt(cx, st, rest, ind)
        if isinstance(st, ast.Assign) and len(st.targets) == 1:
            t = st.targets[0]
            x, ty = self.expr(cx, st.value)
            if isinstance(t, ast.Name):
                line, c2 = self.assign_local(cx, st, t.id, x, ty)
            else:
                line, c2 = self.target_update(cx, st, t, x, ty)
            return [pad + line] + self.block(c2, rest, ind)
        if isinstance(st, ast.Expr) and isinstance(st.value, ast.Call):
            r = self.effect_call(cx, st)
            if r:
                return [pad + r[0]] + self.block(r[1], rest, ind)
        bad(st, "statement `%s` is outside the templates" % src_of(st))

    def case_of(self, cx, test):
        """isinstance(<field value / label>, <type>) in statement position ->
        (combinator, scrutinee text, D(scrutinee), payload name, payload type, else-payload type)"""
        if not (isinstance(test, ast.Call) and isinstance(test.func, ast.Name) and test.func.id == "isinstance"
                and len(test.args) == 2 and isinstance(test.args[1], ast.Name) and not test.keywords):
            return None
        x, cls = test.args[0], test.args[1].id
        try:
            v, ty = self.expr(cx, x)
        except NotTranslatable:
            return None
        name = x.id if isinstance(x, ast.Name) else re.sub(r"\W+", "_", src_of(x)).strip("_")
        if ty == "pyval" and cls in ("str", "list", "dict"):
            pty = {"str": "str", "list": ("list", "pyval"), "dict": ("dict", "pyval")}[cls]
            return "case_" + cls, v, D(x), name, pty, None
        if ty == "label" and cls == "list":
            return "case_label_list", v, D(x), name, ("list", "val"), "str"
        return None

    def if_stmt(self, cx, st, rest, ind):
        pad = "  " * ind
        cs = self.case_of(cx, st.test)
        if cs:
            comb, v, dx, name, pty, ety = cs
            c_then = cx.fork()
            c_then.refine[dx] = (G(name), pty)
            a = self.block(c_then, list(st.body) + rest, ind + 1)
            c_else = cx.fork()
            if ety is not None:
                c_else.refine[dx] = (G(name), ety)
            els = self.effective(c_else, list(st.orelse) + rest)
            nested = els and isinstance(els[0], ast.If) and self.case_of(c_else, els[0].test) and ety is None
            b = self.block(c_else, els, ind if nested else ind + 1)
            if ety is None:
                return [pad + "%s %s (fun %s =>" % (comb, atom(v), G(name))] + close(a, ") (") + close(b)
            return [pad + "%s %s (fun %s =>" % (comb, atom(v), G(name))] + close(a, ") (fun %s =>" % G(name)) + close(b)
        c = self.cond(cx, st.test)
        lines = [pad + "if %s then" % c] + self.block(cx.fork(), list(st.body) + rest, ind + 1)
        els = self.effective(cx, list(st.orelse) + rest)
        if els and isinstance(els[0], ast.If) and not self.case_of(cx, els[0].test):
            sub = self.block(cx.fork(), els, ind)
            if sub[0].startswith(pad + "if "):
                return lines + [pad + "else " + sub[0].strip()] + sub[1:]
        return lines + [pad + "else"] + self.block(cx.fork(), els, ind + 1)

    def for_stmt(self, cx, st, rest, ind):
        pad = "  " * ind
        if st.orelse:
            bad(st, "for .. else is outside the templates")
        it, ity = self.expr(cx, st.iter)
        body_cx = cx.fork()
        if isinstance(ity, tuple) and ity[0] == "items":
            t = st.target
            if not (isinstance(t, ast.Tuple) and len(t.elts) == 2 and all(isinstance(x, ast.Name) for x in t.elts)):
                bad(st, "the loop over .items() does not unpack `k, v`")
            names = [t.elts[0].id, t.elts[1].id]
            body_cx.vars[names[0]] = "str"
            body_cx.vars[names[1]] = ity[1]
            comb = "for_items"
        elif isinstance(ity, tuple) and ity[0] in ("list", "set") and isinstance(st.target, ast.Name):
            names = [st.target.id]
            body_cx.vars[names[0]] = ity[1]
            comb = "for_each"
        else:
            bad(st, "cannot iterate over `%s` (a %r)" % (src_of(st.iter), ity))
        carried = [n for n in self.assigned_names(cx, st.body)
                   if (n == "self" and cx.selfcls in RECORDS) or (n in cx.vars and n not in names)]
        if not carried:
            bad(st, "the loop re-assigns no variable that is alive after it")
        body_cx.loops = cx.loops + [carried]
        for n in names:
            if n in carried:
                bad(st, "loop variable `%s` is also threaded through the loop" % n)
        body = self.block(body_cx, st.body, ind + 1)
        head = "let %s := %s %s (fun %s %s =>" % (self.pat(carried), comb, atom(it),
                                                " ".join(G(n) for n in names), self.pat(carried))
        after = cx.fork()
        for n in carried:
            # a list that was empty before the loop gets its element type from the body
            if n in cx.vars and isinstance(cx.vars[n], tuple) and cx.vars[n][1:] == ("?",):
                after.vars[n] = self.loop_elem_type(body_cx, st, n) or cx.vars[n]
        return [pad + head] + close(body, ") %s in" % self.tup(carried)) + self.block(after, rest, ind)

    def loop_elem_type(self, cx, st, name):
        for n in ast.walk(st):
            if isinstance(n, ast.Expr) and isinstance(n.value, ast.Call) and isinstance(n.value.func, ast.Attribute) \
                    and n.value.func.attr == "append" and isinstance(n.value.func.value, ast.Name) and \
                    n.value.func.value.id == name and len(n.value.args) == 1:
                return ("list", "val")
        return None


# ----------------------------------------------------------------------------
# pre-passes and slicing
# ----------------------------------------------------------------------------
def is_message_expr(e):
    if const_str(e) is not None:
        return True
    if isinstance(e, ast.BinOp) and isinstance(e.op, ast.Add):
        return is_message_expr(e.left) and is_message_expr(e.right)
    if isinstance(e, ast.Call) and isinstance(e.func, ast.Attribute) and e.func.attr == "format":
        return is_message_expr(e.func.value)
    return False


def prepass(cx, fn):
    """message-only locals and locals that may be None"""
    quiet = set()
    for n in ast.walk(fn):
        if is_log_call(n) or isinstance(n, ast.Raise):
            for m in ast.walk(n):
                quiet.add(id(m))
    loads, assigns = {}, {}
    for n in ast.walk(fn):
        if isinstance(n, ast.Name) and isinstance(n.ctx, ast.Load):
            loads.setdefault(n.id, []).append(id(n) in quiet)
        if isinstance(n, ast.Assign) and len(n.targets) == 1 and isinstance(n.targets[0], ast.Name):
            assigns.setdefault(n.targets[0].id, []).append(n.value)
    for name, vals in assigns.items():
        if all(is_message_expr(v) for v in vals) and loads.get(name) and all(loads[name]):
            cx.msgs.add(name)
        if any(isinstance(v, ast.Constant) and v.value is None for v in vals) and len(vals) > 1:
            cx.optvars.add(name)


def holder_chain(t):
    while isinstance(t, ast.Subscript):
        t = t.value
    return chain(t) if isinstance(t, (ast.Name, ast.Attribute)) else None


def assigned_chains(node):
    out = set()
    for n in ast.walk(node):
        if isinstance(n, ast.Assign):
            for t in n.targets:
                for x in (t.elts if isinstance(t, ast.Tuple) else [t]):
                    out.add(holder_chain(x))
        elif isinstance(n, ast.AugAssign):
            out.add(holder_chain(n.target))
        elif isinstance(n, (ast.For,)):
            for x in ast.walk(n.target):
                if isinstance(x, ast.Name):
                    out.add(x.id)
        elif isinstance(n, ast.Expr) and isinstance(n.value, ast.Call) and isinstance(n.value.func, ast.Attribute) \
                and n.value.func.attr in ("append", "add", "update", "extend") and not is_log_call(n.value):
            out.add(holder_chain(n.value.func.value))
    out.discard(None)
    return out


def slice_body(stmts, tracked, inputs=()):
    """keep the statements that (transitively) produce the tracked variables"""
    tracked = set(tracked)
    local_names = set()
    for st in stmts:
        for c in assigned_chains(st):
            if "." not in c:
                local_names.add(c)

    def simple_relevant(st):
        return bool(assigned_chains(st) & tracked)

    def used_names(st):
        out = set()
        nodes = [st.test] if isinstance(st, ast.If) else [st.iter] if isinstance(st, ast.For) else [st]
        for node in nodes:
            for n in ast.walk(node):
                if isinstance(n, ast.Name) and isinstance(n.ctx, ast.Load):
                    out.add(n.id)
        return out

    def walk(sts, collect):
        for st in sts:
            if is_doc(st) or is_logging(st):
                continue
            if not simple_relevant(st):
                continue
            collect(st)
            if isinstance(st, ast.If):
                walk(st.body, collect)
                walk(st.orelse, collect)
            elif isinstance(st, ast.For):
                walk(st.body, collect)

    changed = True
    while changed:
        changed = False
        found = []
        walk(stmts, found.append)
        for st in found:
            for n in used_names(st):
                if n in local_names and n not in tracked and n not in inputs:
                    tracked.add(n)
                    changed = True

    def keep(sts):
        out = []
        for st in sts:
            if is_doc(st) or is_logging(st) or not simple_relevant(st):
                continue
            if isinstance(st, ast.If):
                new = ast.If(test=st.test, body=keep(st.body) or [ast.Pass()], orelse=keep(st.orelse))
                out.append(ast.copy_location(new, st))
            elif isinstance(st, ast.For):
                new = ast.For(target=st.target, iter=st.iter, body=keep(st.body) or [ast.Pass()], orelse=[])
                out.append(ast.copy_location(new, st))
            elif isinstance(st, (ast.With, ast.Try, ast.While)):
                bad(st, "a tracked variable is assigned inside `%s`" % src_of(st))
            else:
                out.append(st)
        return out
    return keep(stmts)


# ----------------------------------------------------------------------------
# frames
# ----------------------------------------------------------------------------
def parse(repo, rel):
    Src.name = rel
    try:
        return ast.parse(open(os.path.join(repo, rel)).read())
    except (OSError, SyntaxError, ValueError) as e:
        raise NotTranslatable("%s: cannot parse: %s" % (rel, e))


def find_class(tree, name):
    cs = [n for n in tree.body if isinstance(n, ast.ClassDef) and n.name == name]
    if len(cs) != 1:
        raise NotTranslatable("%s: class %s not found" % (Src.name, name))
    return cs[0]


def find_fn(scope, name):
    fs = [n for n in scope.body if isinstance(n, ast.FunctionDef) and n.name == name]
    if len(fs) != 1:
        raise NotTranslatable("%s: expected one function %s, found %d" % (Src.name, name, len(fs)))
    return fs[0]


def py_params(fn, method=True):
    """[(name, default node or None)] without self; varargs as ('*name', None)"""
    a = fn.args
    if a.kwonlyargs or getattr(a, "posonlyargs", None):
        bad(fn, "signature of %s is outside the templates" % fn.name)
    names = [x.arg for x in a.args]
    if method:
        if not names or names[0] not in ("self", "cls"):
            bad(fn, "%s is not a method" % fn.name)
        names = names[1:]
    defaults = [None] * (len(names) - len(a.defaults)) + list(a.defaults)
    out = list(zip(names, defaults))
    if a.vararg:
        out.append(("*" + a.vararg.arg, None))
    return out


def group_params(params):
    """[(gallina name, gallina type)] -> '(a b : T) (c : U)'"""
    out, i = [], 0
    while i < len(params):
        j = i
        while j + 1 < len(params) and params[j + 1][1] == params[i][1]:
            j += 1
        out.append("(%s : %s)" % (" ".join(p[0] for p in params[i:j + 1]), params[i][1]))
        i = j + 1
    return " ".join(out)


def has_raise(tr, cx, stmts):
    for st in tr.effective(cx, stmts):
        for n in ast.walk(st):
            if isinstance(n, ast.Raise):
                return True
    return False


def gen_function(tr, fn, title, gen, tys, ret, selfcls=None, kind="fun", fix=None, method=True, body=None,
                 extra_params=(), setup=None, result=None):
    """kind: 'fun' (returns a value) | 'mutator' (returns the updated self) | 'ctor'.
    tys: types of the python parameters, in order.  result: cx -> text for slices."""
    ps = py_params(fn, method)
    if len(ps) != len(tys):
        bad(fn, "%s takes %d parameters, the frame expects %d" % (title, len(ps), len(tys)))
    cx = Cx(fn, title)
    cx.selfcls = selfcls
    prepass(cx, fn)
    pre, gparams = [], []
    rec = RECORDS.get(selfcls)
    if kind == "ctor":
        for (n, dflt), ty in zip(ps, tys):
            if dflt is None:
                gparams.append((G(n), gty(ty)))
            else:
                x, xty = tr.expr(cx, dflt)
                pre.append("  let %s := %s in" % (G(n), tr.coerce(dflt, x, xty, ty, "default")))
            cx.vars[n] = ty
        pre.append("  let self := %s in" % rec[1])
    else:
        if rec:
            gparams.append(("self", rec[0]))
        elif selfcls is not None and method and setup is None:
            gparams.append(("self", "envobj"))
            cx.vars["self"] = ("obj", selfcls)
        for (n, _d), ty in zip(ps, tys):
            n = n.lstrip("*")
            if ty == "skip":        # a parameter the translated statements do not read
                continue
            gparams.append((G(n), gty(ty)))
            cx.vars[n] = ty
    gparams += list(extra_params)
    if setup:
        gparams = setup(cx) + gparams
    stmts = fn.body if body is None else body
    cx.raises = has_raise(tr, cx, stmts)
    cx.ret = ret
    if result is not None:
        cx.fall = result
    elif kind in ("ctor", "mutator"):
        cx.fall = lambda c: c.wrap("self")
        cx.ret = ("rec", rec[0], selfcls)
    rty = gty(cx.ret)
    if cx.raises:
        rty = "result %s" % atom(rty)
    lines = tr.block(cx, stmts, 1)
    head = "%s %s%s%s : %s :=" % ("Fixpoint" if fix else "Definition", gen,
                                   " " + group_params(gparams) if gparams else "",
                                   " {struct %s}" % G(fix) if fix else "", rty)
    return ["(* %s *)" % title, head] + pre + lines, cx


def check_hierarchy(repo):
    """the isinstance combinators of SubstOps.v hard-wire this hierarchy"""
    tree = parse(repo, ENVOBJ)
    want = {"Substitution": "EnvObject", "Source": "EnvObject", "Dependency": "Substitution"}
    for cname, base in want.items():
        c = find_class(tree, cname)
        if [src_of(b) for b in c.bases] != [base]:
            bad(c, "class %s no longer derives from %s alone" % (cname, base))
    for rel, cname, base in ((VARIABLE, "Variable", "Substitution"), (PATHDEP, "PathDependency", "Dependency")):
        c = find_class(parse(repo, rel), cname)
        if [src_of(b) for b in c.bases] != [base]:
            bad(c, "class %s no longer derives from %s alone" % (cname, base))


def gen_variable_init(tr, cls):
    fn = find_fn(cls, "__init__")
    ps = py_params(fn)
    if [n for n, _d in ps] != ["name", "value", "token"] or ps[0][1] is not None or ps[1][1] is not None \
            or const_str(ps[2][1]) is None:
        bad(fn, "Variable.__init__ is not (self, name, value, token='<literal>')")
    cx = Cx(fn, "Variable.__init__")
    cx.selfcls = "Variable"
    prepass(cx, fn)
    cx.vars.update({"name": "str", "value": "val", "token": "str"})
    fields = {}
    for st in tr.effective(cx, fn.body):
        if isinstance(st, ast.Assign) and len(st.targets) == 1 and isinstance(st.targets[0], ast.Attribute) and \
                chain(st.targets[0]) in ("self.name", "self.value", "self.token"):
            a = st.targets[0].attr
            if a in fields:
                bad(st, "self.%s is assigned twice" % a)
            x, ty = tr.expr(cx, st.value)
            fields[a] = tr.coerce(st, x, ty, OBJ_ATTRS[a][1], "field value")
            continue
        if isinstance(st, ast.If) and D(st.test) == P("not self._verify()"):
            continue
        bad(st, "Variable.__init__: statement `%s` is outside the templates" % src_of(st))
    if sorted(fields) != ["name", "token", "value"]:
        bad(fn, "Variable.__init__ does not assign exactly name, value and token")
    return ["(* Variable.__init__ *)",
            "Definition variable_init_gen (name value : str) (value_isstr : bool) : envobj :=",
            "  let token := %s in" % g_str(ps[2][1].value),
            "  mkobj KVariable %s %s value_isstr %s" % (atom(fields["name"]), atom(fields["value"]),
                                                        atom(fields["token"]))]


def gen_combination_row(tr, fn):
    """get_combinations: `for i in range(0, self.length): <build one Combination>; yield it` -> the body,
    as a function of the row index"""
    cx0 = Cx(fn, "ParameterGenerator.get_combinations")
    body = tr.effective(cx0, fn.body)
    if py_params(fn) or len(body) != 1 or not isinstance(body[0], ast.For) or body[0].orelse or \
            not isinstance(body[0].target, ast.Name) or \
            D(body[0].iter) not in (P("range(0, self.length)"), P("range(self.length)")):
        bad(fn, "get_combinations is not `for <i> in range(0, self.length): ..`")
    loop = body[0]
    ys = [n for n in ast.walk(loop) if isinstance(n, (ast.Yield, ast.YieldFrom, ast.Return))]
    if len(ys) != 1 or not (isinstance(loop.body[-1], ast.Expr) and loop.body[-1].value is ys[0]):
        bad(fn, "get_combinations does not end each row with exactly one `yield <combination>`")
    i = loop.target.id
    return gen_function(tr, fn, "ParameterGenerator.get_combinations: the Combination of row [%s]" % G(i),
                        "pgen_combination_row_gen", [], ("rec", "combination", "Combination"),
                        selfcls="ParameterGenerator", body=loop.body,
                        setup=lambda cx: cx.vars.update({i: "nat"}) or [], extra_params=[(G(i), "nat")])[0]


HEADER = """(** maestrowf's substitution code, statement by statement.
    GENERATED by translate/tcode_subst.py from /repo's current source
    (utils.apply_function; parameters.Combination and ParameterGenerator;
    Variable / PathDependency get_var and substitute; StudyEnvironment.__init__,
    add, find, apply_environment; the $(WORKSPACE) statements of
    _StepRecord.__init__ / generate_script) as compositions of the combinators
    of Expand/SubstOps.v; Expand/SubstGenProofs.v proves every function below
    equal to the hand-written model of Expand/Subst.v that the theorems of
    Props/C09.v are about, so an edit of the source that changes what these
    functions do breaks a proof obligation.  Do not edit by hand. *)
From Coq Require Import List NArith Bool Arith.
From MWF Require Import Base.Str Expand.PyStr Expand.Subst Expand.SubstOps.
Import ListNotations.
"""


def steprecord_setup(chains, with_workspace):
    def setup(cx):
        cx.vars["step_run"] = "run2"
        for ch in chains:
            cx.inputs[ch] = ("step_run", "run2")
            cx.opaque_holders[ch] = "step_run"
        cx.selfvars["self.workspace"] = "self_workspace"
        if with_workspace:
            cx.vars["self_workspace"] = ("obj", "Variable")
            return [("self_workspace", "envobj"), ("step_run", "run2")]
        return []
    return setup


def generate(repo):
    tr = Tr()
    defs = []
    check_hierarchy(repo)

    # utils.apply_function
    fn = find_fn(parse(repo, UTILS), "apply_function")
    tr.funcs["apply_function"] = ("apply_function_gen", ["pyval", "strfun"], "pyval")
    defs.append(gen_function(tr, fn, "utils.apply_function", "apply_function_gen", ["pyval", "strfun"], "pyval",
                             fix=py_params(fn, False)[0][0], method=False)[0])

    # parameters.Combination
    ptree = parse(repo, PARAMS)
    cls = find_class(ptree, "Combination")
    defs.append(gen_function(tr, find_fn(cls, "__init__"), "Combination.__init__", "combination_init_gen",
                             ["str"], None, selfcls="Combination", kind="ctor")[0])
    tr.ctors["Combination"] = ("combination_init_gen", [], ("rec", "combination", "Combination"))
    defs.append(gen_function(tr, find_fn(cls, "add"), "Combination.add", "combination_add_gen",
                             ["str", "val", "val", "val"], None, selfcls="Combination", kind="mutator")[0])
    tr.methods[("Combination", "add")] = ("combination_add_gen", ["str", "val", "val", "val"], "self")
    defs.append(gen_function(tr, find_fn(cls, "get_param_string"), "Combination.get_param_string",
                             "combination_get_param_string_gen", [("list", "str")], "str",
                             selfcls="Combination")[0])
    defs.append(gen_function(tr, find_fn(cls, "apply"), "Combination.apply", "combination_apply_gen",
                             ["str"], "str", selfcls="Combination")[0])

    # parameters.ParameterGenerator
    Src.name = PARAMS
    cls = find_class(ptree, "ParameterGenerator")
    defs.append(gen_function(tr, find_fn(cls, "__init__"), "ParameterGenerator.__init__", "pgen_init_gen",
                             ["str", "str"], None, selfcls="ParameterGenerator", kind="ctor")[0])
    defs.append(gen_function(tr, find_fn(cls, "add_parameter"), "ParameterGenerator.add_parameter",
                             "pgen_add_parameter_gen", ["str", ("list", "val"), "label", "val"], None,
                             selfcls="ParameterGenerator", kind="mutator")[0])
    defs.append(gen_combination_row(tr, find_fn(cls, "get_combinations")))

    # Variable / PathDependency
    Src.name = VARIABLE
    cls = find_class(parse(repo, VARIABLE), "Variable")
    defs.append(gen_variable_init(tr, cls))
    tr.ctors["Variable"] = None     # filled per call site (the value's type decides value_isstr)
    defs.append(gen_function(tr, find_fn(cls, "get_var"), "Variable.get_var", "variable_get_var_gen",
                             [], "str", selfcls="Variable")[0])
    tr.methods[("Variable", "get_var")] = ("variable_get_var_gen", [], "str")
    defs.append(gen_function(tr, find_fn(cls, "substitute"), "Variable.substitute", "variable_substitute_gen",
                             ["str"], "str", selfcls="Variable")[0])
    tr.methods[("Variable", "substitute")] = ("variable_substitute_gen", ["str"], "str")
    cls = find_class(parse(repo, PATHDEP), "PathDependency")
    defs.append(gen_function(tr, find_fn(cls, "get_var"), "PathDependency.get_var", "pathdependency_get_var_gen",
                             [], "str", selfcls="PathDependency")[0])
    tr.methods[("PathDependency", "get_var")] = ("pathdependency_get_var_gen", [], "str")
    defs.append(gen_function(tr, find_fn(cls, "substitute"), "PathDependency.substitute",
                             "pathdependency_substitute_gen", ["str"], "str", selfcls="PathDependency")[0])
    tr.methods[("PathDependency", "substitute")] = ("pathdependency_substitute_gen", ["str"], "str")
    defs.append(["(* <object>.substitute(data): the method of the object's class *)",
                 "Definition obj_substitute_gen (self : envobj) (data : str) : str :=",
                 "  match o_kind self with",
                 "  | KVariable => variable_substitute_gen self data",
                 "  | KPathDependency => pathdependency_substitute_gen self data",
                 "  | _ => data",
                 "  end"])
    tr.methods[("*", "substitute")] = ("obj_substitute_gen", ["str"], "str")

    # StudyEnvironment
    cls = find_class(parse(repo, STUDYENV), "StudyEnvironment")
    defs.append(gen_function(tr, find_fn(cls, "__init__"), "StudyEnvironment.__init__", "environment_init_gen",
                             [], None, selfcls="StudyEnvironment", kind="ctor")[0])
    defs.append(gen_function(tr, find_fn(cls, "add"), "StudyEnvironment.add", "environment_add_gen",
                             [("obj", None)], None, selfcls="StudyEnvironment", kind="mutator")[0])
    defs.append(gen_function(tr, find_fn(cls, "find"), "StudyEnvironment.find", "environment_find_gen",
                             ["str"], "optobj", selfcls="StudyEnvironment")[0])
    defs.append(gen_function(tr, find_fn(cls, "apply_environment"), "StudyEnvironment.apply_environment",
                             "environment_apply_environment_gen", ["str"], "str", selfcls="StudyEnvironment")[0])

    # _StepRecord: the $(WORKSPACE) pass
    cls = find_class(parse(repo, EXECG), "_StepRecord")
    tr.ctors["Variable"] = "variable"
    fn = find_fn(cls, "__init__")
    ps = py_params(fn)
    if [n for n, _d in ps[:2]] != ["workspace", "step"] or fn.args.kwarg is None:
        bad(fn, "_StepRecord.__init__ is not (self, workspace, step, **kwargs)")
    body = slice_body(fn.body, {"self.workspace", "step.run"})
    lines, _cx = gen_function(
        tr, fn, "_StepRecord.__init__: the statements on self.workspace and step.run", "steprecord_init_gen",
        ["str", "skip"], ("tuple", ["envobj", "run2"]), selfcls="_StepRecord", body=body,
        setup=steprecord_setup(["step.run"], False), extra_params=[("step_run", "run2")],
        result=lambda c: "(%s, step_run)" % tr.expr(c, ast.parse("self.workspace", mode="eval").body)[0])
    defs.append(lines)
    fn = find_fn(cls, "generate_script")
    body = slice_body(fn.body, {"self.step.run"})
    lines, _cx = gen_function(
        tr, fn, "_StepRecord.generate_script: the statements on self.step.run",
        "steprecord_generate_script_gen", ["skip", "skip"], "run2", selfcls="_StepRecord", body=body,
        setup=steprecord_setup(["self.step.run"], True), result=lambda c: "step_run")
    defs.append(lines)

    text = HEADER
    for d in defs:
        d = list(d)
        d[-1] += "."
        text += "\n" + "\n".join(d) + "\n"
    return {OUT: text}


if __name__ == "__main__":
    import sys
    sys.stdout.write(generate(sys.argv[1] if len(sys.argv) > 1 else "/repo")[OUT])

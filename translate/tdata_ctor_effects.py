"""T-data generator for C17: what an adapter's CONSTRUCTOR and its SCRIPT GENERATION call.

ExecutionGraph.execute_ready_steps constructs the scheduler adapter on every pass -- in a dry
run too -- and _execute_record generates the step's scripts (adapter.write_script) BEFORE the
dry-run early return.  The Exec model abstracts both as "no adapter event besides EGen"; this
generator ties that abstraction to the source: it parses (python `ast`, never imports /repo)
every script-adapter class the plug-in registry would register

    maestrowf/interfaces/script/*.py : a class with a class-level  key = "<text>"  whose bases
    lead to ScriptAdapter (maestrowf/abstracts/interfaces/*.py)

and emits coq/theories/Gen/CtorEffects.v:

* `gen_adapter_classes : list (str * str)`          -- (key, class name);
* `gen_ctor_callees    : list (str * list str)`     -- per key the NAMES OF ALL CALLEES reachable from
  `__init__`: the calls in its body, in the `__init__` of the base classes reached through
  `super(..).__init__` / `Base.__init__(self, ..)`, in every method of the class hierarchy called
  as `self.m(..)` / `cls.m(..)`, and in every module-level function of the same module called by
  name (closure); a name imported under an alias is emitted under its ORIGINAL name
  (`from maestrowf.utils import start_process as sp; sp(..)` -> `start_process`); a call through an
  attribute of anything else (`kwargs.pop`, `LOGGER.info`, `self._interface.get_flux_version`,
  `subprocess.run`) is emitted as the attribute name (a leaf);
* `gen_scriptgen_callees : list (str * list str)`   -- the same closure from `write_script`.

Exec/ExecDryProcs.v proves (vm_compute over these finite lists) that no such name is a door to a
process, an engine call (submit / check_jobs / cancel_jobs), a Flux broker call or a dynamic-call
primitive, and that the only broker READ (`get_flux_version`) is made by the flux adapter.

Fail closed (NotTranslatable): no adapter class found; a base class that cannot be resolved; a call
whose callee is not a name / attribute (`f()()`, `table[k]()`); a bare name that is neither a
builtin, nor imported, nor a module-level definition, nor a parameter-free local alias we can see
through; a nested def / lambda / class or an `import` inside the scanned bodies.
"""
import ast
import builtins
import glob
import os

from translate.regen import NotTranslatable

ADAPTER_DIR = "maestrowf/interfaces/script"
ABSTRACT_DIR = "maestrowf/abstracts/interfaces"
OUT = "Gen/CtorEffects.v"
ROOT_CLASS = "ScriptAdapter"
BUILTINS = set(dir(builtins))


def _fail(msg, node=None, where=""):
    if node is not None and hasattr(node, "lineno"):
        msg = "%s (%s line %d)" % (msg, where, node.lineno)
    raise NotTranslatable(msg)


def _g_str(x):
    if not all(32 <= ord(c) < 127 and c not in '"\\' for c in x):
        _fail("callee name %r is not plain ASCII" % (x,))
    return '(s "%s")' % x


class _Module:
    def __init__(self, repo, rel):
        self.rel = rel
        try:
            with open(os.path.join(repo, rel), encoding="utf-8") as f:
                self.tree = ast.parse(f.read(), filename=rel)
        except (OSError, SyntaxError) as e:
            _fail("cannot parse %s: %r" % (rel, e))
        self.imports = {}        # local name -> original (last component) name
        self.modules = set()     # local names bound to modules
        self.funcs = {}          # module-level functions
        self.classes = {}        # module-level classes
        for n in self.tree.body:
            self._top(n)

    def _top(self, n):
        if isinstance(n, ast.ImportFrom):
            for a in n.names:
                self.imports[a.asname or a.name] = a.name
        elif isinstance(n, ast.Import):
            for a in n.names:
                self.modules.add((a.asname or a.name).split(".")[0])
        elif isinstance(n, ast.FunctionDef):
            self.funcs[n.name] = n
        elif isinstance(n, ast.ClassDef):
            self.classes[n.name] = n
        elif isinstance(n, (ast.Try, ast.If)):          # try: import flux / except ImportError: ...
            for sub in ast.iter_child_nodes(n):
                if isinstance(sub, ast.stmt):
                    self._top(sub)
                elif isinstance(sub, ast.ExceptHandler):
                    for s2 in sub.body:
                        self._top(s2)


def _methods(cls):
    return {n.name: n for n in cls.body if isinstance(n, ast.FunctionDef)}


def _class_key(cls):
    for n in cls.body:
        if isinstance(n, ast.Assign) and len(n.targets) == 1 and isinstance(n.targets[0], ast.Name) \
                and n.targets[0].id == "key" and isinstance(n.value, ast.Constant) and isinstance(n.value.value, str):
            return n.value.value
    return None


class _World:
    def __init__(self, repo):
        self.mods = []
        for d in (ADAPTER_DIR, ABSTRACT_DIR):
            for p in sorted(glob.glob(os.path.join(repo, d, "*.py"))):
                self.mods.append(_Module(repo, os.path.relpath(p, repo)))
        self.classes = {}        # class name -> (module, ClassDef)
        for m in self.mods:
            for name, c in m.classes.items():
                if name in self.classes:
                    _fail("two classes named %s (%s, %s)" % (name, self.classes[name][0].rel, m.rel))
                self.classes[name] = (m, c)

    def bases(self, cname, where):
        m, c = self.classes[cname]
        out = []
        for b in c.bases:
            if isinstance(b, ast.Name):
                bn = m.imports.get(b.id, b.id)
            elif isinstance(b, ast.Attribute):
                bn = b.attr
            else:
                _fail("base class expression of %s not understood" % cname, b, m.rel)
            if bn in ("object", "ABC"):
                continue
            if bn not in self.classes:
                _fail("base class %s of %s is not defined in %s or %s" % (bn, cname, ADAPTER_DIR, ABSTRACT_DIR), b, m.rel)
            out.append(bn)
        return out

    def mro(self, cname, seen=None):
        """left-to-right depth-first linearisation without repeats (enough for single inheritance chains with mix-ins)"""
        seen = seen if seen is not None else []
        if cname in seen:
            return seen
        seen.append(cname)
        for b in self.bases(cname, cname):
            self.mro(b, seen)
        return seen

    def find_method(self, order, name):
        for cn in order:
            ms = _methods(self.classes[cn][1])
            if name in ms:
                return cn, ms[name]
        return None, None

    def callees(self, cname, entry):
        """names of all callees reachable from method `entry` of class `cname` (sorted, duplicate-free)"""
        order = self.mro(cname)
        out, done, todo = set(), set(), []
        cn, fn = self.find_method(order, entry)
        if fn is None:
            if entry == "__init__":
                return []                      # object.__init__
            _fail("adapter class %s has no method %s in its hierarchy" % (cname, entry))
        todo.append(("m", cn, fn))
        while todo:
            kind, owner, fn = todo.pop()
            ident = (kind, owner, fn.name, fn.lineno)
            if ident in done:
                continue
            done.add(ident)
            mod = self.classes[owner][0] if kind == "m" else owner
            selfname = fn.args.args[0].arg if (kind == "m" and fn.args.args) else None
            local_alias = {}
            for n in self._walk(fn, mod.rel):
                if isinstance(n, (ast.Import, ast.ImportFrom)):
                    _fail("import inside %s" % fn.name, n, mod.rel)
                if isinstance(n, ast.Assign) and len(n.targets) == 1 and isinstance(n.targets[0], ast.Name) \
                        and isinstance(n.value, (ast.Name, ast.Attribute)):
                    # f = start_process / f = subprocess.Popen : an alias we can see through
                    local_alias[n.targets[0].id] = n.value
            for n in self._walk(fn, mod.rel):
                if not isinstance(n, ast.Call):
                    continue
                f = n.func
                hops = 0
                while isinstance(f, ast.Name) and f.id in local_alias and hops < 8:
                    f = local_alias[f.id]
                    hops += 1
                if isinstance(f, ast.Name):
                    name = mod.imports.get(f.id, f.id)
                    if f.id in mod.funcs and f.id not in mod.imports:
                        todo.append(("f", mod, mod.funcs[f.id]))
                    elif f.id in mod.classes or name in self.classes:
                        pass                                        # constructing a sibling class: by name only
                    elif f.id not in mod.imports and f.id not in BUILTINS:
                        _fail("call of the local name %s in %s is not understood" % (f.id, fn.name), n, mod.rel)
                    out.add(name)
                elif isinstance(f, ast.Attribute):
                    out.add(f.attr)
                    v = f.value
                    is_self = isinstance(v, ast.Name) and v.id in (selfname, "self", "cls") and kind == "m"
                    is_super = isinstance(v, ast.Call) and isinstance(v.func, ast.Name) and v.func.id == "super"
                    is_base = isinstance(v, ast.Name) and mod.imports.get(v.id, v.id) in self.classes and kind == "m"
                    if is_self:
                        o2, m2 = self.find_method(order, f.attr)
                        if m2 is not None:
                            todo.append(("m", o2, m2))
                    elif is_super and kind == "m":
                        after = order[order.index(owner) + 1:] if owner in order else []
                        o2, m2 = self.find_method(after, f.attr)
                        if m2 is not None:
                            todo.append(("m", o2, m2))
                    elif is_base:
                        bn = mod.imports.get(v.id, v.id)
                        o2, m2 = self.find_method(self.mro(bn), f.attr)
                        if m2 is not None:
                            todo.append(("m", o2, m2))
                else:
                    _fail("callee expression in %s is neither a name nor an attribute" % fn.name, n, mod.rel)
        return sorted(out)

    @staticmethod
    def _walk(fn, where):
        todo = list(fn.body)
        while todo:
            n = todo.pop()
            yield n
            for ch in ast.iter_child_nodes(n):
                if isinstance(ch, (ast.FunctionDef, ast.AsyncFunctionDef, ast.Lambda, ast.ClassDef)):
                    _fail("nested definition inside %s" % fn.name, ch, where)
                todo.append(ch)

    def adapters(self):
        """[(key, class name)] of the concrete adapters below ROOT_CLASS defined in ADAPTER_DIR"""
        out = []
        for name, (m, c) in sorted(self.classes.items()):
            if not m.rel.startswith(ADAPTER_DIR + "/"):
                continue
            k = _class_key(c)
            if k is None:
                continue
            try:
                order = self.mro(name)
            except NotTranslatable:
                if c.bases:
                    raise
                continue
            if ROOT_CLASS in order and name != ROOT_CLASS:
                out.append((k, name))
        return sorted(out)


def generate(repo):
    w = _World(repo)
    ads = w.adapters()
    if len(ads) < 2:
        _fail("found %d script-adapter classes with a `key` in %s" % (len(ads), ADAPTER_DIR))
    if len({k for k, _ in ads}) != len(ads):
        _fail("two adapter classes share a key: %r" % (ads,))

    def table(name, entry):
        rows = []
        for k, cn in ads:
            cs = w.callees(cn, entry)
            rows.append("  (%s, [%s])" % (_g_str(k), "; ".join(_g_str(c) for c in cs)))
        return "Definition %s : list (str * list str) :=\n [\n%s\n ].\n" % (name, ";\n".join(rows))

    text = ("(** GENERATED by translate/tdata_ctor_effects.py from /repo's current source\n"
            "    (the script-adapter classes of %s and their bases in %s).\n"
            "    Do not edit by hand. *)\n"
            "From MWF Require Import Base.Str.\n\n"
            "(* (adapter key, class) of every adapter class the plug-in registry registers *)\n"
            "Definition gen_adapter_classes : list (str * str) :=\n [%s].\n\n"
            "(* names of all callees reachable from the constructor (closure over super().__init__, self.m(), module functions) *)\n"
            "%s\n"
            "(* names of all callees reachable from write_script (script generation runs in a dry run too) *)\n"
            "%s" % (ADAPTER_DIR, ABSTRACT_DIR,
                    "; ".join("(%s, %s)" % (_g_str(k), _g_str(c)) for k, c in ads),
                    table("gen_ctor_callees", "__init__"), table("gen_scriptgen_callees", "write_script")))
    return {OUT: text}


if __name__ == "__main__":
    import sys
    for rel, t in generate(sys.argv[1] if len(sys.argv) > 1 else "/repo").items():
        print("(* %s *)" % rel)
        print(t)

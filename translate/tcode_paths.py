"""T-code for C10 / C11: regenerate the Gallina text of maestrowf's path
construction as Expand/PathGen.v.

Sources (parsed with `ast`, never imported):
  maestrowf/utils.py                            make_safe_path (whole function)
  maestrowf/datastructures/core/study.py        Study._stage: the statements that build `workspace`, `nickname`
                                                and the instance name `combo_str` (both branches);
                                                StudyStep.name, StudyStep.real_name
  maestrowf/datastructures/core/executiongraph.py
                                                _StepRecord.name, setup_workspace (directory created),
                                                generate_script (script directory handed to write_script),
                                                _execute (cwd handed to submit)
  maestrowf/interfaces/script/{local,slurm,lsf,flux}scriptadapter.py
                                                _write_script: the statements that build script_path and
                                                restart_path (self._extension read from __init__)
  maestrowf/interfaces/script/localscriptadapter.py
                                                submit: the paths of the .out / .err files

Built on the typed statement / expression translator of translate/tcode_subst.py
(class Tr), extended by: os.path.join(a, b) / os.path.join(*l), make_safe_path(p,
*[a, b]), md5(x.encode("utf-8")).hexdigest(), "".join(c for c in x if <cond>),
string.ascii_letters / string.digits, None-or-string variables.  Long methods are
SLICED: only the statements that (transitively) produce the tracked path
variables are translated, everything else is ignored -- but every statement that
feeds a path must be inside the templates, otherwise the translator fails closed.

Python variable names are kept; what a path is made from is a parameter of the
generated function (`self_name` = _StepRecord.name, `step_name` = StudyStep.name,
`step_real_name`, ...).  Expand/PathGenProofs.v proves the generated functions
equal to SafePath.v's sanitize / make_safe_path / workspace / scr_dir /
script_path / restart_path / out_paths, so sanitising the joined path instead of
the components, `self.step.name` for `self.name`, a join that drops a component,
`.replace(".sh", ..)` for a join, output files next to the script CHANGE the
generated text and break a proof obligation.  The alphabet and the file-name
templates stay T-data (Gen/SafePathData.v, translate/tdata_misc.py); the proofs
connect the two.
"""
import ast

from translate.regen import NotTranslatable  # noqa
from translate import tcode_subst as core
from translate.tcode_subst import (Tr, Cx, Src, bad, D, P, G, atom, chain, const_str, src_of, g_str, find_class,
                                   find_fn, parse, py_params, slice_body, gen_function, is_doc, is_logging)

UTILS = "maestrowf/utils.py"
STUDY = "maestrowf/datastructures/core/study.py"
EXECG = "maestrowf/datastructures/core/executiongraph.py"
ADAPTERS = (
    ("local", "maestrowf/interfaces/script/localscriptadapter.py", "LocalScriptAdapter"),
    ("slurm", "maestrowf/interfaces/script/slurmscriptadapter.py", "SlurmScriptAdapter"),
    ("lsf", "maestrowf/interfaces/script/lsfscriptadapter.py", "LSFScriptAdapter"),
    ("flux", "maestrowf/interfaces/script/fluxscriptadapter.py", "FluxScriptAdapter"),
)
OUT = "Expand/PathGen.v"


class PathTr(Tr):
    def __init__(self):
        Tr.__init__(self)
        self.consts["string.ascii_letters"] = ("string_ascii_letters", "str")
        self.consts["string.digits"] = ("string_digits", "str")

    def coerce(self, node, text, ty, want, what="value"):
        if want == "str" and ty == "optstr":
            return "opt_str %s" % atom(text)
        return Tr.coerce(self, node, text, ty, want, what)

    def join(self, cx, e, sep):
        a = e.args[0]
        if isinstance(a, ast.GeneratorExp):
            # "".join(c for c in x if <cond>): the characters of x that satisfy the condition
            g = a.generators
            if sep != "" or len(g) != 1 or len(g[0].ifs) != 1 or not isinstance(g[0].target, ast.Name) or \
                    not (isinstance(a.elt, ast.Name) and a.elt.id == g[0].target.id) or g[0].is_async:
                bad(e, "join over `%s` is outside the templates" % src_of(a))
            x, ty = self.expr(cx, g[0].iter)
            x = self.coerce(g[0].iter, x, ty, "str", "filtered string")
            c2 = cx.fork()
            c2.vars[g[0].target.id] = "char"
            return "str_filter (fun %s => %s) %s" % (G(g[0].target.id), self.cond(c2, g[0].ifs[0]), atom(x)), "str"
        return Tr.join(self, cx, e, sep)

    def strs(self, cx, nodes):
        out = []
        for a in nodes:
            x, ty = self.expr(cx, a)
            out.append(self.coerce(a, x, ty, "str", "path component"))
        return out

    def call(self, cx, e):
        f = e.func
        if chain(f) == "os.path.join" and not e.keywords and e.args:
            if len(e.args) == 1 and isinstance(e.args[0], ast.Starred):
                x, ty = self.expr(cx, e.args[0].value)
                if not (isinstance(ty, tuple) and ty[0] == "list" and core.is_strish(ty[1])):
                    bad(e, "os.path.join(*<a %r>)" % (ty,))
                return "os_path_join_star %s" % atom(x), "str"
            if any(isinstance(a, ast.Starred) for a in e.args):
                bad(e, "os.path.join call outside the templates")
            items = self.strs(cx, e.args)
            if len(items) == 2:
                return "os_path_join %s %s" % (atom(items[0]), atom(items[1])), "str"
            return "os_path_join_star [%s]" % "; ".join(items), "str"
        if isinstance(f, ast.Name) and f.id == "make_safe_path" and "make_safe_path" in self.funcs and \
                e.args and not e.keywords and not isinstance(e.args[0], ast.Starred):
            (base,) = self.strs(cx, e.args[:1])
            rest = e.args[1:]
            if len(rest) == 1 and isinstance(rest[0], ast.Starred):
                comps, ty = self.expr(cx, rest[0].value)
                if not (isinstance(ty, tuple) and ty[0] == "list" and (core.is_strish(ty[1]) or ty[1] == "?")):
                    bad(e, "make_safe_path(.., *<a %r>)" % (ty,))
            elif any(isinstance(a, ast.Starred) for a in rest):
                bad(e, "make_safe_path call outside the templates")
            else:
                comps = "[%s]" % "; ".join(self.strs(cx, rest))
            return "%s %s %s" % (self.funcs["make_safe_path"][0], atom(base), atom(comps)), "str"
        # md5(x.encode("utf-8")).hexdigest()
        if isinstance(f, ast.Attribute) and f.attr == "hexdigest" and not e.args and not e.keywords and \
                isinstance(f.value, ast.Call) and isinstance(f.value.func, ast.Name) and f.value.func.id == "md5" and \
                len(f.value.args) == 1 and not f.value.keywords:
            enc = f.value.args[0]
            if isinstance(enc, ast.Call) and isinstance(enc.func, ast.Attribute) and enc.func.attr == "encode" and \
                    len(enc.args) == 1 and const_str(enc.args[0]) in ("utf-8", "utf8") and not enc.keywords:
                (x,) = self.strs(cx, [enc.func.value])
                cx.uses_md5 = True
                return "md5_hexdigest h %s" % atom(x), "str"
            bad(e, "md5 of something else than <string>.encode('utf-8')")
        return Tr.call(self, cx, e)


def path_function(tr, fn, title, gen, params, ret, body, result, inputs=None, opaque=None, optvars=(),
                  method=True):
    """a slice of `fn`: Gallina parameters `params` [(python-ish name, type)], statements `body`,
    result expression built by `result(cx)`"""
    cx = Cx(fn, title)
    cx.uses_md5 = False
    core.prepass(cx, fn)
    cx.optvars |= set(optvars)
    for n, ty in params:
        cx.vars[n] = ty
    for ch, (text, ty) in (inputs or {}).items():
        cx.inputs[ch] = (text, ty)
    for src, (text, ty) in (opaque or {}).items():
        cx.opaque[P(src)] = (text, ty)
    cx.ret = ret
    cx.fall = result
    lines = tr.block(cx, body, 1)
    gparams = [(n if ty == "digest" else G(n), core.gty(ty)) for n, ty in params]
    head = "Definition %s %s : %s :=" % (gen, core.group_params(gparams), core.gty(ret))
    return ["(* %s *)" % title, head] + lines


def names_result(tr, names):
    def result(cx):
        out = []
        for n in names:
            if n not in cx.vars:
                bad(cx.fn, "%s: `%s` is not assigned on every path" % (cx.what, n))
            out.append(G(n))
        return out[0] if len(out) == 1 else "(%s)" % ", ".join(out)
    return result


# ----------------------------------------------------------------------------
def gen_make_safe_path(tr, repo):
    fn = find_fn(parse(repo, UTILS), "make_safe_path")
    ps = py_params(fn, method=False)
    if len(ps) != 2 or ps[0][1] is not None or not ps[1][0].startswith("*") or fn.args.kwarg:
        bad(fn, "make_safe_path is not (base_path, *args)")
    lines, _cx = gen_function(tr, fn, "utils.make_safe_path", "make_safe_path_gen", ["str", ("list", "str")], "str",
                              method=False)
    tr.funcs["make_safe_path"] = ("make_safe_path_gen", ["str", ("list", "str")], "str")
    return lines


def stage_parts(stage):
    """the two places of Study._stage where a workspace is made"""
    loops = [n for n in stage.body if isinstance(n, ast.For) and D(n.iter) == P("t_sorted")]
    if len(loops) != 1 or not isinstance(loops[0].target, ast.Name):
        bad(stage, "Study._stage: the loop `for step in t_sorted` was not found")
    loop = loops[0]
    step = loop.target.id
    split = [n for n in loop.body if isinstance(n, ast.If) and D(n.test) == P("not self.used_params[%s]" % step)]
    if len(split) != 1:
        bad(loop, "Study._stage: `if not self.used_params[%s]:` was not found" % step)
    combos = [n for n in split[0].orelse if isinstance(n, ast.For) and D(n.iter) == P("self.parameters")]
    if len(combos) != 1 or not isinstance(combos[0].target, ast.Name):
        bad(split[0], "Study._stage: the loop `for combo in self.parameters` was not found")
    return step, split[0].body, combos[0].target.id, combos[0].body


def upto(stmts, marker, what, node):
    """statements up to and including the one that records the workspace"""
    for i, st in enumerate(stmts):
        if isinstance(st, ast.Assign) and len(st.targets) == 1 and D(st.targets[0]) == P(marker[0]) and \
                D(st.value) == P(marker[1]):
            return stmts[:i]
    bad(node, "%s: `%s = %s` was not found" % (what, marker[0], marker[1]))


def gen_stage(tr, repo):
    tree = parse(repo, STUDY)
    study = find_class(tree, "Study")
    stage = find_fn(study, "_stage")
    step, unparam, combo, param = stage_parts(stage)
    inputs = {"self._out_path": ("out_path", "str"), "self._hash_ws": ("hash_ws", "bool")}
    defs = []
    # 1. a step without parameters
    body = slice_body(upto(unparam, ("self.workspaces[%s]" % step, "workspace"), "Study._stage (no parameters)",
                           stage), {"workspace"}, inputs=(step,))
    defs.append(path_function(
        tr, stage, "Study._stage, a step that uses no parameters: its workspace", "stage_workspace_gen",
        [("out_path", "str"), (step, "str")], "str", body, names_result(tr, ["workspace"]), inputs=inputs))
    # 2. one combination of a parameterised step
    pre = upto(param, ("self.workspaces[combo_str]", "workspace"), "Study._stage (combination)", stage)
    body = slice_body(pre, {"workspace", "nickname", "combo_str"}, inputs=(step, combo))
    src = "%s.get_param_string(self.used_params[%s])" % (combo, step)
    lines = path_function(
        tr, stage, "Study._stage, one combination of a parameterised step: instance name, nickname, workspace;\n"
        "   [combo_string] is %s" % src, "stage_combo_workspace_gen",
        [("h", "digest"), ("out_path", "str"), ("hash_ws", "bool"), (step, "str"), ("combo_string", "str")],
        ("tuple", ["str", "optstr", "str"]), body, names_result(tr, ["combo_str", "nickname", "workspace"]),
        inputs=inputs, opaque={src: ("combo_string", "str")})
    defs.append(lines)
    # what the expanded step is called: step_exp.name = combo_str; step_exp.nickname = nickname
    got = {(D(a.targets[0]), D(a.value)) for a in ast.walk(ast.Module(body=param, type_ignores=[]))
           if isinstance(a, ast.Assign) and len(a.targets) == 1}
    for t_, v in (("step_exp.name", "combo_str"), ("step_exp.nickname", "nickname")):
        if (P(t_), P(v)) not in got:
            bad(stage, "Study._stage: `%s = %s` was not found" % (t_, v))
    adds = [n for n in ast.walk(stage) if isinstance(n, ast.Call) and chain(n.func) == "dag.add_step"]
    if len(adds) != 2 or not all(len(c.args) >= 3 and D(c.args[2]) == P("workspace") for c in adds):
        bad(stage, "Study._stage: dag.add_step is not called twice with the computed workspace")
    # StudyStep.name / real_name
    sc = find_class(tree, "StudyStep")
    setters = [n for n in sc.body if isinstance(n, ast.FunctionDef) and n.name == "name" and
               any(isinstance(d, ast.Attribute) and d.attr == "setter" for d in n.decorator_list)]
    if len(setters) != 1 or [D(x) for x in setters[0].body if not is_doc(x)] != \
            [D(ast.parse("self._name = value").body[0])]:
        bad(sc, "StudyStep.name setter is not `self._name = value`")
    for prop in ("name", "real_name"):
        fns = [n for n in sc.body if isinstance(n, ast.FunctionDef) and n.name == prop and
               any(isinstance(d, ast.Name) and d.id == "property" for d in n.decorator_list)]
        if len(fns) != 1:
            bad(sc, "property StudyStep.%s not found" % prop)
        defs.append(path_function(
            tr, fns[0], "StudyStep.%s" % prop, "studystep_%s_gen" % prop,
            [("self_nickname", "optstr"), ("self__name", "str")], "str", fns[0].body, None,
            inputs={"self.nickname": ("self_nickname", "optstr"), "self._name": ("self__name", "str")}))
    return defs


def gen_record(tr, repo):
    rec = find_class(parse(repo, EXECG), "_StepRecord")
    defs = []
    fns = [n for n in rec.body if isinstance(n, ast.FunctionDef) and n.name == "name" and
           any(isinstance(d, ast.Name) and d.id == "property" for d in n.decorator_list)]
    if len(fns) != 1:
        bad(rec, "property _StepRecord.name not found")
    names = {"self.step.name": ("self_step_name", "str"), "self.step.real_name": ("self_step_real_name", "str")}
    nparams = [("self_step_name", "str"), ("self_step_real_name", "str")]
    defs.append(path_function(tr, fns[0], "_StepRecord.name", "steprecord_name_gen", nparams, "str",
                              fns[0].body, None, inputs=names))
    init = find_fn(rec, "__init__")
    if not any(isinstance(a, ast.Assign) and len(a.targets) == 1 and D(a.targets[0]) == P("self.workspace") and
               D(a.value) == P('Variable("WORKSPACE", workspace)') for a in ast.walk(init)):
        bad(init, "_StepRecord.__init__: self.workspace is not Variable('WORKSPACE', workspace)")
    inputs = dict(names)
    inputs.update({"self.name": ("self_name", "str"), "self.workspace.value": ("self_workspace_value", "str")})
    params = [("self_name", "str")] + nparams + [("self_workspace_value", "str")]
    # setup_workspace: create_parentdir(<dir>)
    sw = find_fn(rec, "setup_workspace")
    calls = [st for st in sw.body if not is_doc(st) and not is_logging(st)]
    if len(calls) != 1 or not (isinstance(calls[0], ast.Expr) and isinstance(calls[0].value, ast.Call) and
                               chain(calls[0].value.func) == "create_parentdir" and len(calls[0].value.args) == 1):
        bad(sw, "_StepRecord.setup_workspace is not one create_parentdir(<dir>) call")
    ret = ast.copy_location(ast.Return(value=calls[0].value.args[0]), calls[0])
    defs.append(path_function(tr, sw, "_StepRecord.setup_workspace: the directory that is created",
                              "steprecord_setup_workspace_gen", params, "str", [ret], None, inputs=inputs))
    # generate_script: the directory handed to adapter.write_script
    gs = find_fn(rec, "generate_script")
    ps = [n for n, _d in py_params(gs)]
    if ps != ["adapter", "tmp_dir"]:
        bad(gs, "_StepRecord.generate_script is not (self, adapter, tmp_dir='')")
    ws = [n for n in ast.walk(gs) if isinstance(n, ast.Call) and chain(n.func) == "adapter.write_script"]
    if len(ws) != 1 or len(ws[0].args) != 2 or D(ws[0].args[1]) != P("self.step") or ws[0].keywords:
        bad(gs, "_StepRecord.generate_script: not exactly one adapter.write_script(<dir>, self.step)")
    dirvar = ws[0].args[0]
    tracked = {n.id for n in ast.walk(dirvar) if isinstance(n, ast.Name)} - {"self", "tmp_dir"}
    body = slice_body(gs.body, tracked, inputs=("tmp_dir",)) + [ast.copy_location(ast.Return(value=dirvar), ws[0])]
    defs.append(path_function(
        tr, gs, "_StepRecord.generate_script: the directory handed to adapter.write_script",
        "steprecord_script_dir_gen", [("h", "digest")] + params + [("tmp_dir", "str")], "str", body, None,
        inputs=inputs))
    # _execute: the cwd handed to submit
    ex = find_fn(rec, "_execute")
    subs = [n for n in ast.walk(ex) if isinstance(n, ast.Call) and isinstance(n.func, ast.Attribute) and
            n.func.attr == "submit"]
    if not subs or not all(len(c.args) == 3 and not c.keywords and D(c.args[0]) == P("self.step") and
                           D(c.args[1]) == P("script") for c in subs) or len({D(c.args[2]) for c in subs}) != 1:
        bad(ex, "_StepRecord._execute: submit is not called as (self.step, script, <one cwd expression>)")
    ret = ast.copy_location(ast.Return(value=subs[0].args[2]), subs[0])
    defs.append(path_function(tr, ex, "_StepRecord._execute: the cwd handed to <adapter>.submit",
                              "steprecord_submit_cwd_gen", params, "str", [ret], None, inputs=inputs))
    return defs


def gen_adapter(tr, repo, aid, rel, cname):
    cls = find_class(parse(repo, rel), cname)
    init = find_fn(cls, "__init__")
    exts = [a for a in ast.walk(init) if isinstance(a, ast.Assign) and len(a.targets) == 1 and
            chain(a.targets[0]) == "self._extension"]
    inputs = {}
    defs = []
    if exts:
        if len(exts) != 1 or const_str(exts[0].value) is None:
            bad(init, "%s.__init__: self._extension is not assigned once, a literal" % cname)
        defs.append(["(* %s.__init__: self._extension *)" % cname,
                     "Definition %s_extension_gen : str := %s" % (aid, g_str(exts[0].value.value))])
        inputs["self._extension"] = ("%s_extension_gen" % aid, "str")
    ws = find_fn(cls, "_write_script")
    ps = [n for n, _d in py_params(ws)]
    if len(ps) != 2:
        bad(ws, "%s._write_script is not (self, ws_path, step)" % cname)
    p_ws, p_step = ps
    rets = [n for n in ast.walk(ws) if isinstance(n, ast.Return)]
    if len(rets) != 1 or not (isinstance(rets[0].value, ast.Tuple) and len(rets[0].value.elts) == 3) or \
            ws.body[-1] is not rets[0]:
        bad(ws, "%s._write_script does not end in one `return <scheduled>, <script path>, <restart path>`" % cname)
    e_script, e_restart = rets[0].value.elts[1], rets[0].value.elts[2]
    if not (isinstance(e_script, ast.Name) and isinstance(e_restart, ast.Name)):
        bad(rets[0], "%s._write_script does not return two path variables" % cname)
    inputs.update({"%s.name" % p_step: ("step_name", "str"), "%s.real_name" % p_step: ("step_real_name", "str")})
    body = slice_body(ws.body[:-1], {e_script.id, e_restart.id}, inputs=(p_ws, "restart", "cmd", "to_be_scheduled"))
    # every file the method opens is one of the two returned paths
    opens = [n for n in ast.walk(ws) if isinstance(n, ast.Call) and isinstance(n.func, ast.Name) and n.func.id == "open"]
    if not opens or any(not o.args or D(o.args[0]) not in (P(e_script.id), P(e_restart.id)) for o in opens):
        bad(ws, "%s._write_script opens something other than the two returned paths" % cname)
    defs.append(path_function(
        tr, ws, "%s._write_script: the script path and the restart script path ([restart] is the restart command)"
        % cname, "%s_write_script_paths_gen" % aid,
        [(p_ws, "str"), ("step_name", "str"), ("step_real_name", "str"), ("restart", "str")],
        ("tuple", ["str", "optstr"]), body, names_result(tr, [e_script.id, e_restart.id]), inputs=inputs,
        optvars=(e_restart.id,)))
    if aid == "local":
        sub = find_fn(cls, "submit")
        ps = [n for n, _d in py_params(sub)]
        if ps[:3] != ["step", "path", "cwd"]:
            bad(sub, "LocalScriptAdapter.submit does not start (self, step, path, cwd)")
        opens = [n for n in ast.walk(sub) if isinstance(n, ast.Call) and isinstance(n.func, ast.Name) and
                 n.func.id == "open" and n.args]
        opens.sort(key=lambda n: (n.lineno, n.col_offset))
        if len(opens) != 2 or not all(isinstance(o.args[0], ast.Name) for o in opens):
            bad(sub, "LocalScriptAdapter.submit: expected two open(<path variable>, ..) calls")
        names = [o.args[0].id for o in opens]
        pids = [a for a in ast.walk(sub) if isinstance(a, ast.Assign) and len(a.targets) == 1 and
                D(a.targets[0]) == P("pid")]
        if len(pids) != 1 or D(pids[0].value) != P("p.pid"):
            bad(sub, "LocalScriptAdapter.submit: `pid = p.pid` was not found")
        starts = [n for n in ast.walk(sub) if isinstance(n, ast.Call) and isinstance(n.func, ast.Name) and
                  n.func.id == "start_process"]
        if len(starts) != 1 or not any(k.arg == "cwd" and D(k.value) == P("cwd") for k in starts[0].keywords):
            bad(sub, "LocalScriptAdapter.submit: the process is not started with cwd=cwd")
        body = slice_body(sub.body, set(names), inputs=("pid", "path", "cwd", "p", "output", "err", "retcode"))
        defs.append(path_function(
            tr, sub, "LocalScriptAdapter.submit: the files the captured output goes to ([pid] is str(p.pid))",
            "local_submit_paths_gen",
            [("step_name", "str"), ("step_real_name", "str"), ("path", "str"), ("cwd", "str"), ("pid", "val")],
            ("tuple", ["str", "str"]), body, names_result(tr, names),
            inputs={"step.name": ("step_name", "str"), "step.real_name": ("step_real_name", "str")}))
    return defs


HEADER = """(** maestrowf's path construction, statement by statement.
    GENERATED by translate/tcode_paths.py from /repo's current source
    (utils.make_safe_path; the workspace statements of Study._stage; StudyStep.name /
    real_name; _StepRecord.name, setup_workspace, generate_script, _execute; the path
    statements of the four adapters' _write_script and of LocalScriptAdapter.submit)
    as compositions of the combinators of Expand/SubstOps.v and Expand/PathOps.v;
    Expand/PathGenProofs.v proves every function below equal to the hand-written
    model of Expand/SafePath.v that the theorems of Props/C10.v are about, so an edit
    of the source that changes how a path is built breaks a proof obligation.
    Do not edit by hand. *)
From Coq Require Import List NArith Bool Arith.
From MWF Require Import Base.Str Expand.PyStr Expand.SubstOps Gen.SafePathData Expand.SafePath Expand.PathOps.
Import ListNotations.
"""


def generate(repo):
    tr = PathTr()
    defs = [gen_make_safe_path(tr, repo)]
    defs += gen_stage(tr, repo)
    defs += gen_record(tr, repo)
    for aid, rel, cname in ADAPTERS:
        defs += gen_adapter(tr, repo, aid, rel, cname)
    text = HEADER
    for d in defs:
        d = list(d)
        d[-1] += "."
        text += "\n" + "\n".join(d) + "\n"
    return {OUT: text}


if __name__ == "__main__":
    import sys
    sys.stdout.write(generate(sys.argv[1] if len(sys.argv) > 1 else "/repo")[OUT])

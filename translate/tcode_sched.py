"""T-code for C16 / C20: regenerate the Gallina text of the QUERY PATH of the
scheduler adapters as Sched/ParseGen.v:

  maestrowf/interfaces/script/slurmscriptadapter.py
      SlurmScriptAdapter._state, _check_jobs_squeue, _check_jobs_sacct, check_jobs
  maestrowf/interfaces/script/lsfscriptadapter.py
      LSFScriptAdapter._state, check_jobs

A fail-closed statement-level translator over the Python `ast` (the modules
are parsed, never imported).  Every statement / expression template maps to one
application of a hand-written combinator of Sched/ParseOps.v:

  process          cmd = "<word> ..."; p = start_process(cmd) | Popen(cmd, ..);
                   out, err = p.communicate(); rc = p.wait(); out.decode("utf-8")
                   -> the text / exit code are PARAMETERS of the generated function
  strings          text.split("<c>"), re.split(r"\\s+", text), x.strip(),
                   [x.strip() for x in ..], l[n:], l[i] (IndexError -> get_item),
                   a == b, "lit" in text, x in ("a", "b"), len(l) < n, not l,
                   re.search(self.NOJOB_REGEX, text) for the regex ^No\\s
  dictionary       {} , d[k] = None | State.X | self._state(..), k in d,
                   any([v is None for _, v in d.items()]),
                   [k for k, v in d.items() if v is None]
  codes            l = [], l.append(code), any/all([c == JobStatusCode.X for c in l]),
                   rc == n (also <, >, <=, >=, !=), return JobStatusCode.X, d
  control          if / elif / else (code after a non-terminating `if` is copied
                   into both branches; an `if` that only logs / assigns names
                   nobody reads is dropped), for x in <list> -> for_each (the
                   dictionaries / lists mutated in the body are the loop state),
                   continue, `while l[0] == "": l = l[1:]` -> while_head_empty_drop,
                   a, b = self._check_jobs_*(ids, d) -> call

Python variable names, index constants, literals, the order of guards and of
branches are kept, so an index slip, `in`/prefix/partition on an id, a dropped
strip, a dropped or reordered guard, an unconditional fallback or a changed
code-combination CHANGES the generated text; Sched/ParseGenProofs.v proves the
generated functions equal to Sched/Parse.v's, so such a change breaks a proof
obligation.  Logging is dropped (the subscripts it evaluates are kept: they
can raise IndexError).  Anything outside the templates raises NotTranslatable.
"""
import ast
import os
import re

from translate.regen import NotTranslatable  # noqa

SLURM = "maestrowf/interfaces/script/slurmscriptadapter.py"
LSF = "maestrowf/interfaces/script/lsfscriptadapter.py"
OUT = "Sched/ParseGen.v"

_CTX = re.compile(r", (?:Load|Store|Del)\(\)")

RESERVED = set("""s e fuel at as end fun let match with return fix cofix forall exists struct where using by in if then
else Type Prop Set SProp mod str dict status result get nl bar join length nat list option bool true false Some None
S O Z N Next Fail Ret Exc call State JobStatusCode""".split())

STATES = ("INITIALIZED PENDING WAITING RUNNING FINISHING FINISHED QUEUED FAILED INCOMPLETE HWFAILURE TIMEDOUT "
          "UNKNOWN CANCELLED NOTFOUND DRYRUN").split()
CODES = ("OK", "NOJOBS", "ERROR")
LOGGERS = ("logger", "logging", "LOGGER")


class Tr:
    """translation of one source file (for messages)"""
    src = "?"


def bad(node, why):
    raise NotTranslatable("%s: line %s: %s" % (Tr.src, getattr(node, "lineno", "?"), why))


def D(node):
    return _CTX.sub("", ast.dump(node, annotate_fields=False))


def G(name):
    return name + "_" if name in RESERVED or name.endswith("_gen") or name.startswith("it_") else name


def src_of(node):
    return ast.unparse(node).split("\n")[0]


def g_str(x):
    if all(32 <= ord(c) < 127 and c != '"' for c in x):
        return '(s "%s")' % x
    return "[" + "; ".join("%d%%N" % ord(c) for c in x) + "]"


def atom(t):
    if " " not in t:
        return t
    if t[0] == "(" and t[-1] == ")":
        depth = 0
        for i, ch in enumerate(t):
            depth += ch == "("
            depth -= ch == ")"
            if depth == 0 and i < len(t) - 1:
                break
        else:
            return t
    if t[0] == "[" and t[-1] == "]" and t.count("[") == 1:
        return t
    return "(%s)" % t


def tup(names):
    return G(names[0]) if len(names) == 1 else "(%s)" % ", ".join(G(n) for n in names)


def pat(names):
    return G(names[0]) if len(names) == 1 else "'(%s)" % ", ".join(G(n) for n in names)


def close(lines):
    lines = list(lines)
    lines[-1] += ")"
    return lines


def is_log_call(v):
    if isinstance(v, ast.Call) and isinstance(v.func, ast.Attribute) and isinstance(v.func.value, ast.Name):
        return v.func.value.id in LOGGERS and \
            v.func.attr in ("debug", "info", "warning", "error", "critical", "exception")
    return False


def is_logging(st):
    if not isinstance(st, ast.Expr):
        return False
    v = st.value
    if isinstance(v, ast.Tuple) and v.elts:          # `LOGGER.warning(..),`
        return all(is_log_call(x) for x in v.elts)
    return is_log_call(v)


def is_doc(st):
    return isinstance(st, ast.Expr) and isinstance(st.value, ast.Constant) and isinstance(st.value.value, str)


def self_attr(e, name=None):
    return isinstance(e, ast.Attribute) and isinstance(e.value, ast.Name) and e.value.id == "self" and \
        (name is None or e.attr == name)


def enum_attr(e, enum):
    if isinstance(e, ast.Attribute) and isinstance(e.value, ast.Name) and e.value.id == enum:
        return e.attr
    return None


class Cx:
    def __init__(self, fn, kind, info):
        self.fn = fn
        self.kind = kind              # 'query' | 'check' | 'state'
        self.info = info              # class-level facts
        self.vars = {}                # python name -> kind
        self.setup = set()            # string-setup names (dropped)
        self.loop = None              # loop state names when inside a for body
        self.n = [0]                  # temporaries
        self.proc = {}                # 'p', 'out', 'rc', 'cmd' names of the process template
        self.params = set()

    def fork(self):
        c = Cx(self.fn, self.kind, self.info)
        c.__dict__.update(self.__dict__)
        c.vars = dict(self.vars)
        return c

    def fail(self):
        return "Fail" if self.loop is not None else "None"

    def tmp(self):
        self.n[0] += 1
        return "it_%d" % self.n[0]

    def kind_of(self, e):
        return self.vars.get(e.id) if isinstance(e, ast.Name) else None

    def define(self, node, name, kind):
        if name in self.setup or name in ("self",):
            bad(node, "`%s` is a command-string variable, reused as data" % name)
        if name in self.vars and self.vars[name] != kind:
            bad(node, "variable `%s` changes from %s to %s" % (name, self.vars[name], kind))
        self.vars[name] = kind


# ----------------------------------------------------------------------------
# expressions; `pre` collects the subscripts to evaluate first: (tmp, list, index)
# ----------------------------------------------------------------------------
def hoist(cx, pre, lst, idx):
    for t, l, i in pre:
        if (l, i) == (lst, idx):
            return t
    t = "it_" + re.sub(r"\W+", "_", "%s_%s" % (lst, idx)).strip("_")
    pre.append((t, lst, idx))
    return t


def int_expr(cx, e):
    if isinstance(e, ast.Constant) and type(e.value) is int and 0 <= e.value < 5000:
        return str(e.value)
    if isinstance(e, ast.Name) and cx.vars.get(e.id) == "int":
        return G(e.id)
    if isinstance(e, ast.Call) and isinstance(e.func, ast.Name) and e.func.id == "len" and len(e.args) == 1 and \
            not e.keywords and cx.kind_of(e.args[0]) == "strs":
        return "List.length %s" % G(e.args[0].id)
    bad(e, "`%s` is not a small integer constant / index variable" % src_of(e))


def is_str_expr(cx, e):
    if isinstance(e, ast.Constant) and isinstance(e.value, str):
        return True
    if isinstance(e, ast.Name):
        return cx.vars.get(e.id) == "str"
    if isinstance(e, ast.Subscript) and not isinstance(e.slice, ast.Slice) and isinstance(e.value, ast.Name):
        return cx.kind_of(e.value) == "strs"
    if isinstance(e, ast.Call) and isinstance(e.func, ast.Attribute) and e.func.attr == "strip":
        return is_str_expr(cx, e.func.value)
    if isinstance(e, ast.Subscript) and not isinstance(e.slice, ast.Slice) and isinstance(e.value, ast.Call) and \
            isinstance(e.value.func, ast.Attribute) and e.value.func.attr in ("split", "partition"):
        return is_str_expr(cx, e.value.func.value)
    return False


def str_expr(cx, e, pre):
    if isinstance(e, ast.Constant) and isinstance(e.value, str):
        return g_str(e.value)
    if isinstance(e, ast.Name) and cx.vars.get(e.id) == "str":
        return G(e.id)
    if isinstance(e, ast.Subscript) and not isinstance(e.slice, ast.Slice) and cx.kind_of(e.value) == "strs":
        return hoist(cx, pre, G(e.value.id), int_expr(cx, e.slice))
    if isinstance(e, ast.Call) and isinstance(e.func, ast.Attribute) and e.func.attr == "strip" and \
            not e.args and not e.keywords:
        return "str_strip %s" % atom(str_expr(cx, e.func.value, pre))
    # text.split(c)[i] (IndexError possible), text.partition(c)[0]
    if isinstance(e, ast.Subscript) and not isinstance(e.slice, ast.Slice) and isinstance(e.value, ast.Call) and \
            isinstance(e.value.func, ast.Attribute) and not e.value.keywords and len(e.value.args) == 1:
        f = e.value.func
        if f.attr == "split" and is_str_expr(cx, f.value):
            lst = "(str_split %s %s)" % (sep_char(e.value.args[0]), atom(str_expr(cx, f.value, pre)))
            return hoist(cx, pre, lst, int_expr(cx, e.slice))
        if f.attr == "partition" and is_str_expr(cx, f.value) and D(e.slice) == D(ast.Constant(0)):
            return "str_partition_head %s %s" % (sep_char(e.value.args[0]), atom(str_expr(cx, f.value, pre)))
    bad(e, "`%s` is not a string expression of the translated subset" % src_of(e))


def sep_char(e):
    if isinstance(e, ast.Constant) and isinstance(e.value, str) and len(e.value) == 1:
        return "%d%%N" % ord(e.value)
    bad(e, "split separator `%s` is not a one-character literal" % src_of(e))


def dict_items_comp(cx, e):
    """[ELT for K, V in d.items() (if COND)] -> (elt, k, v, d, ifs) or None"""
    if isinstance(e, (ast.ListComp, ast.GeneratorExp)) and len(e.generators) == 1:
        g = e.generators[0]
        if not g.is_async and isinstance(g.target, ast.Tuple) and len(g.target.elts) == 2 and \
                all(isinstance(x, ast.Name) for x in g.target.elts) and isinstance(g.iter, ast.Call) and \
                isinstance(g.iter.func, ast.Attribute) and g.iter.func.attr == "items" and not g.iter.args and \
                cx.kind_of(g.iter.func.value) == "dict":
            return e.elt, g.target.elts[0].id, g.target.elts[1].id, G(g.iter.func.value.id), g.ifs
    return None


def is_none_test(e, v):
    return isinstance(e, ast.Compare) and len(e.ops) == 1 and isinstance(e.ops[0], ast.Is) and \
        isinstance(e.left, ast.Name) and e.left.id == v and isinstance(e.comparators[0], ast.Constant) and \
        e.comparators[0].value is None


def strs_expr(cx, e, pre):
    if isinstance(e, ast.Name) and cx.vars.get(e.id) == "strs":
        return G(e.id)
    if isinstance(e, ast.Subscript) and isinstance(e.slice, ast.Slice):
        sl = e.slice
        if sl.upper is None and sl.step is None and sl.lower is not None:
            return "list_from %s %s" % (atom(int_expr(cx, sl.lower)), atom(strs_expr(cx, e.value, pre)))
        bad(e, "only slices of the form l[n:] are translated")
    if isinstance(e, ast.Call) and not e.keywords and isinstance(e.func, ast.Attribute):
        f = e.func
        if f.attr == "split" and isinstance(f.value, ast.Name) and f.value.id == "re":
            if len(e.args) == 2 and isinstance(e.args[0], ast.Constant) and e.args[0].value == r"\s+":
                return "re_split_ws %s" % atom(str_expr(cx, e.args[1], pre))
            bad(e, "re.split is only translated for the pattern \\s+")
        if f.attr == "split" and len(e.args) == 1 and is_str_expr(cx, f.value):
            return "str_split %s %s" % (sep_char(e.args[0]), atom(str_expr(cx, f.value, pre)))
    if isinstance(e, ast.ListComp) and len(e.generators) == 1:
        g = e.generators[0]
        if not g.is_async and not g.ifs and isinstance(g.target, ast.Name) and \
                D(e.elt) == D(ast.parse("%s.strip()" % g.target.id, mode="eval").body):
            return "list_map str_strip %s" % atom(strs_expr(cx, g.iter, pre))
        c = dict_items_comp(cx, e)
        if c and isinstance(c[0], ast.Name) and c[0].id == c[1] and len(c[4]) == 1 and is_none_test(c[4][0], c[2]):
            return "dict_none_keys %s" % c[3]
    bad(e, "`%s` is not a list-of-strings expression of the translated subset" % src_of(e))


def is_strs_expr(cx, e):
    try:
        strs_expr(cx.fork(), e, [])
        return True
    except NotTranslatable:
        return False


def state_expr(cx, e, pre):
    a = enum_attr(e, "State")
    if a:
        if a not in STATES:
            bad(e, "unknown State member %s" % a)
        return a
    if isinstance(e, ast.Name) and cx.vars.get(e.id) == "state":
        return G(e.id)
    if isinstance(e, ast.Call) and self_attr(e.func, "_state") and len(e.args) == 1 and not e.keywords:
        if not cx.info.get("state_gen"):
            bad(e, "self._state is not available here")
        return "%s %s" % (cx.info["state_gen"], atom(str_expr(cx, e.args[0], pre)))
    return None


def code_expr(cx, e):
    a = enum_attr(e, "JobStatusCode")
    if a:
        if a not in CODES:
            bad(e, "unknown JobStatusCode member %s" % a)
        return "JS_" + a
    if isinstance(e, ast.Name) and cx.vars.get(e.id) == "code":
        return G(e.id)
    bad(e, "`%s` is not a JobStatusCode" % src_of(e))


def dict_expr(cx, e):
    if isinstance(e, ast.Name) and cx.vars.get(e.id) == "dict":
        return G(e.id)
    if isinstance(e, ast.Dict) and not e.keys:
        return "dict_empty"
    bad(e, "`%s` is not a status dictionary" % src_of(e))


def quantifier(cx, e):
    """any([..]) / all([..]) templates"""
    if not (isinstance(e, ast.Call) and isinstance(e.func, ast.Name) and e.func.id in ("any", "all") and
            len(e.args) == 1 and not e.keywords):
        return None
    q, a = e.func.id, e.args[0]
    c = dict_items_comp(cx, a)
    if c and not c[4] and is_none_test(c[0], c[2]) and q == "any":
        return "dict_any_none %s" % c[3]
    if isinstance(a, (ast.ListComp, ast.GeneratorExp)) and len(a.generators) == 1:
        g = a.generators[0]
        if not g.is_async and not g.ifs and isinstance(g.target, ast.Name) and cx.kind_of(g.iter) == "codes" and \
                isinstance(a.elt, ast.Compare) and len(a.elt.ops) == 1 and isinstance(a.elt.ops[0], ast.Eq) and \
                isinstance(a.elt.left, ast.Name) and a.elt.left.id == g.target.id:
            v = G(g.target.id)
            return "list_%s (fun %s => code_eqb %s %s) %s" % (q, v, v, code_expr(cx, a.elt.comparators[0]),
                                                               G(g.iter.id))
    bad(e, "unknown any/all form `%s`" % src_of(e))


def re_search(cx, e, pre):
    """re.search(self.<ATTR>, text) for a class attribute compiled from ^No\\s"""
    if isinstance(e, ast.Call) and isinstance(e.func, ast.Attribute) and e.func.attr == "search" and \
            isinstance(e.func.value, ast.Name) and e.func.value.id == "re" and len(e.args) == 2 and not e.keywords:
        a = e.args[0]
        rx = None
        if self_attr(a):
            rx = cx.info.get("regex", {}).get(a.attr)
        elif isinstance(a, ast.Constant) and isinstance(a.value, str):
            rx = a.value
        if rx != r"^No\s":
            bad(e, "re.search is only translated for the pattern ^No\\s (found %r)" % (rx,))
        return "re_search_No_ws %s" % atom(str_expr(cx, e.args[1], pre))
    return None


CMP_Z = {ast.Eq: "Z.eqb %s %s", ast.NotEq: "negb (Z.eqb %s %s)", ast.Lt: "Z.ltb %s %s", ast.LtE: "Z.leb %s %s",
         ast.Gt: "Z.ltb %s %s", ast.GtE: "Z.leb %s %s"}
CMP_N = {ast.Eq: "Nat.eqb %s %s", ast.NotEq: "negb (Nat.eqb %s %s)", ast.Lt: "Nat.ltb %s %s", ast.LtE: "Nat.leb %s %s",
         ast.Gt: "Nat.ltb %s %s", ast.GtE: "Nat.leb %s %s"}


def z_const(e):
    if isinstance(e, ast.UnaryOp) and isinstance(e.op, ast.USub) and isinstance(e.operand, ast.Constant) and \
            type(e.operand.value) is int:
        return "(-%d)%%Z" % e.operand.value
    if isinstance(e, ast.Constant) and type(e.value) is int:
        return "%d%%Z" % e.value
    return None


def cond(cx, e, pre):
    if isinstance(e, ast.BoolOp):
        parts = []
        for i, v in enumerate(e.values):
            n = len(pre)
            t = cond(cx, v, pre)
            if i > 0 and len(pre) != n:
                bad(e, "a subscript behind a short-circuit operator is not translated: " + src_of(e))
            parts.append(atom(t) if isinstance(v, ast.BoolOp) else t)
        return (" && " if isinstance(e.op, ast.And) else " || ").join(parts)
    if isinstance(e, ast.UnaryOp) and isinstance(e.op, ast.Not):
        if cx.kind_of(e.operand) == "strs":
            return "list_is_empty %s" % G(e.operand.id)
        return "negb %s" % atom(cond(cx, e.operand, pre))
    if isinstance(e, ast.Name) and cx.vars.get(e.id) == "bool":
        return G(e.id)
    q = quantifier(cx, e)
    if q:
        return q
    r = re_search(cx, e, pre)
    if r:
        return r
    if isinstance(e, ast.Compare) and len(e.ops) == 1:
        l, op, r = e.left, e.ops[0], e.comparators[0]
        if type(op) in CMP_Z and cx.kind_of(l) == "rc" and z_const(r):
            a, b = G(l.id), z_const(r)
            if isinstance(op, (ast.Gt, ast.GtE)):
                a, b = b, a
            return CMP_Z[type(op)] % (a, b)
        if isinstance(op, (ast.Eq, ast.NotEq)) and is_str_expr(cx, l) and is_str_expr(cx, r):
            t = "str_eqb %s %s" % (atom(str_expr(cx, l, pre)), atom(str_expr(cx, r, pre)))
            return t if isinstance(op, ast.Eq) else "negb (%s)" % t
        if isinstance(op, (ast.Eq, ast.NotEq)) and (enum_attr(l, "JobStatusCode") or cx.kind_of(l) == "code"):
            t = "code_eqb %s %s" % (code_expr(cx, l), code_expr(cx, r))
            return t if isinstance(op, ast.Eq) else "negb (%s)" % t
        if type(op) in CMP_N and not isinstance(l, ast.Constant) or \
                (type(op) in CMP_N and isinstance(l, ast.Constant) and type(l.value) is int):
            try:
                a, b = int_expr(cx, l), int_expr(cx, r)
            except NotTranslatable:
                a = None
            if a is not None:
                a, b = atom(a), atom(b)
                if isinstance(op, (ast.Gt, ast.GtE)):
                    a, b = b, a
                return CMP_N[type(op)] % (a, b)
        if isinstance(op, (ast.In, ast.NotIn)) and is_str_expr(cx, l):
            if cx.kind_of(r) == "dict":
                t = "dict_has %s %s" % (atom(str_expr(cx, l, pre)), G(r.id))
            elif isinstance(r, (ast.Tuple, ast.List)) and r.elts and \
                    all(isinstance(x, ast.Constant) and isinstance(x.value, str) for x in r.elts):
                t = "str_in %s [%s]" % (atom(str_expr(cx, l, pre)), "; ".join(g_str(x.value) for x in r.elts))
            elif is_str_expr(cx, r):
                needle = str_expr(cx, l, pre)
                t = "str_contains %s %s" % (atom(needle), atom(str_expr(cx, r, pre)))
            else:
                bad(e, "unknown container in `%s`" % src_of(e))
            return t if isinstance(op, ast.In) else "negb (%s)" % t
    bad(e, "unknown condition `%s`" % src_of(e))


# ----------------------------------------------------------------------------
# statements
# ----------------------------------------------------------------------------
def names_loaded(nodes):
    """names read by the statements (names bound by a comprehension are local to it)"""
    out = set()

    def walk(n, bound):
        if isinstance(n, (ast.ListComp, ast.SetComp, ast.GeneratorExp, ast.DictComp)):
            b = set(bound)
            for g in n.generators:
                walk(g.iter, b)
                b |= {x.id for x in ast.walk(g.target) if isinstance(x, ast.Name)}
                for c in g.ifs:
                    walk(c, b)
            for part in ([n.key, n.value] if isinstance(n, ast.DictComp) else [n.elt]):
                walk(part, b)
            return
        if isinstance(n, ast.Name) and isinstance(n.ctx, ast.Load) and n.id not in bound:
            out.add(n.id)
        for c in ast.iter_child_nodes(n):
            walk(c, bound)

    for n in nodes:
        walk(n, set())
    return out


def stringish(e, ok_names):
    """a value that only feeds the command line / log messages"""
    if any(isinstance(x, (ast.Subscript, ast.Lambda, ast.Await, ast.Yield)) for x in ast.walk(e)):
        return False
    top = isinstance(e, (ast.Constant, ast.JoinedStr)) and \
        (not isinstance(e, ast.Constant) or isinstance(e.value, str))
    top = top or (isinstance(e, ast.List) and e.elts and
                  all(isinstance(x, ast.Constant) and isinstance(x.value, str) for x in e.elts))
    top = top or (isinstance(e, ast.Call) and isinstance(e.func, ast.Attribute) and e.func.attr in ("format", "join"))
    if not top:
        return False
    return all(x.id in ok_names for x in ast.walk(e) if isinstance(x, ast.Name))


def is_proc_start(v):
    return isinstance(v, ast.Call) and isinstance(v.func, ast.Name) and v.func.id in ("start_process", "Popen") and \
        v.args and isinstance(v.args[0], ast.Name)


def find_setup(fn, params):
    """names assigned only string-ish values and read only by other such values,
    by logging and by the process start"""
    assigns = {}
    for n in ast.walk(fn):
        if isinstance(n, ast.Assign) and len(n.targets) == 1 and isinstance(n.targets[0], ast.Name):
            assigns.setdefault(n.targets[0].id, []).append(n)
    cand = set(assigns)
    changed = True
    while changed:
        changed = False
        ok = cand | set(params)
        for name in sorted(cand):
            if not all(stringish(a.value, ok) for a in assigns[name]):
                cand.discard(name)
                changed = True
        # every read of a candidate must be in an allowed place
        allowed = set()
        for n in ast.walk(fn):
            if isinstance(n, ast.Assign) and len(n.targets) == 1 and isinstance(n.targets[0], ast.Name) and \
                    n.targets[0].id in cand:
                allowed |= {id(x) for x in ast.walk(n.value)}
            if isinstance(n, ast.Expr) and is_logging(n):
                allowed |= {id(x) for x in ast.walk(n)}
            if is_proc_start(n):
                allowed.add(id(n.args[0]))
        for n in ast.walk(fn):
            if isinstance(n, ast.Name) and isinstance(n.ctx, ast.Load) and n.id in cand and id(n) not in allowed:
                cand.discard(n.id)
                changed = True
    return cand


def cmd_word(fn, setup, name, seen=()):
    """first word of the command line held by the setup variable `name`"""
    if name in seen:
        return None
    for n in ast.walk(fn):
        if isinstance(n, ast.Assign) and len(n.targets) == 1 and isinstance(n.targets[0], ast.Name) and \
                n.targets[0].id == name:
            v = n.value
            if isinstance(v, ast.Call) and isinstance(v.func, ast.Attribute) and v.func.attr == "format":
                v = v.func.value
                if isinstance(v, ast.Name):
                    return cmd_word(fn, setup, v.id, seen + (name,))
            if isinstance(v, ast.JoinedStr) and v.values and isinstance(v.values[0], ast.Constant):
                v = v.values[0]
            if isinstance(v, ast.Constant) and isinstance(v.value, str) and v.value.split():
                return v.value.split()[0]
    return None


def log_hoists(cx, st, pre):
    for x in ast.walk(st):
        if isinstance(x, ast.Subscript):
            if not isinstance(x.slice, ast.Slice) and cx.kind_of(x.value) == "strs":
                hoist(cx, pre, G(x.value.id), int_expr(cx, x.slice))
            else:
                bad(st, "a log call evaluates `%s`, which is not translated" % src_of(x))


def effective(cx, stmts):
    out = []
    for st in stmts:
        if is_doc(st) or isinstance(st, ast.Pass):
            continue
        if is_logging(st) and not any(isinstance(x, ast.Subscript) for x in ast.walk(st)):
            continue
        if isinstance(st, ast.Assign) and len(st.targets) == 1 and isinstance(st.targets[0], ast.Name) and \
                st.targets[0].id in cx.setup:
            continue
        out.append(st)
    return out


def terminates(cx, stmts):
    stmts = effective(cx, stmts)
    if not stmts:
        return False
    st = stmts[-1]
    if isinstance(st, (ast.Return, ast.Continue, ast.Raise)):
        return True
    if isinstance(st, ast.If):
        return terminates(cx, st.body) and terminates(cx, st.orelse)
    return False


def effect_free_if(cx, st, rest):
    """an `if` that only logs and assigns names nobody reads afterwards"""
    if not isinstance(st, ast.If) or st.orelse:
        return False
    try:
        pre = []
        cond(cx.fork(), st.test, pre)
        if pre:
            return False
    except NotTranslatable:
        return False
    later = names_loaded(rest)
    for b in st.body:
        if is_doc(b) or isinstance(b, ast.Pass):
            continue
        if is_logging(b):
            if any(isinstance(x, ast.Subscript) for x in ast.walk(b)):
                return False
            continue
        if isinstance(b, ast.Assign) and len(b.targets) == 1 and isinstance(b.targets[0], ast.Name) and \
                b.targets[0].id not in later and \
                not any(isinstance(x, (ast.Subscript, ast.Call)) and not _pure_call(cx, x) for x in ast.walk(b.value)):
            continue
        return False
    return True


def _pure_call(cx, x):
    """calls / subscripts that cannot raise or have effects in an ignorable assignment"""
    if isinstance(x, ast.Subscript):
        return False
    f = x.func
    return isinstance(f, ast.Attribute) and f.attr == "items" and cx.kind_of(f.value) == "dict"


def with_pre(cx, pad, pre, lines):
    """emit the IndexError-raising subscripts, then the lines (closing the continuations)"""
    if not pre:
        return lines
    head = [pad + "get_item %s %s %s (fun %s =>" % (l, atom(i), cx.fail(), t) for t, l, i in pre]
    lines = list(lines)
    lines[-1] += ")" * len(pre)
    return head + lines


def mutated(cx, body):
    out = []
    for n in body:
        for x in ast.walk(n):
            v = None
            if isinstance(x, ast.Assign):
                for t in x.targets:
                    if isinstance(t, ast.Subscript) and isinstance(t.value, ast.Name):
                        v = t.value.id
            if isinstance(x, ast.Call) and isinstance(x.func, ast.Attribute) and isinstance(x.func.value, ast.Name) and \
                    x.func.attr in ("append", "update", "pop", "extend", "clear", "remove", "setdefault"):
                v = x.func.value.id
            if v is not None and v in cx.vars and v not in out:
                out.append(v)
    return out


def ret_value(cx, st):
    v = st.value
    if cx.loop is not None:
        bad(st, "return inside a loop is not translated")
    if cx.kind == "state":
        t = state_expr(cx, v, []) if v is not None else None
        if not t or " " in t:
            bad(st, "%s must return a State member" % cx.fn.name)
        return t
    if isinstance(v, ast.Tuple) and len(v.elts) == 2:
        return "Some (%s, %s)" % (code_expr(cx, v.elts[0]), dict_expr(cx, v.elts[1]))
    bad(st, "%s must return (JobStatusCode, status dictionary)" % cx.fn.name)


def fall(cx, node):
    if cx.loop is not None:
        return "Next " + tup(cx.loop)
    bad(node, "%s must return a value on every path" % cx.fn.name)


def block(cx, stmts, ind):
    pad = "  " * ind
    stmts = effective(cx, stmts)
    if not stmts:
        return [pad + fall(cx, cx.fn)]
    st, rest = stmts[0], stmts[1:]

    def go(c=cx, r=rest, i=ind):
        return block(c, r, i)

    if isinstance(st, ast.Return):
        return [pad + ret_value(cx, st)]
    if isinstance(st, ast.Continue):
        if cx.loop is None:
            bad(st, "continue outside a loop")
        return [pad + "Next " + tup(cx.loop)]

    # --- logging that evaluates subscripts --------------------------------------
    if is_logging(st):
        pre = []
        log_hoists(cx, st, pre)
        head = [pad + "get_item %s %s %s (fun _ =>" % (l, atom(i), cx.fail()) for _, l, i in pre]
        tail = go()
        tail[-1] += ")" * len(pre)
        return head + tail

    # --- if ---------------------------------------------------------------------
    if isinstance(st, ast.If):
        if effect_free_if(cx, st, rest):
            return go()
        pre = []
        c = cond(cx, st.test, pre)
        body = list(st.body) + ([] if terminates(cx, st.body) else rest)
        els = list(st.orelse) + ([] if st.orelse and terminates(cx, st.orelse) else rest)
        lines = [pad + "if %s then" % c] + block(cx.fork(), body, ind + 1)
        e_eff = effective(cx.fork(), els)
        if e_eff and isinstance(e_eff[0], ast.If) and len(e_eff) == 1 and not effect_free_if(cx, e_eff[0], []):
            sub = block(cx.fork(), e_eff, ind)
            if sub[0].startswith(pad + "if "):
                return with_pre(cx, pad, pre, lines + [pad + "else " + sub[0].strip()] + sub[1:])
        return with_pre(cx, pad, pre, lines + [pad + "else"] + block(cx.fork(), els, ind + 1))

    # --- for ----------------------------------------------------------------------
    if isinstance(st, ast.For):
        if st.orelse or not isinstance(st.target, ast.Name) or cx.loop is not None:
            bad(st, "unsupported form of for loop")
        x = st.target.id
        if x in cx.vars or x in cx.setup:
            bad(st, "loop variable `%s` shadows another variable" % x)
        pre = []
        it = strs_expr(cx, st.iter, pre)
        if pre:
            bad(st, "the iterated expression evaluates a subscript")
        S = [v for v in mutated(cx, st.body) if cx.vars[v] in ("dict", "codes")]
        if not S or any(cx.vars[v] not in ("dict", "codes") for v in mutated(cx, st.body)):
            bad(st, "the loop must update (only) status dictionaries / code lists")
        for n in st.body:
            for y in ast.walk(n):
                if isinstance(y, ast.Assign):
                    for t in y.targets:
                        if isinstance(t, ast.Name) and (t.id in cx.vars or t.id in names_loaded(rest)):
                            bad(y, "`%s` is assigned in the loop and visible outside it" % t.id)
        b = cx.fork()
        b.vars[x] = "str"
        b.loop = S
        body = block(b, st.body, ind + 1)
        return [pad + "for_each %s (fun %s %s =>" % (atom(it), G(x), " ".join(G(v) for v in S))] + close(body) + \
               [pad + "%s (fun %s =>" % (" ".join(G(v) for v in S), " ".join(G(v) for v in S))] + close(go()) \
            if len(S) == 1 else bad(st, "more than one container is updated in the loop")

    # --- while l[0] == "": l = l[1:] --------------------------------------------------
    if isinstance(st, ast.While):
        wbody = effective(cx, st.body)
        ok = not st.orelse and len(wbody) == 1 and isinstance(st.test, ast.Compare)
        if ok:
            t, b = st.test, wbody[0]
            ok = len(t.ops) == 1 and isinstance(t.ops[0], ast.Eq) and isinstance(t.left, ast.Subscript) and \
                cx.kind_of(t.left.value) == "strs" and D(t.left.slice) == D(ast.Constant(0)) and \
                D(t.comparators[0]) == D(ast.Constant("")) and isinstance(b, ast.Assign) and len(b.targets) == 1 and \
                isinstance(b.targets[0], ast.Name) and b.targets[0].id == t.left.value.id and \
                D(b.value) == D(ast.parse("%s[1:]" % t.left.value.id, mode="eval").body)
        if not ok:
            bad(st, "only `while l[0] == \"\": l = l[1:]` is translated")
        v = G(st.test.left.value.id)
        return [pad + "call (while_head_empty_drop %s) %s (fun %s =>" % (v, cx.fail(), v)] + close(go())

    # --- the process -------------------------------------------------------------------
    if isinstance(st, ast.Assign) and len(st.targets) == 1:
        t, v = st.targets[0], st.value
        if isinstance(t, ast.Name) and is_proc_start(v):
            if cx.kind == "state" or cx.loop is not None or "p" in cx.proc or v.args[0].id not in cx.setup:
                bad(st, "unexpected process start")
            word = cmd_word(cx.fn, cx.setup, v.args[0].id)
            if word != cx.info.get("cmd"):
                bad(st, "%s starts `%s`, expected `%s`" % (cx.fn.name, word, cx.info.get("cmd")))
            cx.proc["p"] = t.id
            return go()
        if isinstance(v, ast.Call) and isinstance(v.func, ast.Attribute) and isinstance(v.func.value, ast.Name) and \
                v.func.value.id == cx.proc.get("p") and not v.args and not v.keywords:
            if v.func.attr == "communicate" and isinstance(t, ast.Tuple) and len(t.elts) == 2 and \
                    all(isinstance(x, ast.Name) for x in t.elts) and "out" not in cx.proc and cx.loop is None:
                cx.proc["out"] = t.elts[0].id
                c2 = cx.fork()
                c2.define(st, t.elts[0].id, "str")
                if t.elts[1].id in names_loaded(rest) - names_loaded([r for r in rest if is_logging(r)]):
                    bad(st, "the error stream is used")
                return block(c2, rest, ind)
            if v.func.attr == "wait" and isinstance(t, ast.Name) and "rc" not in cx.proc and cx.loop is None:
                cx.proc["rc"] = t.id
                c2 = cx.fork()
                c2.define(st, t.id, "rc")
                return block(c2, rest, ind)
            bad(st, "unknown use of the process object: " + src_of(st))
        # out = out.decode("utf-8")
        if isinstance(t, ast.Name) and t.id == cx.proc.get("out") and isinstance(v, ast.Call) and \
                isinstance(v.func, ast.Attribute) and v.func.attr == "decode" and \
                isinstance(v.func.value, ast.Name) and v.func.value.id == t.id and len(v.args) == 1 and \
                isinstance(v.args[0], ast.Constant) and str(v.args[0].value).lower().replace("-", "") == "utf8":
            return [pad + "let %s := decode_utf8 %s in" % (G(t.id), G(t.id))] + go()

        # --- a, b = self._check_jobs_x(ids, d) ------------------------------------------
        if isinstance(t, ast.Tuple) and isinstance(v, ast.Call) and self_attr(v.func) and not v.keywords:
            cal = cx.info.get("callees", {}).get(v.func.attr)
            if not cal or cx.loop is not None or len(t.elts) != 2 or not all(isinstance(x, ast.Name) for x in t.elts) \
                    or len(v.args) != 2:
                bad(st, "call `%s` is not translated" % src_of(st))
            pre = []
            ids = strs_expr(cx, v.args[0], pre)
            d = dict_expr(cx, v.args[1])
            if pre:
                bad(st, "subscript in call arguments")
            cx.info.setdefault("called", []).append(v.func.attr)
            c2 = cx.fork()
            c2.define(st, t.elts[0].id, "code")
            c2.define(st, t.elts[1].id, "dict")
            return [pad + "call (%s %s_output %s_retcode %s %s) %s (fun '(%s, %s) =>" % (
                cal[0], cal[1], cal[1], atom(ids), atom(d), cx.fail(), G(t.elts[0].id), G(t.elts[1].id))] + \
                close(block(c2, rest, ind))

        # --- d[k] = v ------------------------------------------------------------------------
        if isinstance(t, ast.Subscript) and cx.kind_of(t.value) == "dict" and not isinstance(t.slice, ast.Slice):
            pre = []
            k = str_expr(cx, t.slice, pre)
            if isinstance(v, ast.Constant) and v.value is None:
                val = "None"
            else:
                sv = state_expr(cx, v, pre)
                if not sv:
                    bad(st, "`%s` is not None / a State" % src_of(v))
                val = "(Some %s)" % atom(sv)
            dn = G(t.value.id)
            return with_pre(cx, pad, pre, [pad + "let %s := dict_set %s %s %s in" % (dn, atom(k), val, dn)] + go())

        # --- name = value --------------------------------------------------------------------
        if isinstance(t, ast.Name):
            name = t.id
            pre = []
            if isinstance(v, ast.Constant) and type(v.value) is int:
                kind, text = "int", int_expr(cx, v)
            elif isinstance(v, ast.Dict) and not v.keys:
                kind, text = "dict", "dict_empty"
            elif isinstance(v, ast.List) and not v.elts:
                kind, text = "codes", "[]"
            elif re_search(cx.fork(), v, []) if isinstance(v, ast.Call) else None:
                kind, text = "bool", re_search(cx, v, pre)
            elif is_str_expr(cx, v):
                kind, text = "str", str_expr(cx, v, pre)
            elif isinstance(v, ast.Call) and self_attr(v.func, "_state"):
                kind, text = "state", state_expr(cx, v, pre)
            elif is_strs_expr(cx, v):
                kind, text = "strs", strs_expr(cx, v, pre)
            else:
                bad(st, "unknown assignment `%s`" % src_of(st))
            c2 = cx.fork()
            c2.define(st, name, kind)
            return with_pre(cx, pad, pre, [pad + "let %s := %s in" % (G(name), text)] + block(c2, rest, ind))

    # --- l.append(code) ---------------------------------------------------------------------
    if isinstance(st, ast.Expr) and isinstance(st.value, ast.Call) and isinstance(st.value.func, ast.Attribute) and \
            st.value.func.attr == "append" and cx.kind_of(st.value.func.value) == "codes" and \
            len(st.value.args) == 1 and not st.value.keywords:
        ln = G(st.value.func.value.id)
        return [pad + "let %s := list_append %s %s in" % (ln, code_expr(cx, st.value.args[0]), ln)] + go()

    bad(st, "unknown statement `%s`" % src_of(st))


# ----------------------------------------------------------------------------
# frames
# ----------------------------------------------------------------------------
def find_class(tree, name):
    for n in tree.body:
        if isinstance(n, ast.ClassDef) and n.name == name:
            return n
    bad(tree, "class %s not found" % name)


def find_method(cls, name):
    found = [n for n in cls.body if isinstance(n, ast.FunctionDef) and n.name == name]
    if len(found) != 1:
        bad(cls, "method %s.%s not found (or defined twice)" % (cls.name, name))
    return found[0]


def params(fn, names):
    a = fn.args
    if a.vararg or a.kwarg or a.kwonlyargs or getattr(a, "posonlyargs", None) or fn.decorator_list or a.defaults or \
            len(a.args) != len(names) + 1 or a.args[0].arg != "self":
        bad(fn, "signature of %s changed" % fn.name)
    if names and [x.arg for x in a.args[1:]] != list(names) and None not in names:
        bad(fn, "parameters of %s changed: %s" % (fn.name, [x.arg for x in a.args[1:]]))
    return [x.arg for x in a.args[1:]]


def class_regexes(cls):
    out = {}
    for n in cls.body:
        if isinstance(n, ast.Assign) and len(n.targets) == 1 and isinstance(n.targets[0], ast.Name):
            v = n.value
            if isinstance(v, ast.Call) and isinstance(v.func, ast.Attribute) and v.func.attr == "compile" and \
                    isinstance(v.func.value, ast.Name) and v.func.value.id == "re" and len(v.args) == 1 and \
                    not v.keywords and isinstance(v.args[0], ast.Constant) and isinstance(v.args[0].value, str):
                out[n.targets[0].id] = v.args[0].value
    return out


def no_self_state(cls, methods):
    """the translated methods read no instance / class attribute except the listed regexes and methods"""
    for fn in methods:
        for x in ast.walk(fn):
            if self_attr(x) and x.attr not in ("_state", "_check_jobs_squeue", "_check_jobs_sacct", "NOJOB_REGEX"):
                bad(x, "%s.%s uses self.%s, which is outside the translated subset" % (cls.name, fn.name, x.attr))


def gen_state(cls, fn, gen):
    (p,) = params(fn, [None])
    cx = Cx(fn, "state", {})
    cx.setup = set()
    cx.vars[p] = "str"
    return ["(* %s.%s *)" % (cls.name, fn.name),
            "Definition %s (%s : str) : State :=" % (gen, G(p))] + block(cx, fn.body, 1)


def gen_query(cls, fn, gen, cmd, state_gen, regex):
    ps = params(fn, ["joblist", "status"])
    cx = Cx(fn, "query", {"cmd": cmd, "state_gen": state_gen, "regex": regex})
    cx.setup = find_setup(fn, ps)
    cx.vars[ps[0]] = "strs"
    cx.vars[ps[1]] = "dict"
    body = block(cx, fn.body, 1)
    if set(cx.proc) != {"p", "out", "rc"}:
        bad(fn, "%s does not run its command in the expected way" % fn.name)
    return ["(* %s.%s; [%s], [%s]: what the `%s` process printed / its exit code *)" % (
                cls.name, fn.name, cx.proc["out"], cx.proc["rc"], cmd),
            "Definition %s (%s : str) (%s : Z) (%s : list str) (%s : dict) : option (JobStatusCode * dict) :=" % (
                gen, G(cx.proc["out"]), G(cx.proc["rc"]), G(ps[0]), G(ps[1]))] + body


def gen_slurm_check(cls, fn, gen, callees):
    ps = params(fn, ["joblist"])
    info = {"callees": callees, "cmd": None}
    cx = Cx(fn, "check", info)
    cx.setup = find_setup(fn, ps)
    cx.vars[ps[0]] = "strs"
    body = block(cx, fn.body, 1)
    if cx.proc:
        bad(fn, "check_jobs starts a process itself")
    sig = " ".join("(%s_output : str) (%s_retcode : Z)" % (c[1], c[1]) for c in callees.values())
    return ["(* %s.%s; [sq_*] / [sa_*]: what squeue / sacct print and return when started *)" % (cls.name, fn.name),
            "Definition %s %s (%s : list str) : option (JobStatusCode * dict) :=" % (gen, sig, G(ps[0]))] + body


def gen_lsf_check(cls, fn, gen, state_gen, regex):
    ps = params(fn, ["joblist"])
    cx = Cx(fn, "check", {"cmd": "bjobs", "state_gen": state_gen, "regex": regex})
    cx.setup = find_setup(fn, ps)
    cx.vars[ps[0]] = "strs"
    body = block(cx, fn.body, 1)
    if set(cx.proc) != {"p", "out", "rc"}:
        bad(fn, "check_jobs does not run bjobs in the expected way")
    return ["(* %s.%s; [%s], [%s]: what the `bjobs` process printed / its exit code *)" % (
                cls.name, fn.name, cx.proc["out"], cx.proc["rc"]),
            "Definition %s (%s : str) (%s : Z) (%s : list str) : option (JobStatusCode * dict) :=" % (
                gen, G(cx.proc["out"]), G(cx.proc["rc"]), G(ps[0]))] + body


HEADER = """(** The query path of the Slurm and LSF adapters, statement by statement.
    GENERATED by translate/tcode_sched.py from /repo's current source
      maestrowf/interfaces/script/slurmscriptadapter.py  (_state, _check_jobs_squeue, _check_jobs_sacct, check_jobs)
      maestrowf/interfaces/script/lsfscriptadapter.py    (_state, check_jobs)
    as compositions of the combinators of Sched/ParseOps.v; Sched/ParseGenProofs.v
    proves every function below equal to the hand-written model of Sched/Parse.v
    that the theorems of Props/C16.v are about, so an edit of the adapters that
    changes what a method does breaks a proof obligation.  Do not edit by hand. *)
From Coq Require Import List Arith NArith ZArith Bool.
From MWF Require Import Base.Str Gen.SchedTables Sched.Parse Sched.ParseOps.
Import ListNotations.
"""


def parse(repo, rel):
    Tr.src = rel
    try:
        return ast.parse(open(os.path.join(repo, rel)).read())
    except (OSError, SyntaxError, ValueError) as e:
        raise NotTranslatable("%s: cannot parse: %s" % (rel, e))


def generate(repo):
    defs = []
    # ---- Slurm ---------------------------------------------------------------
    tree = parse(repo, SLURM)
    cls = find_class(tree, "SlurmScriptAdapter")
    m = {n: find_method(cls, n) for n in ("_state", "_check_jobs_squeue", "_check_jobs_sacct", "check_jobs")}
    no_self_state(cls, m.values())
    defs.append(gen_state(cls, m["_state"], "slurm_state_gen"))
    defs.append(gen_query(cls, m["_check_jobs_squeue"], "slurm_check_jobs_squeue_gen", "squeue", "slurm_state_gen", {}))
    defs.append(gen_query(cls, m["_check_jobs_sacct"], "slurm_check_jobs_sacct_gen", "sacct", "slurm_state_gen", {}))
    callees = {"_check_jobs_squeue": ("slurm_check_jobs_squeue_gen", "sq"),
               "_check_jobs_sacct": ("slurm_check_jobs_sacct_gen", "sa")}
    defs.append(gen_slurm_check(cls, m["check_jobs"], "slurm_check_jobs_gen", callees))
    # ---- LSF -----------------------------------------------------------------
    tree = parse(repo, LSF)
    cls = find_class(tree, "LSFScriptAdapter")
    m = {n: find_method(cls, n) for n in ("_state", "check_jobs")}
    no_self_state(cls, m.values())
    defs.append(gen_state(cls, m["_state"], "lsf_state_gen"))
    defs.append(gen_lsf_check(cls, m["check_jobs"], "lsf_check_jobs_gen", "lsf_state_gen", class_regexes(cls)))
    text = HEADER
    for d in defs:
        d = list(d)
        d[-1] += "."
        text += "\n" + "\n".join(d) + "\n"
    return {OUT: text}


if __name__ == "__main__":
    import sys
    sys.stdout.write(generate(sys.argv[1] if len(sys.argv) > 1 else "/repo")[OUT])

"""T-data for C15: header templates, launcher flags, script-name templates and
the literal launcher regex texts of the four script adapters.

Parses the *source text* of /repo with `ast` only (never imports it) and emits
coq/theories/Gen/HeaderData.v.  Fail-closed: anything that no longer has the
expected syntactic shape raises NotTranslatable (the committed file then stays
and the correspondence run carries the tie).
"""
import ast
import os
import string

from translate.regen import NotTranslatable

SCHED = "maestrowf/abstracts/interfaces/schedulerscriptadapter.py"
SLURM = "maestrowf/interfaces/script/slurmscriptadapter.py"
LSF = "maestrowf/interfaces/script/lsfscriptadapter.py"
FLUX = "maestrowf/interfaces/script/fluxscriptadapter.py"
FLUXIF = "maestrowf/interfaces/script/_flux/flux0_49_0.py"
LOCAL = "maestrowf/interfaces/script/localscriptadapter.py"
STUDY = "maestrowf/datastructures/core/study.py"


def fail(msg):
    raise NotTranslatable("tdata_headers: " + msg)


# ----------------------------------------------------------------------------
# Gallina printers
# ----------------------------------------------------------------------------
def coq_str(t):
    """python str -> Gallina term of type str (= list N)."""
    if not isinstance(t, str):
        fail("not a string constant: %r" % (t,))
    parts, cur = [], []

    def flush():
        if cur:
            parts.append('s "%s"' % "".join(cur))
            del cur[:]
    prev = ""
    for c in t:
        if prev + c in ("(*", "*)"):
            flush()        # never let a comment delimiter appear in the text
        prev = c
        if 32 <= ord(c) < 127:
            cur.append('""' if c == '"' else c)
        else:
            flush()
            parts.append("[%d%%N]" % ord(c))
    flush()
    if not parts:
        return "[]"
    if len(parts) == 1:
        return "(%s)" % parts[0]
    return "(" + " ++ ".join(parts) + ")"


def coq_template(t):
    """A `str.format` template -> list seg.  Only plain `{name}`, `{}`, `{0}`
    replacement fields (no conversion, no format spec)."""
    segs = []
    auto = 0
    try:
        parsed = list(string.Formatter().parse(t))
    except ValueError as e:
        fail("unparsable format template %r: %s" % (t, e))
    for lit, field, spec, conv in parsed:
        if lit:
            segs.append("Lit %s" % coq_str(lit))
        if field is None:
            continue
        if spec or conv:
            fail("format spec/conversion in template %r" % (t,))
        if field == "":
            field = str(auto)
            auto += 1
        if any(ch in field for ch in ".[]"):
            fail("attribute/index access in template %r" % (t,))
        segs.append("Fld %s" % coq_str(field))
    return "[" + "; ".join(segs) + "]"


def coq_list(items):
    return "[" + ";\n   ".join(items) + "]"


# ----------------------------------------------------------------------------
# ast helpers
# ----------------------------------------------------------------------------
def parse(repo, rel):
    p = os.path.join(repo, rel)
    try:
        return ast.parse(open(p).read(), p)
    except (OSError, SyntaxError) as e:
        fail("cannot parse %s: %s" % (rel, e))


def find_class(mod, name):
    for n in mod.body:
        if isinstance(n, ast.ClassDef) and n.name == name:
            return n
    fail("class %s not found" % name)


def find_func(cls, name):
    for n in cls.body:
        if isinstance(n, ast.FunctionDef) and n.name == name:
            return n
    fail("method %s.%s not found" % (cls.name, name))


def const_str(node, what):
    if isinstance(node, ast.Constant) and isinstance(node.value, str):
        return node.value
    fail("%s is not a string literal" % what)


def self_attr_assigns(fn):
    """{attr: value node} for every top-level-or-nested `self.attr = value`;
    an attribute assigned twice fails closed."""
    res = {}
    for n in ast.walk(fn):
        if isinstance(n, ast.Assign) and len(n.targets) == 1:
            t = n.targets[0]
            if isinstance(t, ast.Attribute) and isinstance(t.value, ast.Name) and t.value.id == "self":
                if t.attr in res:
                    fail("self.%s assigned twice in %s" % (t.attr, fn.name))
                res[t.attr] = n.value
    return res


def str_dict(node, what):
    if not isinstance(node, ast.Dict):
        fail("%s is not a dict display" % what)
    out = []
    for k, v in zip(node.keys, node.values):
        out.append((const_str(k, what + " key"), const_str(v, what + " value")))
    if len(set(k for k, _ in out)) != len(out):
        fail("%s has duplicate keys" % what)
    return out


def str_set(node, what):
    # set([...]) or {...}
    if isinstance(node, ast.Call) and isinstance(node.func, ast.Name) and node.func.id == "set" \
            and len(node.args) == 1 and isinstance(node.args[0], (ast.List, ast.Tuple)):
        elts = node.args[0].elts
    elif isinstance(node, ast.Set):
        elts = node.elts
    else:
        fail("%s is not a set of string literals" % what)
    return [const_str(e, what) for e in elts]


def is_kwargs_call(node, meth):
    """kwargs.<meth>("key"[, default]) -> (key, default-node or None) else None"""
    if isinstance(node, ast.Call) and isinstance(node.func, ast.Attribute) \
            and node.func.attr == meth and isinstance(node.func.value, ast.Name) \
            and node.func.value.id == "kwargs" and 1 <= len(node.args) <= 2 and not node.keywords:
        return const_str(node.args[0], "kwargs key"), (node.args[1] if len(node.args) == 2 else None)
    return None


def batch_params(fn):
    """The unconditional `self.add_batch_parameter("k", kwargs.pop/get("k"[, default]))`
    statements of __init__, in order -> [(name, source key, default)] with
    default in {"REQ", "NONE", ("STR", text)}.  Conditional ones are returned
    separately as names (their logic is hand-modelled and checked by T-corr)."""
    uncond, cond = [], []

    def one(call):
        if not (isinstance(call, ast.Call) and isinstance(call.func, ast.Attribute)
                and call.func.attr == "add_batch_parameter" and len(call.args) == 2):
            return None
        name = const_str(call.args[0], "batch parameter name")
        src = call.args[1]
        for meth in ("pop", "get"):
            r = is_kwargs_call(src, meth)
            if r:
                key, dflt = r
                if dflt is None:
                    d = "REQ" if meth == "pop" else "NONE"
                elif isinstance(dflt, ast.Constant) and dflt.value is None:
                    d = "NONE"
                elif isinstance(dflt, ast.Constant) and isinstance(dflt.value, str):
                    d = ("STR", dflt.value)
                else:
                    fail("unsupported default for batch parameter %s" % name)
                return (name, key, d)
        return (name, None, None)

    for st in fn.body:
        if isinstance(st, ast.Expr):
            r = one(st.value)
            if r:
                if r[1] is None:
                    cond.append(r[0])
                else:
                    uncond.append(r)
        elif isinstance(st, ast.If):
            for n in ast.walk(st):
                if isinstance(n, ast.Call):
                    r = one(n)
                    if r:
                        cond.append(r[0])
    return uncond, cond


def coq_bparams(lst):
    out = []
    for name, key, d in lst:
        if d == "REQ":
            dd = "BReq"
        elif d == "NONE":
            dd = "BNone"
        else:
            dd = "BStr %s" % coq_str(d[1])
        out.append("(%s, %s, %s)" % (coq_str(name), coq_str(key), dd))
    return coq_list(out)


def format_calls(fn):
    """Every `"<literal>".format(...)` in fn, in source order -> [(literal, nargs)]."""
    found = []
    for n in ast.walk(fn):
        if isinstance(n, ast.Call) and isinstance(n.func, ast.Attribute) and n.func.attr == "format" \
                and isinstance(n.func.value, ast.Constant) and isinstance(n.func.value.value, str):
            found.append((n.lineno, n.col_offset, n.func.value.value))
    found.sort()
    return [t for _, _, t in found]


def local_str_assigns(fn):
    """{name: literal} for `name = "<literal>"` and `name = "<literal>".format(..)`;
    later assignments to the same name are collected in order."""
    res = {}
    for n in ast.walk(fn):
        if isinstance(n, ast.Assign) and len(n.targets) == 1 and isinstance(n.targets[0], ast.Name):
            v = n.value
            lit = None
            if isinstance(v, ast.Constant) and isinstance(v.value, str):
                lit = v.value
            elif isinstance(v, ast.Call) and isinstance(v.func, ast.Attribute) and v.func.attr == "format" \
                    and isinstance(v.func.value, ast.Constant) and isinstance(v.func.value.value, str):
                lit = v.func.value.value
            if lit is not None:
                res.setdefault(n.targets[0].id, []).append((n.lineno, lit))
    return {k: [t for _, t in sorted(v)] for k, v in res.items()}


def need(d, k, what):
    if k not in d:
        fail("%s: no assignment to %s" % (what, k))
    return d[k]


def one_of(assigns, name, what):
    v = need(assigns, name, what)
    if len(set(v)) != 1:
        fail("%s: %s assigned different literals" % (what, name))
    return v[0]


# ----------------------------------------------------------------------------
def generate(repo):
    out = []
    w = out.append
    w("(** GENERATED by translate/tdata_headers.py from the source text of /repo -- do not edit.")
    w("    Header templates, launcher flags, script-name templates, batch-parameter")
    w("    defaults and literal regex texts of the script adapters (C15). *)")
    w("From MWF Require Import Base.Str.")
    w("")
    w("Inductive seg := Lit (t : str) | Fld (k : str).")
    w("Definition template := list seg.")
    w("Inductive bdefault := BReq | BNone | BStr (t : str).")
    w("")

    def defn(name, ty, body):
        w("Definition %s : %s := Eval vm_compute in\n  %s." % (name, ty, body))

    def templ_dict(name, items):
        defn(name, "list (str * template)",
             coq_list(["(%s, %s)" % (coq_str(k), coq_template(v)) for k, v in items]))

    def str_pairs(name, items):
        defn(name, "list (str * str)",
             coq_list(["(%s, %s)" % (coq_str(k), coq_str(v)) for k, v in items]))

    # ---- schedulerscriptadapter.py ----------------------------------------
    mod = parse(repo, SCHED)
    cls = find_class(mod, "SchedulerScriptAdapter")
    cvars = {}
    for n in cls.body:
        if isinstance(n, ast.Assign) and len(n.targets) == 1 and isinstance(n.targets[0], ast.Name):
            cvars[n.targets[0].id] = n.value
    lv = const_str(need(cvars, "launcher_var", "SchedulerScriptAdapter"), "launcher_var")
    rx = need(cvars, "launcher_regex", "SchedulerScriptAdapter")
    # re.compile(re.escape(launcher_var) + r"<suffix>")
    ok = (isinstance(rx, ast.Call) and isinstance(rx.func, ast.Attribute) and rx.func.attr == "compile"
          and len(rx.args) == 1 and not rx.keywords and isinstance(rx.args[0], ast.BinOp)
          and isinstance(rx.args[0].op, ast.Add))
    if not ok:
        fail("launcher_regex is not re.compile(re.escape(launcher_var) + <literal>)")
    left, right = rx.args[0].left, rx.args[0].right
    ok = (isinstance(left, ast.Call) and isinstance(left.func, ast.Attribute) and left.func.attr == "escape"
          and len(left.args) == 1 and isinstance(left.args[0], ast.Name) and left.args[0].id == "launcher_var")
    if not ok:
        fail("launcher_regex does not start with re.escape(launcher_var)")
    defn("launcher_var", "str", coq_str(lv))
    defn("launcher_regex_suffix", "str", coq_str(const_str(right, "launcher_regex suffix")))
    for nm in ("legacy_alloc", "task_alloc", "node_alloc"):
        defn(nm + "_text", "str", coq_str(const_str(need(cvars, nm, "SchedulerScriptAdapter"), nm)))
    w("")

    # ---- the running interpreter: the code points the unicode pattern \s matches ----
    # (SlurmScriptAdapter.get_header: re.sub(r"\s", "_", step.name); enumerated, not assumed)
    import re as _re
    pts = [ord(ch) for ch in _re.findall(r"\s", "".join(map(chr, range(0x110000))))]
    if not pts or pts != sorted(set(pts)) or 32 not in pts or 9 not in pts:
        fail("unexpected set of \\s code points: %r" % (pts[:40],))
    defn("py_space_points", "list N", coq_list(["%d%%N" % c for c in pts]))
    w("")

    # ---- study.py: StudyStep.run defaults ----------------------------------
    mod = parse(repo, STUDY)
    cls = find_class(mod, "StudyStep")
    init = find_func(cls, "__init__")
    attrs = self_attr_assigns(init)
    run = need(attrs, "run", "StudyStep.__init__")
    items = str_dict(run, "StudyStep.run")
    if any(v != "" for _, v in items):
        fail("StudyStep.run defaults are not all empty strings")
    defn("step_run_default_keys", "list str", coq_list([coq_str(k) for k, _ in items]))
    w("")

    # ---- slurm ------------------------------------------------------------
    mod = parse(repo, SLURM)
    cls = find_class(mod, "SlurmScriptAdapter")
    init = find_func(cls, "__init__")
    attrs = self_attr_assigns(init)
    templ_dict("slurm_header", str_dict(need(attrs, "_header", "slurm"), "slurm _header"))
    defn("slurm_ntask_header", "template", coq_template(const_str(need(attrs, "_ntask_header", "slurm"), "_ntask_header")))
    defn("slurm_exclusive", "template", coq_template(const_str(need(attrs, "_exclusive", "slurm"), "_exclusive")))
    defn("slurm_qos", "template", coq_template(const_str(need(attrs, "_qos", "slurm"), "_qos")))
    str_pairs("slurm_cmd_flags", str_dict(need(attrs, "_cmd_flags", "slurm"), "slurm _cmd_flags"))
    defn("slurm_unsupported", "list str",
         coq_list([coq_str(x) for x in sorted(str_set(need(attrs, "_unsupported", "slurm"), "slurm _unsupported"))]))
    defn("slurm_extension", "str", coq_str(const_str(need(attrs, "_extension", "slurm"), "_extension")))
    unc, cond = batch_params(init)
    defn("slurm_batch_params", "list (str * str * bdefault)", coq_bparams(unc))
    defn("slurm_batch_conditional", "list str", coq_list([coq_str(x) for x in cond]))
    ws = find_func(cls, "_write_script")
    la = local_str_assigns(ws)
    defn("slurm_script_name", "template", coq_template(one_of(la, "fname", "slurm _write_script")))
    defn("slurm_restart_name", "template", coq_template(one_of(la, "rname", "slurm _write_script")))
    defn("slurm_form_cmd", "template", coq_template(one_of(la, "form_cmd", "slurm _write_script")))
    defn("slurm_local_header", "template", coq_template(one_of(la, "header", "slurm _write_script")))
    gh = find_func(cls, "get_header")
    fc = format_calls(gh)
    sheb = [t for t in fc if t.startswith("#!")]
    if len(sheb) != 1:
        fail("slurm get_header: expected exactly one shebang template")
    defn("slurm_shebang", "template", coq_template(sheb[0]))
    w("")

    # ---- lsf --------------------------------------------------------------
    mod = parse(repo, LSF)
    cls = find_class(mod, "LSFScriptAdapter")
    init = find_func(cls, "__init__")
    attrs = self_attr_assigns(init)
    templ_dict("lsf_header", str_dict(need(attrs, "_header", "lsf"), "lsf _header"))
    str_pairs("lsf_cmd_flags", str_dict(need(attrs, "_cmd_flags", "lsf"), "lsf _cmd_flags"))
    defn("lsf_extension", "str", coq_str(const_str(need(attrs, "_extension", "lsf"), "_extension")))
    unc, cond = batch_params(init)
    defn("lsf_batch_params", "list (str * str * bdefault)", coq_bparams(unc))
    defn("lsf_batch_conditional", "list str", coq_list([coq_str(x) for x in cond]))
    # does LSF forward kwargs (shell) to the base class?
    fwd = False
    for n in ast.walk(init):
        if isinstance(n, ast.Call) and isinstance(n.func, ast.Attribute) and n.func.attr == "__init__":
            fwd = bool(n.keywords or n.args)
    defn("lsf_forwards_shell", "bool", "true" if fwd else "false")
    ws = find_func(cls, "_write_script")
    la = local_str_assigns(ws)
    defn("lsf_script_name", "template", coq_template(one_of(la, "fname", "lsf _write_script")))
    defn("lsf_restart_name", "template", coq_template(one_of(la, "rname", "lsf _write_script")))
    defn("lsf_body", "template", coq_template(one_of(la, "cmd", "lsf _write_script")))
    sheb = set(t for t in format_calls(ws) if t.startswith("#!"))
    if len(sheb) != 1:
        fail("lsf _write_script: expected one shebang template")
    defn("lsf_local_header", "template", coq_template(sheb.pop()))
    gh = find_func(cls, "get_header")
    fc = format_calls(gh)
    sheb = [t for t in fc if t.startswith("#!")]
    outs = [t for t in fc if t.endswith(".out")]
    errs = [t for t in fc if t.endswith(".err")]
    if len(sheb) != 1 or len(outs) != 1 or len(errs) != 1:
        fail("lsf get_header: shebang/output/error templates not found")
    defn("lsf_shebang", "template", coq_template(sheb[0]))
    defn("lsf_output_name", "template", coq_template(outs[0]))
    defn("lsf_error_name", "template", coq_template(errs[0]))
    w("")

    # ---- flux -------------------------------------------------------------
    mod = parse(repo, FLUX)
    cls = find_class(mod, "FluxScriptAdapter")
    init = find_func(cls, "__init__")
    attrs = self_attr_assigns(init)
    templ_dict("flux_header", str_dict(need(attrs, "_header", "flux"), "flux _header"))
    # the conditional `self._header['flux_uri'] = "..."`
    extra = []
    for n in ast.walk(init):
        if isinstance(n, ast.Assign) and len(n.targets) == 1 and isinstance(n.targets[0], ast.Subscript):
            t = n.targets[0]
            if isinstance(t.value, ast.Attribute) and t.value.attr == "_header":
                extra.append((const_str(t.slice, "flux header key"), const_str(n.value, "flux header value")))
    templ_dict("flux_header_uri", extra)
    str_pairs("flux_cmd_flags", str_dict(need(attrs, "_cmd_flags", "flux"), "flux _cmd_flags"))
    defn("flux_extension", "str", coq_str(const_str(need(attrs, "_extension", "flux"), "_extension")))
    unc, cond = batch_params(init)
    defn("flux_batch_params", "list (str * str * bdefault)", coq_bparams(unc))
    ws = find_func(cls, "_write_script")
    la = local_str_assigns(ws)
    defn("flux_script_name", "template", coq_template(one_of(la, "fname", "flux _write_script")))
    defn("flux_restart_name", "template", coq_template(one_of(la, "rname", "flux _write_script")))
    defn("flux_body", "template", coq_template(one_of(la, "cmd", "flux _write_script")))
    gh = find_func(cls, "get_header")
    sheb = [t for t in format_calls(gh) if t.startswith("#!")]
    if len(sheb) != 1:
        fail("flux get_header: expected one shebang template")
    defn("flux_shebang", "template", coq_template(sheb[0]))
    # the header of a local step's restart script
    lsheb = set(t for t in format_calls(ws) if t.startswith("#!"))
    if len(lsheb) != 1:
        fail("flux _write_script: expected one shebang template for the restart script of a local step")
    defn("flux_local_header", "template", coq_template(lsheb.pop()))
    # flux0_49_0.parallelize: leading literal words and appended flags, in order
    mod = parse(repo, FLUXIF)
    icls = None
    for n in mod.body:
        if isinstance(n, ast.ClassDef) and any(isinstance(m, ast.FunctionDef) and m.name == "parallelize" for m in n.body):
            icls = n
    if icls is None:
        fail("flux interface class with parallelize not found")
    par = find_func(icls, "parallelize")
    lead, flags = None, []
    for n in ast.walk(par):
        if isinstance(n, ast.Assign) and len(n.targets) == 1 and isinstance(n.targets[0], ast.Name) \
                and n.targets[0].id == "args" and isinstance(n.value, ast.List):
            lead = [e.value for e in n.value.elts if isinstance(e, ast.Constant) and isinstance(e.value, str)]
    for n in ast.walk(par):
        if isinstance(n, ast.Call) and isinstance(n.func, ast.Attribute) and n.func.attr == "append" \
                and isinstance(n.func.value, ast.Name) and n.func.value.id == "args" and len(n.args) == 1 \
                and isinstance(n.args[0], ast.Constant) and isinstance(n.args[0].value, str):
            flags.append((n.lineno, n.args[0].value))
        # args += ["-x", <value>]
        if isinstance(n, ast.AugAssign) and isinstance(n.op, ast.Add) and isinstance(n.target, ast.Name) \
                and n.target.id == "args" and isinstance(n.value, ast.List) and n.value.elts \
                and isinstance(n.value.elts[0], ast.Constant) and isinstance(n.value.elts[0].value, str):
            flags.append((n.lineno, n.value.elts[0].value))
    if lead is None:
        fail("flux parallelize: `args = [...]` not found")
    defn("flux_par_lead", "list str", coq_list([coq_str(x) for x in lead]))
    defn("flux_par_flags", "list str", coq_list([coq_str(x) for _, x in sorted(flags)]))
    w("")

    # ---- local ------------------------------------------------------------
    mod = parse(repo, LOCAL)
    cls = find_class(mod, "LocalScriptAdapter")
    init = find_func(cls, "__init__")
    attrs = self_attr_assigns(init)
    defn("local_extension", "str", coq_str(const_str(need(attrs, "_extension", "local"), "_extension")))
    ws = find_func(cls, "_write_script")
    la = local_str_assigns(ws)
    defn("local_script_name", "template", coq_template(one_of(la, "fname", "local _write_script")))
    defn("local_restart_name", "template", coq_template(one_of(la, "rname", "local _write_script")))
    scr = set(t for t in format_calls(ws) if t.startswith("#!"))
    if len(scr) != 1:
        fail("local _write_script: expected one script template")
    defn("local_script", "template", coq_template(scr.pop()))
    return {"Gen/HeaderData.v": "\n".join(out) + "\n"}

"""T-data generator for C13: specification schema, step priorities, Flux urgencies.

Parses (json / python `ast`, never imports) and emits coq/theories/Gen/SpecData.v:

* the four JSON schemas of maestrowf/specification/schemas/yamlspecification.json
  (`DESCRIPTION`, `PARAM`, `STUDY_STEP`, `ENV`) as Gallina `schema` terms
  (`MWF.Spec.Schema.kw` lists, one keyword per JSON keyword, source order);
* the members of `StepPriority` (maestrowf/abstracts/enums/__init__.py) and
  `StepPriority.from_str` as a first-match decision list extracted from its
  if-chain (`x == "a"`, `"a" == x`, `x in ("a", "b")`/`[..]`/`{..}`, `or` of
  those; optional `x = priority.lower()` normalisation);
* the `_urgencies` table and the numeric branch `ceil(float(u) * K)` of
  `FluxInterface_0490.get_flux_urgency`
  (maestrowf/interfaces/script/_flux/flux0_49_0.py).

`propertyNames: {"type": "string"}` is accepted and emits nothing: keys of a
`Json.jv` object are strings by construction.

* which `re` function `environment.Script._verify` applies to which pattern
  (maestrowf/datastructures/environment/script.py) as the string
  `script_verify_form` ("search:\\w+"): the model's `wordy` was written against
  exactly that form, Props/C13.v carries the equality as an obligation.

Fail-closed: any JSON-Schema keyword, keyword value, or Python shape that the
Gallina side has no exact counterpart for raises NotTranslatable.
"""
import ast
import decimal
import json
import os

from translate.regen import NotTranslatable

SCHEMA = "maestrowf/specification/schemas/yamlspecification.json"
ENUMS = "maestrowf/abstracts/enums/__init__.py"
FLUX = "maestrowf/interfaces/script/_flux/flux0_49_0.py"
SECTIONS = ("DESCRIPTION", "PARAM", "STUDY_STEP", "ENV")
VAR_PATTERN = r"^\$\(\w+\)$"
TYPES = {"null": "TNull", "boolean": "TBoolean", "integer": "TInteger", "number": "TNumber",
         "string": "TString", "array": "TArray", "object": "TObject"}


def _fail(msg, node=None):
    if node is not None and hasattr(node, "lineno"):
        msg = "%s (line %d)" % (msg, node.lineno)
    raise NotTranslatable(msg)


# ----------------------------------------------------------------------------
# Gallina literals
# ----------------------------------------------------------------------------
def g_str(s):
    if not isinstance(s, str):
        _fail("string expected, got %r" % (s,))
    if all(32 <= ord(c) < 127 and c != '"' for c in s):
        return '(s "%s")' % s
    return "[" + "; ".join("%d%%N" % ord(c) for c in s) + "]"


def g_list(items):
    return "[" + "; ".join(items) + "]"


def dec_parts(d):
    """Decimal -> (mantissa, exponent10 >= 0) with value = m / 10^e."""
    sign, digits, exp = d.as_tuple()
    if not isinstance(exp, int):
        _fail("non-finite number %r" % (d,))
    m = int("".join(map(str, digits)) or "0")
    if sign:
        m = -m
    if exp > 0:
        m, exp = m * 10 ** exp, 0
    return m, -exp


def g_num(x):
    if isinstance(x, bool):
        _fail("number expected, got a boolean")
    if isinstance(x, int):
        return "((%d)%%Z, 0%%nat)" % x
    if isinstance(x, decimal.Decimal):
        m, e = dec_parts(x)
        return "((%d)%%Z, %d%%nat)" % (m, e)
    _fail("number expected, got %r" % (x,))


def g_jv(x):
    if x is None:
        return "JNull"
    if isinstance(x, bool):
        return "(JBool %s)" % ("true" if x else "false")
    if isinstance(x, int):
        return "(JInt (%d)%%Z)" % x
    if isinstance(x, decimal.Decimal):
        m, e = dec_parts(x)
        return "(JFlt (%d)%%Z %d%%nat)" % (m, e)
    if isinstance(x, str):
        return "(JStr %s)" % g_str(x)
    if isinstance(x, list):
        return "(JArr %s)" % g_list([g_jv(i) for i in x])
    if isinstance(x, dict):
        return "(JObj %s)" % g_list(["(%s, %s)" % (g_str(k), g_jv(v)) for k, v in x.items()])
    _fail("unsupported JSON value %r" % (x,))


# ----------------------------------------------------------------------------
# JSON schema -> kw list
# ----------------------------------------------------------------------------
def _nat(v, what):
    if isinstance(v, bool) or not isinstance(v, int) or v < 0 or v > 4000:
        _fail("%s must be a small non-negative integer, got %r" % (what, v))
    return "%d%%nat" % v


def g_schema(sch, where):
    if not isinstance(sch, dict):
        _fail("schema at %s is not an object" % where)
    kws = []
    for key, val in sch.items():
        w = "%s.%s" % (where, key)
        if key == "type":
            if not isinstance(val, str) or val not in TYPES:
                _fail("unsupported type %r at %s" % (val, w))
            kws.append("KType %s" % TYPES[val])
        elif key == "properties":
            if not isinstance(val, dict):
                _fail("properties is not an object at %s" % w)
            kws.append("KProperties %s" % g_list(
                ["(%s, %s)" % (g_str(k), g_schema(v, w + "." + k)) for k, v in val.items()]))
        elif key == "patternProperties":
            if not isinstance(val, dict) or list(val) != ["^.*"]:
                _fail("only patternProperties {\"^.*\": ...} is supported, at %s" % w)
            kws.append("KPatternAll %s" % g_schema(val["^.*"], w))
        elif key == "required":
            if not isinstance(val, list) or not all(isinstance(k, str) for k in val):
                _fail("required is not a list of strings at %s" % w)
            kws.append("KRequired %s" % g_list([g_str(k) for k in val]))
        elif key == "additionalProperties":
            if val is False:
                kws.append("KAdditionalFalse")
            elif val is not True:
                _fail("only boolean additionalProperties is supported, at %s" % w)
        elif key == "items":
            kws.append("KItems %s" % g_schema(val, w))
        elif key == "uniqueItems":
            if val is True:
                kws.append("KUniqueItems")
            elif val is not False:
                _fail("uniqueItems must be a boolean at %s" % w)
        elif key == "minLength":
            kws.append("KMinLength %s" % _nat(val, w))
        elif key == "minItems":
            kws.append("KMinItems %s" % _nat(val, w))
        elif key == "enum":
            if not isinstance(val, list):
                _fail("enum is not a list at %s" % w)
            kws.append("KEnum %s" % g_list([g_jv(v) for v in val]))
        elif key in ("anyOf", "oneOf"):
            if not isinstance(val, list) or not val:
                _fail("%s is not a non-empty list at %s" % (key, w))
            kws.append("%s %s" % ("KAnyOf" if key == "anyOf" else "KOneOf",
                                  g_list([g_schema(v, "%s[%d]" % (w, i)) for i, v in enumerate(val)])))
        elif key == "minimum":
            kws.append("KMinimum %s" % g_num(val))
        elif key == "maximum":
            kws.append("KMaximum %s" % g_num(val))
        elif key == "pattern":
            if val != VAR_PATTERN:
                _fail("unsupported pattern %r at %s (only %r has a scanner)" % (val, w, VAR_PATTERN))
            kws.append("KPatternVar")
        elif key == "propertyNames":
            # Keys of a Json.v object ARE strings (a YAML key that is not one is
            # outside the model's document type; the harness's raw-text stream
            # covers it): exactly {"type": "string"} is vacuous there.
            if val != {"type": "string"}:
                _fail("only propertyNames {\"type\": \"string\"} is supported, at %s" % w)
            continue
        elif key in ("description", "title", "$comment", "$id", "$schema", "default", "examples"):
            continue        # annotations: no effect on validation
        else:
            _fail("unsupported JSON-Schema keyword %r at %s" % (key, w))
    return g_list(kws)


def _dup_check(pairs):
    keys = [k for k, _ in pairs]
    if len(set(keys)) != len(keys):
        _fail("schema file repeats a key in one object: %r" % (keys,))
    return dict(pairs)


def gen_schemas(repo):
    p = os.path.join(repo, SCHEMA)
    try:
        with open(p, encoding="utf-8") as f:
            data = json.load(f, parse_float=decimal.Decimal, object_pairs_hook=_dup_check)
    except (OSError, ValueError) as e:
        _fail("cannot read %s: %r" % (SCHEMA, e))
    if not isinstance(data, dict):
        _fail("schema file is not an object")
    out = []
    for sec in SECTIONS:
        if sec not in data:
            _fail("schema section %s is missing" % sec)
        out.append("Definition %s : schema :=\n  %s.\n" % (sec, g_schema(data[sec], sec)))
    return "\n".join(out)


# ----------------------------------------------------------------------------
# StepPriority + from_str
# ----------------------------------------------------------------------------
def _parse(repo, rel):
    p = os.path.join(repo, rel)
    try:
        with open(p, encoding="utf-8") as f:
            return ast.parse(f.read(), filename=p)
    except (OSError, SyntaxError) as e:
        _fail("cannot parse %s: %r" % (rel, e))


def _class(tree, name, rel):
    cs = [n for n in tree.body if isinstance(n, ast.ClassDef) and n.name == name]
    if len(cs) != 1:
        _fail("expected exactly one class %s in %s" % (name, rel))
    return cs[0]


def _is_doc_or_log(st):
    """docstrings, `pass`, logging calls: no effect on the result"""
    if isinstance(st, ast.Pass):
        return True
    if isinstance(st, ast.Expr):
        v = st.value
        if isinstance(v, ast.Constant) and isinstance(v.value, str):
            return True
        if isinstance(v, ast.Call) and isinstance(v.func, ast.Attribute) and \
                isinstance(v.func.value, ast.Name) and v.func.value.id in ("LOGGER", "logger", "logging"):
            return True
    return False


def _str_consts(node):
    if isinstance(node, (ast.Tuple, ast.List, ast.Set)):
        out = []
        for e in node.elts:
            if not (isinstance(e, ast.Constant) and isinstance(e.value, str)):
                _fail("non-literal in membership test", node)
            out.append(e.value)
        return out
    _fail("unsupported container in membership test", node)


def _test_strings(test, var):
    """the literals L such that `test` is (var == one of L)"""
    if isinstance(test, ast.BoolOp) and isinstance(test.op, ast.Or):
        out = []
        for v in test.values:
            out += _test_strings(v, var)
        return out
    if isinstance(test, ast.Compare) and len(test.ops) == 1 and len(test.comparators) == 1:
        a, op, b = test.left, test.ops[0], test.comparators[0]
        isvar = lambda n: isinstance(n, ast.Name) and n.id == var
        isstr = lambda n: isinstance(n, ast.Constant) and isinstance(n.value, str)
        if isinstance(op, ast.Eq):
            if isvar(a) and isstr(b):
                return [b.value]
            if isstr(a) and isvar(b):
                return [a.value]
        if isinstance(op, ast.In) and isvar(a):
            return _str_consts(b)
    _fail("unsupported test in from_str", test)


def _enum_member(node, cls_names):
    """cls.X / StepPriority.X -> X"""
    if isinstance(node, ast.Attribute) and isinstance(node.value, ast.Name) and node.value.id in cls_names:
        return node.attr
    _fail("expected an enum member", node)


def gen_priority(repo):
    tree = _parse(repo, ENUMS)
    cls = _class(tree, "StepPriority", ENUMS)
    members = []
    from_str = None
    for st in cls.body:
        if isinstance(st, ast.Assign) and len(st.targets) == 1 and isinstance(st.targets[0], ast.Name):
            if not (isinstance(st.value, ast.Constant) and isinstance(st.value.value, int)
                    and not isinstance(st.value.value, bool)):
                _fail("StepPriority member with a non-integer value", st)
            members.append((st.targets[0].id, st.value.value))
        elif isinstance(st, ast.FunctionDef) and st.name == "from_str":
            from_str = st
        elif _is_doc_or_log(st) or isinstance(st, ast.FunctionDef):
            continue
        else:
            _fail("unsupported statement in StepPriority", st)
    if not members or from_str is None:
        _fail("StepPriority members or from_str not found")
    names = [m for m, _ in members]
    if len(set(names)) != len(names):
        _fail("duplicate StepPriority member")
    args = [a.arg for a in from_str.args.args]
    if len(args) != 2 or from_str.args.vararg or from_str.args.kwarg or from_str.args.kwonlyargs:
        _fail("from_str signature not understood", from_str)
    clsvar, param = args
    var, lowered = param, False
    table = []
    ended = False
    for st in from_str.body:
        if _is_doc_or_log(st):
            continue
        if ended:
            _fail("statement after the final raise/return of from_str", st)
        if isinstance(st, ast.Assign):
            # <v> = <param>.lower()
            t, v = st.targets, st.value
            if table or lowered or len(t) != 1 or not isinstance(t[0], ast.Name) or not (
                    isinstance(v, ast.Call) and not v.args and not v.keywords and
                    isinstance(v.func, ast.Attribute) and v.func.attr == "lower" and
                    isinstance(v.func.value, ast.Name) and v.func.value.id == param):
                _fail("unsupported assignment in from_str", st)
            var, lowered = t[0].id, True
        elif isinstance(st, ast.If):
            node = st
            while True:
                if len([b for b in node.body if not _is_doc_or_log(b)]) != 1:
                    _fail("if-body of from_str is not a single return", node)
                ret = [b for b in node.body if not _is_doc_or_log(b)][0]
                if not isinstance(ret, ast.Return) or ret.value is None:
                    _fail("if-body of from_str is not a return", node)
                table.append((_test_strings(node.test, var),
                              _enum_member(ret.value, (clsvar, "StepPriority"))))
                rest = [b for b in node.orelse if not _is_doc_or_log(b)]
                if not rest:
                    break
                if len(rest) == 1 and isinstance(rest[0], ast.If):
                    node = rest[0]
                    continue
                if len(rest) == 1 and isinstance(rest[0], ast.Raise):
                    ended = True
                    break
                _fail("unsupported else-branch in from_str", node)
        elif isinstance(st, ast.Raise):
            ended = True
        else:
            _fail("unsupported statement in from_str", st)
    if not ended:
        _fail("from_str does not end by raising for unknown names")
    for _, m in table:
        if m not in names:
            _fail("from_str returns unknown member %s" % m)
    out = []
    out.append("Inductive StepPriority : Set := %s.\n" % " | ".join("P_" + n for n in names))
    out.append("Definition priority_members : list StepPriority := %s.\n" % g_list(["P_" + n for n in names]))
    out.append("Definition priority_value (p : StepPriority) : Z :=\n  match p with %s end.\n" % " ".join(
        "| P_%s => (%d)%%Z" % (n, v) for n, v in members))
    out.append("Definition priority_eqb (a b : StepPriority) : bool := Z.eqb (priority_value a) (priority_value b).\n")
    out.append("(* StepPriority.from_str: the argument is %s, then the first matching test decides *)\n"
               "Definition from_str_lowers : bool := %s.\n" % (
                   "lower-cased first" if lowered else "used as it is", "true" if lowered else "false"))
    out.append("Definition from_str_table : list (list str * StepPriority) :=\n  %s.\n" % g_list(
        ["(%s, P_%s)" % (g_list([g_str(x) for x in ks]), m) for ks, m in table]))
    out.append("Definition priority_from_str (x : str) : option StepPriority :=\n"
               "  decide_list from_str_table (if from_str_lowers then ascii_lower x else x).\n")
    if len(set(v for _, v in members)) != len(members):
        _fail("StepPriority values are not distinct (aliases)")
    return "\n".join(out), names


# ----------------------------------------------------------------------------
# Flux urgencies
# ----------------------------------------------------------------------------
def gen_flux(repo, names):
    tree = _parse(repo, FLUX)
    cls = _class(tree, "FluxInterface_0490", FLUX)
    table = None
    fn = None
    for st in cls.body:
        if isinstance(st, ast.Assign) and len(st.targets) == 1 and isinstance(st.targets[0], ast.Name) \
                and st.targets[0].id == "_urgencies":
            if not isinstance(st.value, ast.Dict):
                _fail("_urgencies is not a dict literal", st)
            table = []
            for k, v in zip(st.value.keys, st.value.values):
                m = _enum_member(k, ("StepPriority",))
                if m not in names:
                    _fail("_urgencies mentions unknown member %s" % m, st)
                if not (isinstance(v, ast.Constant) and isinstance(v.value, int) and not isinstance(v.value, bool)):
                    _fail("_urgencies value is not an integer literal", st)
                table.append((m, v.value))
        elif isinstance(st, ast.FunctionDef) and st.name == "get_flux_urgency":
            fn = st
    if table is None or fn is None:
        _fail("_urgencies / get_flux_urgency not found")
    if len(set(m for m, _ in table)) != len(table):
        _fail("_urgencies repeats a key")
    # shape of get_flux_urgency(cls, urgency):
    #   if isinstance(urgency, str): urgency = StepPriority.from_str(urgency)
    #   if isinstance(urgency, StepPriority): return cls._urgencies[urgency]
    #   else: return ceil(float(urgency) * K)
    args = [a.arg for a in fn.args.args]
    if len(args) != 2:
        _fail("get_flux_urgency signature not understood", fn)
    clsvar, u = args
    body = [b for b in fn.body if not _is_doc_or_log(b)]

    def is_isinstance(test, ty):
        return (isinstance(test, ast.Call) and isinstance(test.func, ast.Name) and test.func.id == "isinstance"
                and len(test.args) == 2 and isinstance(test.args[0], ast.Name) and test.args[0].id == u
                and isinstance(test.args[1], ast.Name) and test.args[1].id == ty)

    if len(body) != 2 or not all(isinstance(b, ast.If) for b in body):
        _fail("get_flux_urgency body not understood", fn)
    first, second = body
    fb = [b for b in first.body if not _is_doc_or_log(b)]
    if not (is_isinstance(first.test, "str") and not first.orelse and len(fb) == 1
            and isinstance(fb[0], ast.Assign) and len(fb[0].targets) == 1
            and isinstance(fb[0].targets[0], ast.Name) and fb[0].targets[0].id == u
            and isinstance(fb[0].value, ast.Call) and isinstance(fb[0].value.func, ast.Attribute)
            and fb[0].value.func.attr == "from_str"
            and isinstance(fb[0].value.func.value, ast.Name) and fb[0].value.func.value.id == "StepPriority"
            and len(fb[0].value.args) == 1 and isinstance(fb[0].value.args[0], ast.Name)
            and fb[0].value.args[0].id == u):
        _fail("string branch of get_flux_urgency not understood", first)
    sb = [b for b in second.body if not _is_doc_or_log(b)]
    eb = [b for b in second.orelse if not _is_doc_or_log(b)]
    if not (is_isinstance(second.test, "StepPriority") and len(sb) == 1 and isinstance(sb[0], ast.Return)
            and isinstance(sb[0].value, ast.Subscript)
            and isinstance(sb[0].value.value, ast.Attribute) and sb[0].value.value.attr == "_urgencies"
            and isinstance(sb[0].value.value.value, ast.Name) and sb[0].value.value.value.id == clsvar
            and isinstance(sb[0].value.slice, ast.Name) and sb[0].value.slice.id == u):
        _fail("enum branch of get_flux_urgency not understood", second)
    scale = None
    if len(eb) == 1 and isinstance(eb[0], ast.Return):
        c = eb[0].value
        if isinstance(c, ast.Call) and isinstance(c.func, ast.Name) and c.func.id == "ceil" and len(c.args) == 1 \
                and isinstance(c.args[0], ast.BinOp) and isinstance(c.args[0].op, ast.Mult):
            a, b = c.args[0].left, c.args[0].right
            isf = lambda n: (isinstance(n, ast.Call) and isinstance(n.func, ast.Name) and n.func.id == "float"
                             and len(n.args) == 1 and isinstance(n.args[0], ast.Name) and n.args[0].id == u)
            isk = lambda n: (isinstance(n, ast.Constant) and isinstance(n.value, int)
                             and not isinstance(n.value, bool) and n.value >= 0)
            if isf(a) and isk(b):
                scale = b.value
            elif isk(a) and isf(b):
                scale = a.value
    if scale is None:
        _fail("numeric branch of get_flux_urgency is not ceil(float(urgency) * K)", second)
    out = []
    out.append("Definition flux_urgency_table : list (StepPriority * Z) :=\n  %s.\n" % g_list(
        ["(P_%s, (%d)%%Z)" % (m, v) for m, v in table]))
    out.append("(* numeric branch: ceil(float(urgency) * flux_urgency_scale) *)\n"
               "Definition flux_urgency_scale : Z := (%d)%%Z.\n" % scale)
    return "\n".join(out)


HEADER = """(** GENERATED by translate/tdata_enums.py from /repo -- do not edit.
    Sources: %s, %s, %s *)
From Coq Require Import List ZArith NArith.
From MWF Require Import Base.Str Spec.Json Spec.Schema.
Import ListNotations.

""" % (SCHEMA, ENUMS, FLUX)


# ----------------------------------------------------------------------------
# environment.Script._verify: which `re` function is applied to which pattern
# ----------------------------------------------------------------------------
SCRIPT = "maestrowf/datastructures/environment/script.py"
RE_FUNCS = ("search", "match", "fullmatch")


def gen_script(repo):
    """`script_verify_form` = "<re function>:<pattern text>" of Script._verify,
    e.g. "search:\\w+".  Understood shapes of the single return statement:
    bool(re.F(P, self.source)) / bool(P.F(self.source)) (bool() optional), P a
    string literal, re.compile(<literal>), or a name bound once to one of those
    in the method or at module level.  Anything else: NotTranslatable."""
    tree = _parse(repo, SCRIPT)
    cls = _class(tree, "Script", SCRIPT)
    fns = [n for n in cls.body if isinstance(n, ast.FunctionDef) and n.name == "_verify"]
    if len(fns) != 1:
        _fail("expected exactly one Script._verify in %s" % SCRIPT)
    fn = fns[0]
    binds = {}

    def collect(body):
        for st in body:
            if isinstance(st, ast.Assign) and len(st.targets) == 1 and isinstance(st.targets[0], ast.Name):
                n = st.targets[0].id
                binds[n] = None if n in binds else st.value     # bound twice: unusable

    collect(tree.body)
    local = [st for st in fn.body if not _is_doc_or_log(st)]
    collect(local[:-1])
    for st in local[:-1]:
        if not isinstance(st, ast.Assign):
            _fail("unsupported statement in Script._verify", st)
    if not local or not isinstance(local[-1], ast.Return) or local[-1].value is None:
        _fail("Script._verify does not end in a return of an expression")

    def pattern(e, depth=0):
        if depth > 3:
            _fail("pattern of Script._verify is bound too indirectly", e)
        if isinstance(e, ast.Constant) and isinstance(e.value, str):
            return e.value
        if (isinstance(e, ast.Call) and isinstance(e.func, ast.Attribute) and e.func.attr == "compile"
                and isinstance(e.func.value, ast.Name) and e.func.value.id == "re"
                and len(e.args) == 1 and not e.keywords):
            return pattern(e.args[0], depth + 1)
        if isinstance(e, ast.Name) and binds.get(e.id) is not None:
            return pattern(binds[e.id], depth + 1)
        _fail("unsupported pattern expression in Script._verify", e)

    def is_source(e):
        return (isinstance(e, ast.Attribute) and e.attr == "source"
                and isinstance(e.value, ast.Name) and e.value.id == "self")

    e = local[-1].value
    if (isinstance(e, ast.Call) and isinstance(e.func, ast.Name) and e.func.id == "bool"
            and len(e.args) == 1 and not e.keywords):
        e = e.args[0]
    if not (isinstance(e, ast.Call) and isinstance(e.func, ast.Attribute) and e.func.attr in RE_FUNCS
            and not e.keywords):
        _fail("Script._verify does not return a re.search/match/fullmatch result", e)
    if isinstance(e.func.value, ast.Name) and e.func.value.id == "re" and len(e.args) == 2 and is_source(e.args[1]):
        pat = pattern(e.args[0])
    elif len(e.args) == 1 and is_source(e.args[0]):
        pat = pattern(e.func.value)
    else:
        _fail("unsupported call shape in Script._verify", e)
    return ("(* environment.Script._verify: <re function>:<pattern> applied to the source line *)\n"
            "Definition script_verify_form : str := %s.\n" % g_str("%s:%s" % (e.func.attr, pat)))


def generate(repo):
    schemas = gen_schemas(repo)
    prio, names = gen_priority(repo)
    flux = gen_flux(repo, names)
    script = gen_script(repo)
    return {"Gen/SpecData.v": HEADER + schemas + "\n" + prio + "\n" + flux + "\n" + script}

"""T-code for C13: regenerate the Gallina text of the specification front end as
Spec/VerifyGen.v.

Sources (parsed with `ast`, never imported):
  maestrowf/specification/yamlspecification.py   verify, verify_description,
        verify_environment, _verify_variables, _verify_sources,
        _verify_dependencies, verify_study, _verify_steps, verify_parameters,
        validate_schema (shape), the `name` property, __init__,
        load_specification_from_stream, get_study_environment, get_parameters,
        get_study_steps
  maestrowf/datastructures/core/study.py          SOURCE, ALL_COMBOS,
        StudyStep.__init__ / name / real_name, Study.add_step
  maestrowf/datastructures/dag.py                 add_node, the guards of add_edge
  maestrowf/datastructures/core/studyenvironment.py   StudyEnvironment.add
  maestrowf/datastructures/core/parameters.py     ParameterGenerator.add_parameter

A fail-closed statement-level translator into the `res` monad of Spec/Verify.v.
Every Python expression that can fail on the given JSON shape is bound, in
evaluation order, to one application of a partial operation (`getitem`,
`contains`, `items`, `iter`, `as_str`, `py_len`, ...: KeyError / TypeError /
AttributeError = `Err Internal`); every `raise` of ValidationError / ValueError
/ Exception becomes `Err (Diag <site label>)`, of any other class `Err
Internal`; `for` loops become `for_in` / `for_items` over the locals they
re-bind; a non-terminating `if` becomes a join over the locals it re-binds;
`try: ... except Exception as e: <log>; raise` is transparent.  Python variable
names are kept, so a dropped or moved guard, and/or mix-ups, a check keyed on
another name, iterating another list, another exception class, `return` for
`raise` CHANGE the generated text; Spec/VerifyGenProofs.v proves the generated
functions equal to Spec/Verify.v's, so such a change breaks a proof
obligation.  Pure re-evaluations of an operation that already succeeded on the
same path are shared (the documents are immutable).  Logging is dropped, but
its arguments are evaluated (`self.name` indexes the description).  Message
texts are dropped.  Anything outside the templates raises NotTranslatable.

Site labels: the model names every diagnostic site (`DVarName`, ...); the
labels are attached by position (the k-th diagnostic site of a function in
source order), so a removed or reordered guard shifts them.
"""
import ast
import os
import re

from translate.regen import NotTranslatable  # noqa

SRC_SPEC = "maestrowf/specification/yamlspecification.py"
SRC_STUDY = "maestrowf/datastructures/core/study.py"
SRC_DAG = "maestrowf/datastructures/dag.py"
SRC_ENV = "maestrowf/datastructures/core/studyenvironment.py"
SRC_PARAMS = "maestrowf/datastructures/core/parameters.py"
OUT = "Spec/VerifyGen.v"

_CTX = re.compile(r", (?:Load|Store|Del)\(\)")

# identifiers the emitted text itself uses, Gallina keywords, and names of the
# libraries in scope that a Python local must not shadow
RESERVED = set("""
at as end fun let in match with return fix cofix forall exists if then else struct where using by Type Prop Set
SProp mod nat list option bool true false Some None S O Z N tt unit fst snd negb andb orb length app map filter
s str jv JNull JBool JInt JFlt JStr JArr JObj schema valid truthy keys lookup has_key remove_key mem_str str_eqb
res Ok Err Diag Internal bind mfold miter mmap getitem contains items iter pylen as_str getd is_nil spec sp sp_desc
sp_env sp_study sp_globals diag rclass wordy strip_stars
is_dict is_list is_str truthy_str py_len py_get str_has_char set_empty set_add distinct_jv py_set set_len
list_append dict_pop for_in for_items iter_errors stepobj new_StudyStep step_set_name step_set_description
run_setitem step_real_name run_contains run_getitem apply_environment re_sub_all_combos envobj is_Dependency
is_Substitution is_Source item_name opt_truthy opt_mem names_add new_Variable new_Script new_PathDependency
new_GitDependency new_StudyEnvironment new_ParameterGenerator DESCRIPTION ENV STUDY_STEP PARAM
dict_pop_default spec_set_description spec_set_environment spec_set_study spec_set_globals
""".split())

SCHEMA_NAMES = ("DESCRIPTION", "ENV", "STUDY_STEP", "PARAM")

DIAG_CLASSES = ("ValueError", "ValidationError", "Exception")
INTERNAL_CLASSES = ("TypeError", "KeyError", "AttributeError", "IndexError", "RuntimeError", "NotImplementedError")

COQ_TYPES = {
    "jv": "jv", "str": "str", "sset": "list str", "int": "Z", "schema": "schema", "step": "stepobj",
    "steps": "list stepobj", "env": "list str", "envobj": "envobj", "pgen": "Z", "unit": "unit",
    "strlist": "list str", "jvset": "list jv", "optstr": "option str", "specrec": "spec",
}


class Bad(NotTranslatable):
    pass


def D(node):
    return _CTX.sub("", ast.dump(node, annotate_fields=False))


def P(src, mode="eval"):
    t = ast.parse(src, mode=mode)
    return D(t.body if mode == "eval" else t.body[0])


def src_of(node):
    try:
        return ast.unparse(node).split("\n")[0]
    except Exception:
        return "<%s>" % type(node).__name__


def G(name):
    """Gallina identifier of a Python variable"""
    if name == "_":
        return "u_"
    if name.startswith("_"):
        name = "u" + name
    if name in RESERVED or name.endswith("_gen") or re.match(r"^t\d+$", name):
        return name + "_"
    return name


def atom(t):
    """parenthesise a term unless it is atomic"""
    if " " not in t:
        return t
    if t[0] == "(" and t[-1] == ")":
        depth = 0
        for i, ch in enumerate(t):
            depth += ch == "("
            depth -= ch == ")"
            if depth == 0 and i < len(t) - 1:
                break
        else:
            return t
    return "(%s)" % t


def coq_string(node, text):
    if not all(32 <= ord(c) < 127 and c != '"' for c in text):
        raise Bad("line %s: string constant %r is outside the translated alphabet" % (getattr(node, "lineno", "?"), text))
    return '(s "%s")' % text


def is_doc(st):
    return isinstance(st, ast.Expr) and isinstance(st.value, ast.Constant) and isinstance(st.value.value, str)


def logging_call(e):
    if isinstance(e, ast.Call):
        f = e.func
        return isinstance(f, ast.Attribute) and isinstance(f.value, ast.Name) and \
            f.value.id in ("logger", "logging", "LOGGER") and \
            f.attr in ("debug", "info", "warning", "error", "critical", "exception")
    return False


def self_attr(e, name=None):
    return isinstance(e, ast.Attribute) and isinstance(e.value, ast.Name) and e.value.id == "self" and \
        (name is None or e.attr == name)


def exc_class(e):
    """class name of the exception a `raise` builds, or None"""
    if isinstance(e, ast.Call):
        e = e.func
    if isinstance(e, ast.Name):
        return e.id
    if isinstance(e, ast.Attribute) and isinstance(e.value, ast.Name) and e.value.id == "jsonschema":
        return e.attr
    return None


# ----------------------------------------------------------------------------
# translation context
# ----------------------------------------------------------------------------
class Shared:
    """what all the forks of one function's context share"""

    def __init__(self):
        self.n = 0
        self.site = 0


class Cx:
    def __init__(self, src, fn, frame):
        self.src = src
        self.fn = fn
        self.frame = frame            # Frame: how `self`, calls and sites are read in this function
        self.sh = Shared()
        self.vars = {}                # python variable -> sort
        self.order = []               # variables in definition order
        self.known = {}               # text of a partial operation that succeeded on this path -> its variable
        self.isstr = {}               # jv variable known to be a string on this path -> the string's variable
        self.tainted = set()          # sets handed to a method that mutates them
        self.excvars = set()
        self.copies = set()           # locals holding a private copy of a loaded value (deepcopy)
        self.ret = "unit"             # sort of the function's value ('unit': returns None)

    def fork(self):
        c = Cx(self.src, self.fn, self.frame)
        c.sh = self.sh
        c.vars = dict(self.vars)
        c.order = list(self.order)
        c.known = dict(self.known)
        c.isstr = dict(self.isstr)
        c.tainted = set(self.tainted)
        c.excvars = set(self.excvars)
        c.copies = set(self.copies)
        c.ret = self.ret
        return c

    def bad(self, node, why):
        raise Bad("%s: line %s (%s): %s" % (self.src, getattr(node, "lineno", "?"), self.fn.name, why))

    def fresh(self):
        self.sh.n += 1
        return "t%d" % self.sh.n

    def define(self, node, name, sort):
        if name in self.vars and self.vars[name] != sort:
            self.bad(node, "variable `%s` changes from %s to %s" % (name, self.vars[name], sort))
        if name not in self.vars:
            self.order.append(name)
        self.vars[name] = sort
        self.forget(name)

    def forget(self, name):
        """the variable is re-bound: nothing known about the old value survives"""
        g = G(name)
        tok = re.compile(r"(?<![\w'])%s(?![\w'])" % re.escape(g))
        for k in [k for k, v in self.known.items() if v == g or tok.search(k)]:
            del self.known[k]
        self.isstr.pop(name, None)
        for k in [k for k, v in self.isstr.items() if v == g]:
            del self.isstr[k]

    def site_label(self, node):
        labels = self.frame.sites
        if self.sh.site >= len(labels):
            self.bad(node, "a diagnostic site the model has no label for: `%s`" % src_of(node))
        self.sh.site += 1
        return labels[self.sh.site - 1]


def bind(cx, pre, op, cse=True):
    """one partial operation in evaluation order; re-evaluations on the same path are shared"""
    if cse and op in cx.known:
        return cx.known[op]
    v = cx.fresh()
    pre.append("%s <- %s ;;" % (v, op))
    if cse:
        cx.known[op] = v
    return v


def to_str(cx, node, term, sort, pre):
    if sort == "str":
        return term
    if sort == "jv":
        v = bind(cx, pre, "as_str %s" % atom(term))
        if isinstance(node, ast.Name):
            cx.isstr[node.id] = v
        return v
    cx.bad(node, "`%s` (%s) is used where a string is needed" % (src_of(node), sort))


def to_jv(cx, node, term, sort):
    if sort == "jv":
        return term
    if sort == "str":
        return "(JStr %s)" % atom(term)
    if sort == "none":
        return "JNull"
    cx.bad(node, "`%s` (%s) is used where a loaded value is needed" % (src_of(node), sort))


# ----------------------------------------------------------------------------
# frames: how one class's methods read `self`, calls and diagnostic sites
# ----------------------------------------------------------------------------
class Frame:
    def __init__(self, sites=(), state=None, state_sort=None):
        self.sites = list(sites)
        self.state = state            # python-side name of the state variable standing for the modelled part of self
        self.state_sort = state_sort

    # --- hooks; return None when the expression is not theirs
    def self_attr(self, cx, e, pre):
        return None

    def call(self, cx, e, pre):
        return None

    def stmt(self, cx, st, pre):
        """a statement with a model effect -> list of (python variable re-bound, or None) ; None if not theirs"""
        return None

    def assigned(self, cx, st):
        """extra variables a statement re-binds (for loop / join state)"""
        return []

    def droppable(self, cx, st):
        return False


# ----------------------------------------------------------------------------
# expressions
# ----------------------------------------------------------------------------
def ex(cx, e, pre):
    """-> (term, sort); bindings of partial sub-expressions are appended to pre"""
    if isinstance(e, ast.Constant):
        if isinstance(e.value, str):
            if not all(32 <= ord(c) < 127 and c != '"' for c in e.value):
                return "msg", "msg"          # only ever a message text
            return coq_string(e, e.value), "str"
        if e.value is None:
            return "JNull", "none"
        if isinstance(e.value, bool):
            return ("true" if e.value else "false"), "bool"
        if isinstance(e.value, int):
            return "(%d)%%Z" % e.value, "int"
        cx.bad(e, "constant `%s`" % src_of(e))
    if isinstance(e, ast.UnaryOp) and isinstance(e.op, ast.USub) and isinstance(e.operand, ast.Constant) and \
            isinstance(e.operand.value, int) and not isinstance(e.operand.value, bool):
        return "(-%d)%%Z" % e.operand.value, "int"
    if isinstance(e, ast.Name):
        if e.id in cx.tainted:
            cx.bad(e, "`%s` was handed to a method that mutates it; its later value is not modelled" % e.id)
        if e.id in cx.vars:
            return G(e.id), cx.vars[e.id]
        r = cx.frame.self_attr(cx, e, pre)
        if r:
            return r
        cx.bad(e, "unknown variable `%s`" % e.id)
    if isinstance(e, ast.JoinedStr):
        for v in e.values:
            if isinstance(v, ast.FormattedValue):
                ex(cx, v.value, pre)
        return "msg", "msg"
    if isinstance(e, ast.Attribute):
        r = cx.frame.self_attr(cx, e, pre)
        if r:
            return r
        if isinstance(e.value, ast.Name) and e.value.id in cx.excvars and e.attr == "args":
            return "msg", "msg"
        if isinstance(e.value, ast.Name) and cx.vars.get(e.value.id) == "step":
            if e.attr == "real_name":
                return bind(cx, pre, "step_real_name %s" % G(e.value.id)), "str"
            if e.attr == "name":
                return "msg", "msg"          # nickname or _name: only ever logged
            if e.attr == "run":
                return G(e.value.id), "run"
        if isinstance(e.value, ast.Name) and cx.vars.get(e.value.id) == "envobj":
            if e.attr == "name":
                return bind(cx, pre, "item_name %s" % G(e.value.id)), "optstr"
            if e.attr in ("value", "token", "source", "__dict__"):
                return "msg", "msg"          # read for logging and the label bookkeeping only
        cx.bad(e, "attribute `%s`" % src_of(e))
    if isinstance(e, ast.Subscript):
        r = cx.frame.self_attr(cx, e, pre)
        if r:
            return r
        b, bs = ex(cx, e.value, pre)
        if bs == "schemas":
            if isinstance(e.slice, ast.Constant) and e.slice.value in SCHEMA_NAMES:
                return e.slice.value, "schema"
            cx.bad(e, "schema `%s` is not one of the regenerated ones" % src_of(e.slice))
        k, ks = ex(cx, e.slice, pre)
        if bs == "jv" and ks == "str":
            return bind(cx, pre, "getitem %s %s" % (atom(b), atom(k))), "jv"
        if bs == "run" and ks == "str":
            return bind(cx, pre, "run_getitem step_run_defaults_gen %s %s" % (atom(b), atom(k))), "jv"
        cx.bad(e, "subscript `%s` (%s[%s])" % (src_of(e), bs, ks))
    if isinstance(e, ast.IfExp):
        p1, p2 = [], []
        c = cond(cx, e.test, pre)
        c1, c2 = cx.fork(), cx.fork()
        a, sa = ex(c1, e.body, p1)
        b, sb = ex(c2, e.orelse, p2)
        if "msg" in (sa, sb):
            cx.bad(e, "conditional message `%s`" % src_of(e))
        a, b = to_jv(c1, e.body, a, sa), to_jv(c2, e.orelse, b, sb)
        v = cx.fresh()
        pre.append("%s <- (if %s then %s else %s) ;;" % (v, c, seq(p1, "Ok " + atom(a)), seq(p2, "Ok " + atom(b))))
        return v, "jv"
    if isinstance(e, (ast.Compare, ast.BoolOp)) or (isinstance(e, ast.UnaryOp) and isinstance(e.op, ast.Not)):
        return cond(cx, e, pre), "bool"
    if isinstance(e, ast.List):
        if e.elts and all(isinstance(x, ast.Constant) and isinstance(x.value, str) for x in e.elts):
            return "[%s]" % "; ".join(coq_string(x, x.value) for x in e.elts), "strlist"
        if not e.elts:
            return "[]", "emptylist"
        cx.bad(e, "list display `%s`" % src_of(e))
    if isinstance(e, ast.Call):
        return call(cx, e, pre)
    cx.bad(e, "expression `%s`" % src_of(e))


def seq(pre, last):
    return " ".join(pre + [last])


def is_format(e):
    return isinstance(e, ast.Call) and isinstance(e.func, ast.Attribute) and e.func.attr == "format"


def effects(cx, e, pre):
    """evaluate an expression whose value is dropped (a message, a log argument)"""
    t, srt = ex(cx, e, pre)
    return srt


def call(cx, e, pre):
    f = e.func
    # "...".format(args): a message
    if is_format(e):
        _, s0 = ex(cx, f.value, pre)
        if s0 not in ("str", "msg"):
            cx.bad(e, "format on `%s`" % src_of(f.value))
        for a in list(e.args) + [k.value for k in e.keywords]:
            effects(cx, a, pre)
        return "msg", "msg"
    r = cx.frame.call(cx, e, pre)
    if r:
        return r
    if e.keywords:
        cx.bad(e, "call with keywords `%s`" % src_of(e))
    if isinstance(f, ast.Name):
        n, args = f.id, e.args
        if n == "isinstance" and len(args) == 2 and isinstance(args[1], ast.Name):
            t, srt = ex(cx, args[0], pre)
            tests = {"dict": "is_dict", "list": "is_list", "str": "is_str"}
            if srt == "jv" and args[1].id in tests:
                return "%s %s" % (tests[args[1].id], atom(t)), "bool"
            cx.bad(e, "type test `%s`" % src_of(e))
        if n == "len" and len(args) == 1:
            t, srt = ex(cx, args[0], pre)
            if srt == "jv":
                return bind(cx, pre, "py_len %s" % atom(t)), "int"
            if srt == "jvset":
                return "set_len %s" % atom(t), "int"
            cx.bad(e, "len of `%s` (%s)" % (src_of(args[0]), srt))
        if n == "set" and not args:
            return "set_empty", "sset"
        if n == "set" and len(args) == 1:
            t, srt = ex(cx, args[0], pre)
            if srt == "jv":
                return bind(cx, pre, "py_set %s" % atom(t)), "jvset"
            cx.bad(e, "set of `%s` (%s)" % (src_of(args[0]), srt))
        if n == "deepcopy" and len(args) == 1:
            return ex(cx, args[0], pre)
        if n in ("str", "type") and len(args) == 1:
            effects(cx, args[0], pre)
            return "msg", "msg"
    if isinstance(f, ast.Attribute) and not e.args and f.attr == "items":
        t, srt = ex(cx, f.value, pre)
        if srt == "jv":
            return bind(cx, pre, "items %s" % atom(t)), "items"
        if srt == "run":
            cx.bad(e, "iteration over a step's run dictionary")
    if isinstance(f, ast.Attribute) and f.attr == "get" and len(e.args) == 1:
        t, srt = ex(cx, f.value, pre)
        k, ks = ex(cx, e.args[0], pre)
        if srt == "jv" and ks == "str":
            return bind(cx, pre, "py_get %s %s" % (atom(t), atom(k))), "jv"
    cx.bad(e, "call `%s`" % src_of(e))


def cond(cx, e, pre):
    """a condition -> bool term"""
    if isinstance(e, ast.BoolOp):
        is_and = isinstance(e.op, ast.And)
        acc = cond(cx, e.values[0], pre)
        for v in e.values[1:]:
            sub = []
            c2 = cx.fork()
            t = cond(c2, v, sub)
            if not sub:
                acc = "%s %s %s" % (atom(acc) if (" || " in acc or " && " in acc) else acc,
                                    "&&" if is_and else "||",
                                    atom(t) if (" || " in t or " && " in t) else t)
            else:
                # the right operand is only evaluated when the left one does not decide
                x = cx.fresh()
                if is_and:
                    pre.append("%s <- (if %s then %s else Ok false) ;;" % (x, acc, seq(sub, "Ok " + atom(t))))
                else:
                    pre.append("%s <- (if %s then Ok true else %s) ;;" % (x, acc, seq(sub, "Ok " + atom(t))))
                acc = x
        return acc
    if isinstance(e, ast.UnaryOp) and isinstance(e.op, ast.Not):
        return "negb " + atom(cond(cx, e.operand, pre))
    if isinstance(e, ast.Compare):
        if len(e.ops) != 1:
            cx.bad(e, "chained comparison")
        l, op, r = e.left, e.ops[0], e.comparators[0]
        if isinstance(op, (ast.In, ast.NotIn)):
            a, sa = ex(cx, l, pre)
            b, sb = ex(cx, r, pre)
            if sb == "jv" and isinstance(r, ast.Name) and r.id in cx.isstr:
                # substring test on a value known to be a string
                if not (isinstance(l, ast.Constant) and isinstance(l.value, str) and len(l.value) == 1):
                    cx.bad(e, "substring test `%s`" % src_of(e))
                t = "str_has_char %d %s" % (ord(l.value), cx.isstr[r.id])
            elif sb == "jv":
                t = bind(cx, pre, "contains %s %s" % (atom(to_str(cx, l, a, sa, pre)), atom(b)))
            elif sb in ("sset", "env") and sa == "optstr":
                t = "opt_mem %s %s" % (atom(a), atom(b))
            elif sb in ("sset", "env"):
                t = "mem_str %s %s" % (atom(to_str(cx, l, a, sa, pre)), atom(b))
            elif sb == "run":
                t = "run_contains step_run_defaults_gen %s %s" % (atom(to_str(cx, l, a, sa, pre)), atom(b))
            else:
                cx.bad(e, "membership test `%s` (%s in %s)" % (src_of(e), sa, sb))
            return t if isinstance(op, ast.In) else "negb " + atom(t)
        if isinstance(op, (ast.Eq, ast.NotEq)):
            a, sa = ex(cx, l, pre)
            b, sb = ex(cx, r, pre)
            if sa == "int" and sb == "int":
                t = "Z.eqb %s %s" % (atom(a), atom(b))
            elif sa in ("str", "jv") and sb in ("str", "jv"):
                t = "str_eqb %s %s" % (atom(to_str(cx, l, a, sa, pre)), atom(to_str(cx, r, b, sb, pre)))
            else:
                cx.bad(e, "comparison `%s` (%s, %s)" % (src_of(e), sa, sb))
            return t if isinstance(op, ast.Eq) else "negb " + atom(t)
        cx.bad(e, "comparison `%s`" % src_of(e))
    t, srt = ex(cx, e, pre)
    if srt == "bool":
        return t
    if srt == "jv":
        return "truthy %s" % atom(t)
    if srt == "str":
        return "truthy_str %s" % atom(t)
    if srt == "optstr":
        return "opt_truthy %s" % atom(t)
    cx.bad(e, "truth value of `%s` (%s)" % (src_of(e), srt))


# ----------------------------------------------------------------------------
# statements
# ----------------------------------------------------------------------------
MUTATORS = ("add", "append", "pop", "extend", "update", "remove", "discard", "clear", "insert", "setdefault",
            "add_parameter", "add_node", "add_edge")


def is_message(cx, e):
    """an expression that only builds a message text"""
    if isinstance(e, ast.Constant) and isinstance(e.value, str):
        return True
    if isinstance(e, ast.JoinedStr) or is_format(e):
        return True
    if isinstance(e, ast.Name) and cx.vars.get(e.id) == "msg":
        return True
    if isinstance(e, ast.BinOp) and isinstance(e.op, (ast.Add, ast.Mod)):
        return is_message(cx, e.left)
    return False


def message(cx, e, pre):
    """evaluate a message-building expression for its effects"""
    if isinstance(e, ast.BinOp):
        message(cx, e.left, pre)
        if is_message(cx, e.right):
            message(cx, e.right, pre)
        else:
            for x in (e.right.elts if isinstance(e.right, ast.Tuple) else [e.right]):
                effects(cx, x, pre)
        return
    effects(cx, e, pre)


def assigned(cx, stmts):
    """python variables (already defined) a statement list re-binds, in definition order"""
    out = set()

    def base(t):
        while isinstance(t, (ast.Subscript, ast.Attribute)):
            t = t.value
        return t.id if isinstance(t, ast.Name) else None

    for st in stmts:
        for n in ast.walk(st):
            if isinstance(n, (ast.Assign, ast.AugAssign)):
                for t in (n.targets if isinstance(n, ast.Assign) else [n.target]):
                    for x in (t.elts if isinstance(t, ast.Tuple) else [t]):
                        b = base(x)
                        if b:
                            out.add(b)
            if isinstance(n, ast.Call) and isinstance(n.func, ast.Attribute) and n.func.attr in MUTATORS:
                b = base(n.func.value)
                if b:
                    out.add(b)
            if isinstance(n, (ast.stmt,)):
                out.update(cx.frame.assigned(cx, n))
    if "self" in out:
        out.discard("self")
        if cx.frame.state:
            for st in stmts:
                for n in ast.walk(st):
                    if isinstance(n, ast.stmt) and cx.frame.assigned(cx, n):
                        out.add(cx.frame.state)
    return [v for v in cx.order if v in out]


def terminates(stmts):
    """every path through the statement list ends in return / raise / continue"""
    for st in stmts:
        if isinstance(st, (ast.Return, ast.Raise, ast.Continue)):
            return True
        if isinstance(st, ast.If) and st.orelse and terminates(st.body) and terminates(st.orelse):
            return True
        if isinstance(st, ast.Try) and not st.finalbody and not st.orelse and terminates(st.body):
            return True
    return False


def escapes(stmts):
    """a return / continue / break somewhere inside (not inside a nested loop for continue / break)"""
    for st in stmts:
        for n in ast.walk(st):
            if isinstance(n, (ast.Return, ast.Break, ast.Continue)):
                return True
    return False


def pat(vs):
    if not vs:
        return "_"
    if len(vs) == 1:
        return G(vs[0])
    return "'(%s)" % ", ".join(G(v) for v in vs)


def tup(vs):
    if not vs:
        return "tt"
    if len(vs) == 1:
        return G(vs[0])
    return "(%s)" % ", ".join(G(v) for v in vs)


def fall(cx, node, k):
    """falling off the end of the current block"""
    if k[0] in ("loop", "join"):
        return "Ok " + tup(k[1])
    if cx.ret == "unit":
        return "Ok tt"
    if cx.ret == "state":
        return "Ok " + G(cx.frame.state)
    cx.bad(node, "%s must return a value on every path" % cx.fn.name)


def raise_term(cx, st):
    cls = exc_class(st.exc)
    pre = []
    if isinstance(st.exc, ast.Call):
        for a in st.exc.args:
            if is_message(cx, a):
                message(cx, a, pre)
            else:
                effects(cx, a, pre)
        if st.exc.keywords:
            cx.bad(st, "raise with keywords")
    if st.cause is not None:
        cx.bad(st, "raise ... from")
    if cls in DIAG_CLASSES:
        return pre, "Err (Diag %s)" % cx.site_label(st)
    if cls in INTERNAL_CLASSES:
        return pre, "Err Internal"
    cx.bad(st, "unknown raise `%s`" % src_of(st))


def transparent_try(cx, st):
    """try: BODY except Exception as e: <logging>; raise   ->  BODY"""
    if st.orelse or st.finalbody or len(st.handlers) != 1:
        return None
    h = st.handlers[0]
    if not (isinstance(h.type, ast.Name) and h.type.id == "Exception"):
        return None
    body = [x for x in h.body if not (isinstance(x, ast.Expr) and logging_call(x.value))]
    if len(body) != 1 or not isinstance(body[0], ast.Raise) or body[0].cause is not None:
        return None
    r = body[0].exc
    if not (r is None or (isinstance(r, ast.Name) and r.id == h.name)):
        return None
    for x in h.body:          # the logged expressions may only mention the exception
        if isinstance(x, ast.Expr):
            for a in x.value.args:
                if not (D(a) == P("%s.args" % h.name) or D(a) == P(str(h.name)) or
                        (isinstance(a, ast.Constant) and isinstance(a.value, str))):
                    return None
    return list(st.body)


def block(cx, stmts, ind, k):
    """Translate a statement list in tail position of a `res` expression; returns lines."""
    pad = "  " * ind
    stmts = [s_ for s_ in stmts if not is_doc(s_) and not isinstance(s_, ast.Pass)]
    if not stmts:
        return [pad + fall(cx, cx.fn, k)]
    st, rest = stmts[0], stmts[1:]
    pre = []

    def out(lines_pre, tail_lines):
        return [pad + x for x in lines_pre] + tail_lines

    # --- logging: the arguments are evaluated ------------------------------------
    if isinstance(st, ast.Expr) and logging_call(st.value):
        for a in list(st.value.args) + [kw.value for kw in st.value.keywords]:
            if is_message(cx, a):
                message(cx, a, pre)
            else:
                effects(cx, a, pre)
        return out(pre, block(cx, rest, ind, k))

    # --- statements that only touch parts of an object the model does not have ----------
    if cx.frame.droppable(cx, st):
        return block(cx, rest, ind, k)

    # --- terminators -------------------------------------------------------------
    if isinstance(st, ast.Return):
        if k[0] != "fn":
            cx.bad(st, "return inside a loop or a joined branch")
        if st.value is None:
            return [pad + fall(cx, st, k)]
        t, srt = ex(cx, st.value, pre)
        if cx.ret == "state":
            cx.bad(st, "%s returns a value" % cx.fn.name)
        if srt != cx.ret:
            cx.bad(st, "%s returns `%s` (%s), expected %s" % (cx.fn.name, src_of(st.value), srt, cx.ret))
        return out(pre, [pad + "Ok " + atom(t)])
    if isinstance(st, ast.Raise):
        p, t = raise_term(cx, st)
        return out(p, [pad + t])
    if isinstance(st, ast.Continue):
        if k[0] != "loop":
            cx.bad(st, "continue outside a loop body's own level")
        return [pad + "Ok " + tup(k[1])]
    if isinstance(st, ast.Break):
        cx.bad(st, "break")

    # --- try ---------------------------------------------------------------------
    if isinstance(st, ast.Try):
        body = transparent_try(cx, st)
        if body is None:
            cx.bad(st, "only `try: ... except Exception as e: <log>; raise` is translated")
        return block(cx, body + rest, ind, k)

    # --- if ----------------------------------------------------------------------
    if isinstance(st, ast.If):
        c = cond(cx, st.test, pre)
        tb, te = terminates(st.body), bool(st.orelse) and terminates(st.orelse)
        if tb or te or not rest:
            cb, ce = cx.fork(), cx.fork()
            a = block(cb, list(st.body) + ([] if tb else rest), ind + 1, k)
            b_stmts = list(st.orelse) + ([] if te else rest)
            b = block(ce, b_stmts, ind + (0 if tb else 1), k)
            if tb and len(a) == 1:
                return out(pre, [pad + "if %s then %s else" % (c, a[0].strip())] + b)
            return out(pre, [pad + "if %s then" % c] + a + [pad + "else"] + b)
        # a join over the locals the branches re-bind
        if escapes(list(st.body) + list(st.orelse)):
            cx.bad(st, "return / continue inside a branch that falls through")
        vs = assigned(cx, list(st.body) + list(st.orelse))
        kj = ("join", vs)
        a = block(cx.fork(), list(st.body), ind + 2, kj)
        b = block(cx.fork(), list(st.orelse), ind + 2, kj)
        for v in vs:
            cx.forget(v)
        lines = [pad + "%s <- (if %s then" % (pat(vs), c)] + a + [pad + "  else"] + b
        lines[-1] += ") ;;"
        return out(pre, lines + block(cx, rest, ind, k))

    # --- for ---------------------------------------------------------------------
    if isinstance(st, ast.For):
        if st.orelse:
            cx.bad(st, "for ... else")
        if escapes([x for x in st.body if not isinstance(x, ast.Continue)]) and \
                any(isinstance(n, (ast.Return, ast.Break)) for x in st.body for n in ast.walk(x)):
            cx.bad(st, "return / break inside a loop")
        body_cx = None
        it = st.iter
        if isinstance(it, ast.Call) and isinstance(it.func, ast.Attribute) and it.func.attr == "items" and \
                not it.args and not it.keywords:
            l, srt = ex(cx, it, pre)
            if srt != "items" or not (isinstance(st.target, ast.Tuple) and len(st.target.elts) == 2 and
                                      all(isinstance(x, ast.Name) for x in st.target.elts)):
                cx.bad(st, "unsupported form of items loop")
            kv = [x.id for x in st.target.elts]
            comb, binders, sorts = "for_items", kv, ["str", "jv"]
        else:
            l, srt = ex(cx, it, pre)
            if not isinstance(st.target, ast.Name):
                cx.bad(st, "unsupported loop target")
            if srt == "jv":
                l = bind(cx, pre, "iter %s" % atom(l))
                sorts = ["jv"]
            elif srt == "strlist":
                sorts = ["str"]
            elif srt == "errors":
                sorts = ["error"]
            else:
                cx.bad(st, "cannot iterate over `%s` (%s)" % (src_of(it), srt))
            comb, binders = "for_in", [st.target.id]
        vs = assigned(cx, st.body)
        for b_ in binders:
            if b_ in vs:
                cx.bad(st, "the loop variable `%s` is re-bound" % b_)
        body_cx = cx.fork()
        for b_, s_ in zip(binders, sorts):
            body_cx.vars.pop(b_, None)
            body_cx.define(st, b_, s_)
        body = block(body_cx, st.body, ind + 1, ("loop", vs))
        body[-1] += ")"
        for v in vs:
            cx.forget(v)
        head = pad + "%s <- %s %s (fun %s %s =>" % (pat(vs), comb, atom(l), " ".join(G(b_) for b_ in binders), pat(vs))
        return out(pre, [head] + body + [pad + "  %s ;;" % tup(vs)] + block(cx, rest, ind, k))

    # --- frame-specific statements ---------------------------------------------------
    r = cx.frame.stmt(cx, st, pre)
    if r is not None:
        return out(pre, block(cx, rest, ind, k))

    # --- assignments -----------------------------------------------------------------
    if isinstance(st, ast.Assign) and len(st.targets) == 1 and isinstance(st.targets[0], ast.Name):
        x = st.targets[0].id
        if is_message(cx, st.value):
            message(cx, st.value, pre)
            if x in cx.vars and cx.vars[x] != "msg":
                cx.bad(st, "`%s` is reused for a message" % x)
            cx.vars[x] = "msg"
            return out(pre, block(cx, rest, ind, k))
        n0 = cx.sh.n
        t, srt = ex(cx, st.value, pre)
        if isinstance(st.value, ast.Call) and isinstance(st.value.func, ast.Name) and st.value.func.id == "deepcopy":
            cx.copies.add(x)
        else:
            cx.copies.discard(x)
        if srt == "msg":
            cx.vars[x] = "msg"
            return out(pre, block(cx, rest, ind, k))
        if srt in ("none", "emptylist", "run", "items", "errors", "schemas") and srt != "errors":
            if srt == "none" and cx.frame.none_sort(x):
                srt = cx.frame.none_sort(x)
                t = "None"
            elif srt == "emptylist" and cx.frame.list_sort(x):
                srt = cx.frame.list_sort(x)
            else:
                cx.bad(st, "`%s = %s` (%s)" % (x, src_of(st.value), srt))
        if x in cx.vars and cx.vars[x] == "msg":
            cx.bad(st, "`%s` was a message" % x)
        if pre and re.match(r"^t\d+$", t) and cx.sh.n > n0 and pre[-1].startswith(t + " <- ") and \
                int(t[1:]) == cx.sh.n:
            # the value is the operation just bound: bind it under the python name
            op = pre[-1][len(t) + 4:-3]
            pre[-1] = "%s <- %s ;;" % (G(x), op)
            cx.sh.n -= 1
            cx.define(st, x, srt)
            for k_, v_ in list(cx.known.items()):
                if v_ == t:
                    cx.known[k_] = G(x)
            for k_, v_ in list(cx.isstr.items()):
                if v_ == t:
                    cx.isstr[k_] = G(x)
        else:
            cx.define(st, x, srt)
            pre.append("let %s := %s in" % (G(x), t))
        return out(pre, block(cx, rest, ind, k))

    # --- calls for their effect on a local ------------------------------------------------
    if isinstance(st, ast.Expr) and isinstance(st.value, ast.Call):
        c = st.value
        f = c.func
        if isinstance(f, ast.Attribute) and isinstance(f.value, ast.Name) and f.value.id in cx.vars and not c.keywords:
            x, srt = f.value.id, cx.vars[f.value.id]
            if srt == "sset" and f.attr == "add" and len(c.args) == 1:
                a, sa = ex(cx, c.args[0], pre)
                a = to_str(cx, c.args[0], a, sa, pre)
                cx.define(st, x, srt)
                pre.append("let %s := set_add %s %s in" % (G(x), atom(a), G(x)))
                return out(pre, block(cx, rest, ind, k))
            if srt == "steps" and f.attr == "append" and len(c.args) == 1:
                a, sa = ex(cx, c.args[0], pre)
                if sa != "step":
                    cx.bad(st, "only StudyStep objects are collected")
                cx.define(st, x, srt)
                pre.append("let %s := list_append %s %s in" % (G(x), G(x), atom(a)))
                return out(pre, block(cx, rest, ind, k))
            if srt == "jv" and f.attr == "pop" and len(c.args) == 1 and x in cx.copies:
                a, sa = ex(cx, c.args[0], pre)
                if sa != "str":
                    cx.bad(st, "pop of a non-constant key")
                op = "dict_pop %s %s" % (G(x), atom(a))
                cx.define(st, x, srt)
                pre.append("%s <- %s ;;" % (G(x), op))
                return out(pre, block(cx, rest, ind, k))
        ex(cx, c, pre)                 # a call for its effect: the bindings are in pre, the value is dropped
        return out(pre, block(cx, rest, ind, k))

    cx.bad(st, "unknown statement `%s`" % src_of(st))


Frame.none_sort = lambda self, x: None
Frame.list_sort = lambda self, x: None


# ----------------------------------------------------------------------------
# class YAMLSpecification
# ----------------------------------------------------------------------------
SPEC_FIELDS = {"description": "sp_desc sp", "environment": "sp_env sp", "study": "sp_study sp",
               "globals": "sp_globals sp"}

# method -> (generated name, parameter sorts, return sort)
SPEC_METHODS = {
    "verify_description": ("verify_description_gen", ["schema"], "unit"),
    "_verify_variables": ("verify_variables_gen", [], "sset"),
    "_verify_sources": ("verify_sources_gen", [], "unit"),
    "_verify_dependencies": ("verify_dependencies_gen", ["sset"], "sset"),
    "verify_environment": ("verify_environment_gen", ["schema"], "unit"),
    "_verify_steps": ("verify_steps_gen", ["schema"], "unit"),
    "verify_study": ("verify_study_gen", ["schema"], "unit"),
    "verify_parameters": ("verify_parameters_gen", ["schema"], "unit"),
    "verify": ("verify_gen", [], "unit"),
    "get_study_environment": ("get_study_environment_gen", [], "env"),
    "get_parameters": ("get_parameters_gen", [], "pgen"),
    "get_study_steps": ("get_study_steps_gen", [], "steps"),
}

SPEC_SITES = {
    "verify_description": ["DSchemaDescription"],
    "_verify_variables": ["DVarName", "DVarValue", "DDupVar"],
    "_verify_sources": [],
    "_verify_dependencies": ["DDupDepName"],
    "verify_environment": ["DSchemaEnv"],
    "_verify_steps": ["DSchemaStep"],
    "verify_study": ["DNoSteps", "DStudyNotList"],
    "verify_parameters": ["DParamsNotMap", "DParamDup", "DSchemaParam", "DLabelLen", "DLabelDup", "DParamLen"],
    "verify": [],
    "get_study_environment": [],
    "get_parameters": [],
    "get_study_steps": [],
}

ENV_CTORS = {"Variable": ("new_Variable", ["str", "jv"]), "Script": ("new_Script", ["jv"]),
             "PathDependency": ("new_PathDependency", ["jv", "jv"])}


class SpecFrame(Frame):
    def __init__(self, name):
        Frame.__init__(self, SPEC_SITES[name])

    def none_sort(self, x):
        return None

    def list_sort(self, x):
        return "steps" if x == "steps" else None

    def self_attr(self, cx, e, pre):
        if self_attr(e) and e.attr in SPEC_FIELDS:
            return SPEC_FIELDS[e.attr], "jv"
        if self_attr(e, "name"):
            return bind(cx, pre, "name_gen sp"), "jv"
        return None

    def call(self, cx, e, pre):
        f = e.func
        # YAMLSpecification.validate_schema(parent_key, instance, schema)
        if isinstance(f, ast.Attribute) and f.attr == "validate_schema" and isinstance(f.value, ast.Name) and \
                f.value.id in ("YAMLSpecification", "self", "cls"):
            if len(e.args) != 3 or e.keywords:
                cx.bad(e, "validate_schema is called with other than (parent_key, instance, schema)")
            if is_message(cx, e.args[0]):
                message(cx, e.args[0], pre)
            else:
                effects(cx, e.args[0], pre)
            i, si = ex(cx, e.args[1], pre)
            sc, ss = ex(cx, e.args[2], pre)
            if ss != "schema":
                cx.bad(e, "`%s` is not a schema" % src_of(e.args[2]))
            lab = cx.site_label(e)
            pre.append("validate_schema_gen %s %s %s ;;;" % (lab, atom(to_jv(cx, e.args[1], i, si)), atom(sc)))
            return "tt", "unit"
        # self.<method>(...)
        if self_attr(f) and f.attr in SPEC_METHODS and not e.keywords:
            gen, sorts, ret = SPEC_METHODS[f.attr]
            if len(e.args) != len(sorts):
                cx.bad(e, "self.%s is called with %d arguments" % (f.attr, len(e.args)))
            args = []
            for a, s_ in zip(e.args, sorts):
                t, srt = ex(cx, a, pre)
                if srt != s_:
                    cx.bad(e, "argument `%s` of self.%s is %s, expected %s" % (src_of(a), f.attr, srt, s_))
                args.append(atom(t))
                if s_ == "sset" and isinstance(a, ast.Name):
                    cx.tainted.add(a.id)
            v = bind(cx, pre, " ".join([gen, "sp"] + args), cse=False)
            return v, ret
        # the objects the consumers build
        if isinstance(f, ast.Name) and not e.keywords and not e.args:
            if f.id == "StudyEnvironment":
                return "new_StudyEnvironment", "env"
            if f.id == "ParameterGenerator":
                return "new_ParameterGenerator", "pgen"
            if f.id == "StudyStep":
                return "new_StudyStep", "step"
        if isinstance(f, ast.Attribute) and isinstance(f.value, ast.Name) and f.value.id == "environment":
            if f.attr in ENV_CTORS and not e.keywords:
                gen, sorts = ENV_CTORS[f.attr]
                if len(e.args) != len(sorts):
                    cx.bad(e, "environment.%s is called with %d arguments" % (f.attr, len(e.args)))
                args = []
                for a, s_ in zip(e.args, sorts):
                    t, srt = ex(cx, a, pre)
                    args.append(atom(to_jv(cx, a, t, srt) if s_ == "jv" else to_str(cx, a, t, srt, pre)))
                return bind(cx, pre, " ".join([gen] + args), cse=False), "envobj"
            if f.attr == "GitDependency":
                if len(e.args) != 3 or len(e.keywords) != 1 or e.keywords[0].arg is not None:
                    cx.bad(e, "environment.GitDependency is called with other than (name, url, path, **optionals)")
                args = []
                for a in list(e.args) + [e.keywords[0].value]:
                    t, srt = ex(cx, a, pre)
                    args.append(atom(to_jv(cx, a, t, srt)))
                return bind(cx, pre, " ".join(["new_GitDependency"] + args), cse=False), "envobj"
        return None

    def stmt(self, cx, st, pre):
        # env.add(obj) / params.add_parameter(key, values, label[, name])
        if isinstance(st, ast.Expr) and isinstance(st.value, ast.Call) and isinstance(st.value.func, ast.Attribute) \
                and isinstance(st.value.func.value, ast.Name) and not st.value.keywords:
            c, f = st.value, st.value.func
            x = f.value.id
            if cx.vars.get(x) == "env" and f.attr == "add" and len(c.args) == 1:
                a, sa = ex(cx, c.args[0], pre)
                if sa != "envobj":
                    cx.bad(st, "`%s` is not an environment object" % src_of(c.args[0]))
                cx.define(st, x, "env")
                pre.append("%s <- env_add_gen %s %s ;;" % (G(x), G(x), atom(a)))
                return [x]
            if cx.vars.get(x) == "pgen" and f.attr == "add_parameter" and len(c.args) in (3, 4):
                args = []
                for i, a in enumerate(c.args):
                    t, srt = ex(cx, a, pre)
                    args.append(atom(to_str(cx, a, t, srt, pre) if i == 0 else to_jv(cx, a, t, srt)))
                if len(args) == 3:
                    args.append("JNull")          # name=None
                cx.define(st, x, "pgen")
                pre.append("%s <- add_parameter_gen %s %s ;;" % (G(x), G(x), " ".join(args)))
                return [x]
        # <step>.name = v / <step>.description = v / <step>.run[k] = v
        if isinstance(st, ast.Assign) and len(st.targets) == 1:
            t = st.targets[0]
            if isinstance(t, ast.Attribute) and isinstance(t.value, ast.Name) and cx.vars.get(t.value.id) == "step":
                x = t.value.id
                setters = {"name": "step_set_name", "description": "step_set_description"}
                if t.attr not in setters:
                    cx.bad(st, "store into StudyStep.%s" % t.attr)
                v, sv = ex(cx, st.value, pre)
                cx.define(st, x, "step")
                pre.append("let %s := %s %s %s in" % (G(x), setters[t.attr], atom(to_jv(cx, st.value, v, sv)), G(x)))
                return [x]
            if isinstance(t, ast.Subscript) and isinstance(t.value, ast.Attribute) and t.value.attr == "run" and \
                    isinstance(t.value.value, ast.Name) and cx.vars.get(t.value.value.id) == "step":
                x = t.value.value.id
                k_, sk = ex(cx, t.slice, pre)
                v, sv = ex(cx, st.value, pre)
                if sk != "str":
                    cx.bad(st, "run key `%s` is not a mapping key" % src_of(t.slice))
                cx.define(st, x, "step")
                pre.append("let %s := run_setitem %s %s %s in" % (G(x), atom(k_), atom(to_jv(cx, st.value, v, sv)), G(x)))
                return [x]
        return None


def params(cx_or_src, fn, names, decorators=()):
    a = fn.args
    decs = [src_of(d) for d in fn.decorator_list]
    if a.vararg or a.kwarg or a.kwonlyargs or getattr(a, "posonlyargs", None) or decs != list(decorators) or \
            [x.arg for x in a.args] != list(names):
        raise Bad("%s: line %s: signature of %s changed" % (cx_or_src, fn.lineno, fn.name))


def find_class(src, tree, name):
    for n in tree.body:
        if isinstance(n, ast.ClassDef) and n.name == name:
            return n
    raise Bad("%s: class %s not found" % (src, name))


def methods(src, cls):
    out = {}
    for n in cls.body:
        if isinstance(n, ast.FunctionDef):
            key = n.name
            for d in n.decorator_list:
                if isinstance(d, ast.Attribute) and d.attr == "setter":
                    key = n.name + ".setter"
            if key in out:
                raise Bad("%s: line %s: %s.%s is defined twice" % (src, n.lineno, cls.name, key))
            out[key] = n
    return out


def need(src, cls, ms, name):
    if name not in ms:
        raise Bad("%s: method %s.%s not found" % (src, cls.name, name))
    return ms[name]


def definition(comment, head, body):
    body = list(body)
    body[-1] += "."
    return ["(* %s *)" % comment, head] + body


VERIFY_PREAMBLE = [
    "dirpath = os.path.dirname(os.path.abspath(__file__))",
    'schema_path = os.path.join(dirpath, "schemas")',
    'schema_path = os.path.join(schema_path, "yamlspecification.json")',
    'with open(schema_path, "r") as json_file:\n    schemas = json.load(json_file)',
]


def gen_spec_method(fn, name):
    gen, sorts, ret = SPEC_METHODS[name]
    pnames = [x.arg for x in fn.args.args]
    params(SRC_SPEC, fn, pnames)
    if len(pnames) != len(sorts) + 1 or pnames[0] != "self":
        raise Bad("%s: line %s: signature of %s changed" % (SRC_SPEC, fn.lineno, fn.name))
    if fn.args.defaults:
        raise Bad("%s: line %s: %s has default arguments" % (SRC_SPEC, fn.lineno, fn.name))
    cx = Cx(SRC_SPEC, fn, SpecFrame(name))
    cx.ret = ret
    for p, s_ in zip(pnames[1:], sorts):
        cx.define(fn, p, s_)
    body = list(fn.body)
    if name == "verify":
        body = [x for x in body if not is_doc(x)]
        if [D(x) for x in body[:4]] != [P(x, "exec") for x in VERIFY_PREAMBLE]:
            cx.bad(fn, "verify no longer loads schemas/yamlspecification.json the way tdata_enums reads it")
        body = body[4:]
        cx.vars["schemas"] = "schemas"
    lines = block(cx, body, 1, ("fn",))
    # fewer sites than labels: a guard is gone; the text (and the tie lemma) shows it
    sig = "".join(" (%s : %s)" % (G(p), COQ_TYPES[s_]) for p, s_ in zip(pnames[1:], sorts))
    return definition("YAMLSpecification.%s" % name,
                      "Definition %s (sp : spec)%s : res %s :=" % (gen, sig, atom(COQ_TYPES[ret])), lines)


def gen_validate_schema(fn):
    """validate_schema: the first error the validator reports is re-raised as a diagnostic"""
    params(SRC_SPEC, fn, ["parent_key", "instance", "schema"], ["staticmethod"])
    body = [x for x in fn.body if not is_doc(x)]
    if len(body) != 3 or D(body[0]) != P("validator = jsonschema.Draft7Validator(schema)", "exec") or \
            D(body[1]) != P("errors = validator.iter_errors(instance)", "exec") or \
            not isinstance(body[2], ast.For) or D(body[2].target) != P("error") or D(body[2].iter) != P("errors") or \
            body[2].orelse:
        raise Bad("%s: line %s: validate_schema is no longer `for error in Draft7Validator(schema)."
                  "iter_errors(instance): <raise>`" % (SRC_SPEC, fn.lineno))

    def all_raise(stmts):
        """every path through the formatter ends in a raise of a diagnostic class"""
        for st in stmts:
            if isinstance(st, ast.Raise):
                if exc_class(st.exc) not in ("ValidationError", "ValueError") or st.cause is not None:
                    raise Bad("%s: line %s: the formatter raises `%s`" % (SRC_SPEC, st.lineno, src_of(st)))
                return True
            if isinstance(st, ast.If):
                a, b = all_raise(st.body), all_raise(st.orelse)
                if a and b:
                    return True
                continue
            if isinstance(st, ast.Assign) and all(isinstance(t, ast.Name) for t in st.targets):
                continue            # pieces of the message text
            raise Bad("%s: line %s: statement `%s` in the error formatter" % (SRC_SPEC, st.lineno, src_of(st)))
        return False

    if not all_raise(body[2].body):
        raise Bad("%s: line %s: some schema error is no longer re-raised by validate_schema"
                  % (SRC_SPEC, body[2].lineno))
    return definition(
        "YAMLSpecification.validate_schema: every path through the body of the loop over the validator's errors "
        "raises ValidationError / ValueError; [d] labels the call site",
        "Definition validate_schema_gen (d : diag) (instance : jv) (schema_ : schema) : res unit :=",
        ["  let errors := iter_errors schema_ instance in",
         "  _ <- for_in errors (fun error _ =>",
         "    Err (Diag d))",
         "    tt ;;",
         "  Ok tt"])


def gen_name_property(ms, cls):
    fn = need(SRC_SPEC, cls, ms, "name")
    params(SRC_SPEC, fn, ["self"], ["property"])
    cx = Cx(SRC_SPEC, fn, SpecFrame("verify"))
    cx.ret = "jv"
    # the property body must not use itself
    for n in ast.walk(fn):
        if self_attr(n, "name"):
            cx.bad(n, "the name property reads itself")
    lines = block(cx, fn.body, 1, ("fn",))
    return definition("YAMLSpecification.name (property)", "Definition name_gen (sp : spec) : res jv :=", lines)


# ----------------------------------------------------------------------------
# YAMLSpecification.__init__ / load_specification_from_stream
# ----------------------------------------------------------------------------
SPEC_SETTERS = {"description": "spec_set_description", "environment": "spec_set_environment",
                "study": "spec_set_study", "globals": "spec_set_globals"}
SPEC_UNMODELLED = ("path", "batch")

LOAD_TRY = """try:
    spec = yaml.load(stream, yaml.FullLoader)
except AttributeError:
    logger.warning("x")
    spec = yaml.load(stream)
"""


def literal(cx, e):
    """a default value written as a display -> jv literal"""
    if isinstance(e, ast.Dict) and all(isinstance(k_, ast.Constant) and isinstance(k_.value, str) for k_ in e.keys):
        return "JObj [%s]" % "; ".join("(%s, %s)" % (coq_string(k_, k_.value), literal(cx, v_))
                                       for k_, v_ in zip(e.keys, e.values))
    if isinstance(e, ast.List):
        return "JArr [%s]" % "; ".join(literal(cx, x) for x in e.elts)
    if isinstance(e, ast.Constant) and isinstance(e.value, str):
        return "JStr %s" % ("[]" if e.value == "" else coq_string(e, e.value))
    if isinstance(e, ast.Constant) and e.value is None:
        return "JNull"
    cx.bad(e, "default value `%s`" % src_of(e))


class LoadFrame(Frame):
    def __init__(self):
        Frame.__init__(self, ["DTop"])

    def call(self, cx, e, pre):
        f = e.func
        # spec.pop(key, default) on the mapping the loader returned
        if isinstance(f, ast.Attribute) and f.attr == "pop" and isinstance(f.value, ast.Name) and \
                f.value.id in cx.copies and cx.vars.get(f.value.id) == "jv" and len(e.args) == 2 and not e.keywords:
            x = f.value.id
            k_, sk = ex(cx, e.args[0], pre)
            if sk != "str":
                cx.bad(e, "pop of a non-constant key")
            d = literal(cx, e.args[1])
            v = cx.fresh()
            pre.append("'(%s, %s) <- dict_pop_default %s %s %s ;;" % (v, G(x), G(x), atom(k_), atom(d)))
            cx.forget(x)
            return v, "jv"
        if isinstance(f, ast.Name) and f.id == "cls" and not e.args and not e.keywords:
            return "new_specification_gen", "specrec"
        if isinstance(f, ast.Attribute) and isinstance(f.value, ast.Name) and \
                cx.vars.get(f.value.id) == "specrec" and f.attr == "verify" and not e.args and not e.keywords:
            return bind(cx, pre, "verify_gen %s" % G(f.value.id), cse=False), "unit"
        return None

    def stmt(self, cx, st, pre):
        if isinstance(st, ast.Assign) and len(st.targets) == 1 and isinstance(st.targets[0], ast.Attribute) and \
                isinstance(st.targets[0].value, ast.Name) and cx.vars.get(st.targets[0].value.id) == "specrec":
            x, a = st.targets[0].value.id, st.targets[0].attr
            v, sv = ex(cx, st.value, pre)
            if a in SPEC_UNMODELLED:
                return []
            if a not in SPEC_SETTERS:
                cx.bad(st, "store into YAMLSpecification.%s" % a)
            cx.define(st, x, "specrec")
            pre.append("let %s := %s %s %s in" % (G(x), SPEC_SETTERS[a], atom(to_jv(cx, st.value, v, sv)), G(x)))
            return [x]
        return None


def gen_load(ms, cls):
    init = need(SRC_SPEC, cls, ms, "__init__")
    params(SRC_SPEC, init, ["self"])
    cx0 = Cx(SRC_SPEC, init, Frame())
    fields = {}
    for st in init.body:
        if is_doc(st):
            continue
        if not (isinstance(st, ast.Assign) and len(st.targets) == 1 and self_attr(st.targets[0])):
            cx0.bad(st, "`%s`" % src_of(st))
        fields[st.targets[0].attr] = literal(cx0, st.value)
    if sorted(fields) != sorted(list(SPEC_SETTERS) + list(SPEC_UNMODELLED)):
        cx0.bad(init, "the attributes of a specification changed: %s" % sorted(fields))
    d0 = definition("YAMLSpecification.__init__",
                    "Definition new_specification_gen : spec :=",
                    ["  {| sp_desc := %s; sp_env := %s; sp_study := %s; sp_globals := %s |}" % (
                        fields["description"], fields["environment"], fields["study"], fields["globals"])])
    fn = need(SRC_SPEC, cls, ms, "load_specification_from_stream")
    params(SRC_SPEC, fn, ["cls", "stream"], ["classmethod"])
    body = [x for x in fn.body if not is_doc(x)]
    cx = Cx(SRC_SPEC, fn, LoadFrame())
    first = body[0] if body else None
    want = ast.parse(LOAD_TRY).body[0]
    ok = isinstance(first, ast.Try) and not first.orelse and not first.finalbody and len(first.handlers) == 1 and \
        [D(x) for x in first.body] == [D(x) for x in want.body] and D(first.handlers[0].type) == P("AttributeError") and \
        first.handlers[0].name is None and \
        [D(x) for x in first.handlers[0].body if not (isinstance(x, ast.Expr) and logging_call(x.value))] == \
        [D(want.handlers[0].body[1])]
    if not ok:
        cx.bad(fn, "the stream is no longer loaded by yaml.load(stream[, yaml.FullLoader])")
    cx.ret = "specrec"
    cx.define(fn, "spec", "jv")
    cx.copies.add("spec")
    lines = block(cx, body[1:], 1, ("fn",))
    d1 = definition("YAMLSpecification.load_specification_from_stream; [spec_] is what yaml.load returned "
                    "(Json.yaml_load of the document)",
                    "Definition load_specification_gen (spec_ : jv) : res spec :=", lines)
    return [d0, d1]


# ----------------------------------------------------------------------------
# study.py: constants, StudyStep, Study.add_step; dag.py: add_node / add_edge guards
# ----------------------------------------------------------------------------
def module_constants(src, tree):
    out = {}
    for n in tree.body:
        if isinstance(n, ast.Assign) and len(n.targets) == 1 and isinstance(n.targets[0], ast.Name):
            out[n.targets[0].id] = n.value
    return out


def gen_study_constants(tree):
    cs = module_constants(SRC_STUDY, tree)
    src = cs.get("SOURCE")
    if not (isinstance(src, ast.Constant) and isinstance(src.value, str)):
        raise Bad("%s: SOURCE is not a string constant" % SRC_STUDY)
    combos = cs.get("ALL_COMBOS")
    if combos is None or D(combos) != P('re.compile(r"_\\*|\\*")'):
        raise Bad("%s: ALL_COMBOS is no longer re.compile(r\"_\\*|\\*\") (strip_stars)" % SRC_STUDY)
    return definition("study.SOURCE", "Definition source_gen : str :=", ["  " + coq_string(src, src.value)])


def gen_step_class(tree):
    cls = find_class(SRC_STUDY, tree, "StudyStep")
    ms = methods(SRC_STUDY, cls)
    init = need(SRC_STUDY, cls, ms, "__init__")
    params(SRC_STUDY, init, ["self"])
    run = None
    name0 = None
    for st in init.body:
        if is_doc(st):
            continue
        if not (isinstance(st, ast.Assign) and len(st.targets) == 1 and self_attr(st.targets[0])):
            raise Bad("%s: line %s: StudyStep.__init__: `%s`" % (SRC_STUDY, st.lineno, src_of(st)))
        if st.targets[0].attr == "run":
            run = st.value
        if st.targets[0].attr == "_name":
            name0 = st.value
    if not (isinstance(name0, ast.Constant) and name0.value == ""):
        raise Bad("%s: StudyStep.__init__ no longer sets _name = \"\"" % SRC_STUDY)
    if not isinstance(run, ast.Dict) or not all(
            isinstance(k_, ast.Constant) and isinstance(k_.value, str) and isinstance(v_, ast.Constant) and
            isinstance(v_.value, str) for k_, v_ in zip(run.keys, run.values)):
        raise Bad("%s: StudyStep.__init__: run is no longer a dictionary of string defaults" % SRC_STUDY)
    rn = need(SRC_STUDY, cls, ms, "real_name")
    params(SRC_STUDY, rn, ["self"], ["property"])
    if [D(x) for x in rn.body if not is_doc(x)] != [P("return self._name", "exec")]:
        raise Bad("%s: StudyStep.real_name is no longer `return self._name`" % SRC_STUDY)
    st_ = need(SRC_STUDY, cls, ms, "name.setter")
    params(SRC_STUDY, st_, ["self", "value"], ["name.setter"])
    if [D(x) for x in st_.body if not is_doc(x)] != [P("self._name = value", "exec")]:
        raise Bad("%s: the setter of StudyStep.name is no longer `self._name = value`" % SRC_STUDY)
    gt = need(SRC_STUDY, cls, ms, "name")
    params(SRC_STUDY, gt, ["self"], ["property"])
    if [D(x) for x in gt.body if not is_doc(x)] != [P("if self.nickname:\n    return self.nickname", "exec"),
                                                    P("return self._name", "exec")]:
        raise Bad("%s: StudyStep.name is no longer `nickname or _name`" % SRC_STUDY)
    items = ["(%s, JStr %s)" % (coq_string(k_, k_.value), "[]" if v_.value == "" else coq_string(v_, v_.value))
             for k_, v_ in zip(run.keys, run.values)]
    return definition("StudyStep.__init__: self.run", "Definition step_run_defaults_gen : list (str * jv) :=",
                      ["  [%s]" % ";\n   ".join(items)])


class DagFrame(Frame):
    """class DAG: the key set shared by self.values and self.adjacency_table is [nodes]"""

    def __init__(self, sites, payload=None):
        Frame.__init__(self, sites, "nodes", "sset")
        self.payload = payload

    def self_attr(self, cx, e, pre):
        if self_attr(e, "values") or self_attr(e, "adjacency_table"):
            return "nodes", "sset"
        return None

    def table_store(self, st):
        if isinstance(st, ast.Assign) and len(st.targets) == 1 and isinstance(st.targets[0], ast.Subscript) and \
                (self_attr(st.targets[0].value, "values") or self_attr(st.targets[0].value, "adjacency_table")):
            return st.targets[0].value.attr, st.targets[0].slice, st.value
        return None

    def assigned(self, cx, st):
        return ["nodes"] if self.table_store(st) else []

    def stmt(self, cx, st, pre):
        tw = self.table_store(st)
        if tw:
            # self.values[n] = obj and self.adjacency_table[n] = [] come as a pair (either order)
            pend = getattr(cx, "pending", None)
            if pend is None:
                cx.pending = tw
                return []
            cx.pending = None
            if {pend[0], tw[0]} != {"values", "adjacency_table"} or D(pend[1]) != D(tw[1]):
                cx.bad(st, "values[n] and adjacency_table[n] must be created together, for the same n")
            val = tw[2] if tw[0] == "values" else pend[2]
            lst = tw[2] if tw[0] == "adjacency_table" else pend[2]
            if not (isinstance(val, ast.Name) and val.id == self.payload) or D(lst) != P("[]"):
                cx.bad(st, "a new node must get the caller's object and an empty successor list")
            n, sn = ex(cx, tw[1], pre)
            cx.define(st, "nodes", "sset")
            pre.append("let nodes := set_add %s nodes in" % atom(to_str(cx, tw[1], n, sn, pre)))
            return ["nodes"]
        return None


def edge_level(st):
    """a statement of add_edge that works on successor lists (Dag/DagGen.v's business)"""
    for n in ast.walk(st):
        if isinstance(n, ast.Subscript) and self_attr(n.value, "adjacency_table"):
            return True
        if isinstance(n, ast.Call) and self_attr(n.func, "detect_cycle"):
            return True
    return False


def gen_dag(tree):
    cls = find_class(SRC_DAG, tree, "DAG")
    ms = methods(SRC_DAG, cls)
    init = need(SRC_DAG, cls, ms, "__init__")
    params(SRC_DAG, init, ["self"])
    if sorted(D(x) for x in init.body if not is_doc(x)) != sorted(
            [P("self.adjacency_table = OrderedDict()", "exec"), P("self.values = OrderedDict()", "exec")]):
        raise Bad("%s: DAG.__init__ no longer creates exactly the two empty ordered dictionaries "
                  "adjacency_table and values" % SRC_DAG)
    # add_node
    fn = need(SRC_DAG, cls, ms, "add_node")
    params(SRC_DAG, fn, ["self", "name", "obj"])
    cx = Cx(SRC_DAG, fn, DagFrame([], payload="obj"))
    cx.ret = "state"
    cx.define(fn, "nodes", "sset")
    cx.define(fn, "name", "str")
    cx.vars["obj"] = "msg"
    lines = block(cx, fn.body, 1, ("fn",))
    if getattr(cx, "pending", None):
        cx.bad(fn, "values[n] is created without adjacency_table[n]")
    d1 = definition("DAG.add_node: [nodes] are the keys of self.values / self.adjacency_table",
                    "Definition dag_add_node_gen (nodes : list str) (name : str) : res (list str) :=", lines)
    # add_edge: the guards in front of the first statement that works on successor lists
    fn = need(SRC_DAG, cls, ms, "add_edge")
    params(SRC_DAG, fn, ["self", "src", "dest"])
    body = [x for x in fn.body if not is_doc(x)]
    i = 0
    while i < len(body) and not edge_level(body[i]):
        i += 1
    head, tail = body[:i], body[i:]
    for st in tail:
        for n in ast.walk(st):
            if isinstance(n, ast.Raise) and exc_class(n.exc) != "Exception":
                raise Bad("%s: line %s: add_edge raises `%s` after it started to work on successor lists"
                          % (SRC_DAG, n.lineno, src_of(n)))
            if isinstance(n, ast.Compare) and any(self_attr(c, "values") or self_attr(c, "adjacency_table")
                                                   for c in n.comparators):
                raise Bad("%s: line %s: add_edge tests node existence after it started to work on successor "
                          "lists" % (SRC_DAG, n.lineno))
            if DagFrame([]).table_store(n) if isinstance(n, ast.stmt) else False:
                raise Bad("%s: line %s: add_edge creates nodes" % (SRC_DAG, n.lineno))
    if not tail:
        raise Bad("%s: add_edge no longer inserts an edge" % SRC_DAG)
    cx = Cx(SRC_DAG, fn, DagFrame(["DUnknownDep"]))
    cx.ret = "unit"
    cx.define(fn, "nodes", "sset")
    cx.define(fn, "src", "str")
    cx.define(fn, "dest", "str")
    lines = block(cx, head, 1, ("fn",))
    d2 = definition("DAG.add_edge: the guards in front of the edge insertion (the insertion, the cycle check and "
                    "its roll-back are Dag/DagGen.v's)",
                    "Definition dag_add_edge_gen (nodes : list str) (src dest : str) : res unit :=", lines)
    return [d1, d2]


class StudyFrame(DagFrame):
    def __init__(self, sites, source):
        DagFrame.__init__(self, sites)
        self.source = source

    def self_attr(self, cx, e, pre):
        r = DagFrame.self_attr(self, cx, e, pre)
        if r:
            return r
        if self_attr(e, "name"):
            return "msg", "msg"
        if isinstance(e, ast.Name) and e.id == "SOURCE":
            return "source_gen", "str"
        return None

    def assigned(self, cx, st):
        if isinstance(st, ast.Expr) and isinstance(st.value, ast.Call) and self_attr(st.value.func, "add_node"):
            return ["nodes"]
        return []

    def call(self, cx, e, pre):
        f = e.func
        if D(f) == P("re.sub") and len(e.args) == 3 and not e.keywords and D(e.args[0]) == P("ALL_COMBOS") and \
                D(e.args[1]) == P('""'):
            t, srt = ex(cx, e.args[2], pre)
            return "re_sub_all_combos %s" % atom(to_str(cx, e.args[2], t, srt, pre)), "str"
        return None

    def stmt(self, cx, st, pre):
        if isinstance(st, ast.Expr) and isinstance(st.value, ast.Call) and not st.value.keywords:
            c = st.value
            if self_attr(c.func, "add_node") and len(c.args) == 2:
                n, sn = ex(cx, c.args[0], pre)
                if not (isinstance(c.args[1], ast.Name) and cx.vars.get(c.args[1].id) == "step") and \
                        not (isinstance(c.args[1], ast.Constant) and c.args[1].value is None):
                    cx.bad(st, "add_node of something else than the step")
                op = "dag_add_node_gen nodes %s" % atom(to_str(cx, c.args[0], n, sn, pre))
                cx.define(st, "nodes", "sset")
                pre.append("nodes <- %s ;;" % op)
                return ["nodes"]
            if self_attr(c.func, "add_edge") and len(c.args) == 2:
                a, sa = ex(cx, c.args[0], pre)
                a = to_str(cx, c.args[0], a, sa, pre)
                b, sb = ex(cx, c.args[1], pre)
                b = to_str(cx, c.args[1], b, sb, pre)
                pre.append("dag_add_edge_gen nodes %s %s ;;;" % (atom(a), atom(b)))
                return []
        # step.__dict__ = apply_function(step.__dict__, self.environment.apply_environment)
        if isinstance(st, ast.Assign) and len(st.targets) == 1:
            t = st.targets[0]
            if isinstance(t, ast.Attribute) and t.attr == "__dict__" and isinstance(t.value, ast.Name) and \
                    cx.vars.get(t.value.id) == "step":
                x = t.value.id
                if D(st.value) != P("apply_function(%s.__dict__, self.environment.apply_environment)" % x):
                    cx.bad(st, "the step's attributes are replaced by `%s`" % src_of(st.value))
                cx.define(st, x, "step")
                pre.append("let %s := apply_environment %s in" % (G(x), G(x)))
                return [x]
        return None


def gen_add_step(tree):
    cls = find_class(SRC_STUDY, tree, "Study")
    if [src_of(b) for b in cls.bases][:1] != ["DAG"]:
        raise Bad("%s: Study is no longer derived from DAG first" % SRC_STUDY)
    ms = methods(SRC_STUDY, cls)
    for m in ("add_node", "add_edge"):
        if m in ms:
            raise Bad("%s: Study overrides DAG.%s" % (SRC_STUDY, m))
    fn = need(SRC_STUDY, cls, ms, "add_step")
    params(SRC_STUDY, fn, ["self", "step"])
    cx = Cx(SRC_STUDY, fn, StudyFrame(["DDupStep", "DSelfDep"], None))
    cx.ret = "state"
    cx.define(fn, "nodes", "sset")
    cx.define(fn, "step", "step")
    lines = block(cx, fn.body, 1, ("fn",))
    d1 = definition("Study.add_step: [nodes] are the keys of self.values",
                    "Definition add_step_gen (nodes : list str) (step : stepobj) : res (list str) :=", lines)
    # Study.__init__: the source node is there before any step, steps are added in order
    init = need(SRC_STUDY, cls, ms, "__init__")
    sup = P("super(Study, self).__init__()", "exec")
    seen = []
    for st in init.body:
        d = D(st)
        if d == sup:
            seen.append("super")
        elif d == P("self.add_node(SOURCE, None)", "exec"):
            seen.append("source")
        elif d == P("if steps:\n    for step in steps:\n        self.add_step(step)", "exec"):
            seen.append("steps")
        elif any(isinstance(n, ast.Call) and (self_attr(n.func, "add_node") or self_attr(n.func, "add_step") or
                                              self_attr(n.func, "add_edge")) for n in ast.walk(st)):
            raise Bad("%s: line %s: Study.__init__: `%s`" % (SRC_STUDY, st.lineno, src_of(st)))
    if seen != ["super", "source", "steps"]:
        raise Bad("%s: Study.__init__ is no longer `DAG.__init__; add_node(SOURCE, None); for step in steps: "
                  "add_step(step)`" % SRC_STUDY)
    d2 = definition("Study.__init__: the source node, then every step in order",
                    "Definition study_nodes_gen (steps : list stepobj) : res (list str) :=",
                    ["  let nodes := set_empty in",
                     "  nodes <- dag_add_node_gen nodes source_gen ;;",
                     "  nodes <- for_in steps (fun step nodes =>",
                     "    nodes <- add_step_gen nodes step ;;",
                     "    Ok nodes)",
                     "    nodes ;;",
                     "  Ok nodes"])
    return [d1, d2]


# ----------------------------------------------------------------------------
# StudyEnvironment.add, ParameterGenerator.add_parameter
# ----------------------------------------------------------------------------
ENV_DROPPED = ("dependencies", "substitutions", "labels", "sources", "_tokens", "_is_set_up")
ENV_CLASSES = {"Dependency": "is_Dependency", "Substitution": "is_Substitution", "Source": "is_Source"}


class DroppingFrame(Frame):
    """a class of which one attribute is modelled and the stores into the others are dropped"""
    dropped = ()
    reads = {}

    def is_dropped_target(self, t):
        while isinstance(t, ast.Subscript):
            t = t.value
        return self_attr(t) and t.attr in self.dropped

    def total(self, cx, e):
        """an expression of a dropped statement: reads only, nothing that can fail behind the class test"""
        for n in ast.walk(e):
            if isinstance(n, (ast.Constant, ast.Load, ast.Store, ast.And, ast.Or, ast.Not, ast.In, ast.NotIn,
                              ast.BoolOp, ast.UnaryOp, ast.Compare, ast.Name, ast.Attribute, ast.GeneratorExp,
                              ast.comprehension, ast.JoinedStr, ast.FormattedValue)):
                continue
            if isinstance(n, ast.Call) and isinstance(n.func, ast.Name) and n.func.id in ("isinstance", "any", "str", "type"):
                continue
            if isinstance(n, ast.Call) and is_format(n):
                continue
            return False
        return True

    def droppable(self, cx, st):
        if isinstance(st, ast.Expr) and logging_call(st.value):
            return all(self.total(cx, a) for a in st.value.args)
        if isinstance(st, ast.Assign) and all(self.is_dropped_target(t) for t in st.targets):
            return self.total(cx, st.value) and all(
                self.total(cx, t.slice) if isinstance(t, ast.Subscript) and self_attr(t.value) else
                self_attr(t) for t in st.targets)
        if isinstance(st, ast.Expr) and isinstance(st.value, ast.Call) and isinstance(st.value.func, ast.Attribute) \
                and st.value.func.attr in ("append", "add") and self.is_dropped_target(st.value.func.value):
            return all(self.total(cx, a) for a in st.value.args)
        if isinstance(st, ast.If):
            return self.total(cx, st.test) and all(self.droppable(cx, x) for x in list(st.body) + list(st.orelse))
        return False

    def stmt(self, cx, st, pre):
        if not (isinstance(st, ast.Expr) and logging_call(st.value)) and self.droppable(cx, st):
            return []
        return None


class EnvFrame(DroppingFrame):
    dropped = ENV_DROPPED

    def __init__(self):
        Frame.__init__(self, ["DDupEnvName"], "names", "env")

    def none_sort(self, x):
        return "optstr" if x == "name" else None

    def self_attr(self, cx, e, pre):
        if self_attr(e, "_names"):
            return "names", "env"
        if self_attr(e) and e.attr in self.dropped:
            return "msg", "msg"
        return None

    def assigned(self, cx, st):
        if isinstance(st, ast.Expr) and isinstance(st.value, ast.Call) and \
                isinstance(st.value.func, ast.Attribute) and self_attr(st.value.func.value, "_names"):
            return ["names"]
        return []

    def call(self, cx, e, pre):
        f = e.func
        if isinstance(f, ast.Name) and f.id == "isinstance" and len(e.args) == 2 and \
                isinstance(e.args[0], ast.Name) and cx.vars.get(e.args[0].id) == "envobj" and \
                isinstance(e.args[1], ast.Name):
            if e.args[1].id not in ENV_CLASSES:
                cx.bad(e, "class test `%s`" % src_of(e))
            return "%s %s" % (ENV_CLASSES[e.args[1].id], G(e.args[0].id)), "bool"
        return None

    def stmt(self, cx, st, pre):
        r = DroppingFrame.stmt(self, cx, st, pre)
        if r is not None:
            return r
        # self._names.add(name)
        if isinstance(st, ast.Expr) and isinstance(st.value, ast.Call) and not st.value.keywords and \
                isinstance(st.value.func, ast.Attribute) and self_attr(st.value.func.value, "_names") and \
                st.value.func.attr == "add" and len(st.value.args) == 1:
            a, sa = ex(cx, st.value.args[0], pre)
            if sa != "optstr":
                cx.bad(st, "`%s` is not the item's name" % src_of(st.value.args[0]))
            cx.define(st, "names", "env")
            pre.append("let names := names_add %s names in" % atom(a))
            return ["names"]
        return None


def gen_env_add(tree):
    cls = find_class(SRC_ENV, tree, "StudyEnvironment")
    ms = methods(SRC_ENV, cls)
    fn = need(SRC_ENV, cls, ms, "add")
    params(SRC_ENV, fn, ["self", "item"])
    cx = Cx(SRC_ENV, fn, EnvFrame())
    cx.ret = "state"
    cx.define(fn, "names", "env")
    cx.define(fn, "item", "envobj")
    lines = block(cx, fn.body, 1, ("fn",))
    return definition("StudyEnvironment.add: [names] is self._names",
                      "Definition env_add_gen (names : list str) (item : envobj) : res (list str) :=", lines)


class ParamFrame(DroppingFrame):
    dropped = ("parameters", "labels", "names", "label_token")

    def __init__(self):
        Frame.__init__(self, ["DParamLen"], "length", "int")

    def self_attr(self, cx, e, pre):
        if self_attr(e, "length"):
            return G("length"), "int"
        if self_attr(e) and e.attr in self.dropped:
            return "msg", "msg"
        return None

    def assigned(self, cx, st):
        if isinstance(st, ast.Assign) and any(self_attr(t, "length") for t in st.targets):
            return ["length"]
        return []

    def droppable(self, cx, st):
        # `if label:` / `if name:` / `if key in self.parameters:` only choose what is stored in dropped tables
        if isinstance(st, ast.If):
            ok_test = self.total(cx, st.test) and not any(self_attr(n, "length") for n in ast.walk(st.test))
            return ok_test and all(self.droppable(cx, x) for x in list(st.body) + list(st.orelse))
        return DroppingFrame.droppable(self, cx, st)

    def stmt(self, cx, st, pre):
        r = DroppingFrame.stmt(self, cx, st, pre)
        if r is not None:
            return r
        if isinstance(st, ast.Assign) and len(st.targets) == 1 and self_attr(st.targets[0], "length"):
            t, srt = ex(cx, st.value, pre)
            if srt != "int":
                cx.bad(st, "self.length = `%s` (%s)" % (src_of(st.value), srt))
            cx.define(st, "length", "int")
            pre.append("let %s := %s in" % (G("length"), t))
            return ["length"]
        return None


def gen_add_parameter(tree):
    cls = find_class(SRC_PARAMS, tree, "ParameterGenerator")
    ms = methods(SRC_PARAMS, cls)
    init = need(SRC_PARAMS, cls, ms, "__init__")
    if not any(D(st) == P("self.length = 0", "exec") for st in init.body):
        raise Bad("%s: ParameterGenerator.__init__ no longer sets length = 0" % SRC_PARAMS)
    fn = need(SRC_PARAMS, cls, ms, "add_parameter")
    params(SRC_PARAMS, fn, ["self", "key", "values", "label", "name"])
    if [D(d) for d in fn.args.defaults] != [P("None"), P("None")]:
        raise Bad("%s: defaults of add_parameter changed" % SRC_PARAMS)
    cx = Cx(SRC_PARAMS, fn, ParamFrame())
    cx.ret = "state"
    cx.define(fn, "length", "int")
    cx.define(fn, "key", "str")
    cx.define(fn, "values", "jv")
    cx.define(fn, "label", "jv")
    cx.define(fn, "name", "jv")
    lines = block(cx, fn.body, 1, ("fn",))
    return definition("ParameterGenerator.add_parameter: [length] is self.length",
                      "Definition add_parameter_gen (%s : Z) (key : str) (%s %s %s : jv) : res Z :=" % (
                          G("length"), G("values"), G("label"), G("name")), lines)


# ----------------------------------------------------------------------------
HEADER = """(** The specification front end of maestrowf, statement by statement.
    GENERATED by translate/tcode_spec.py from /repo's current source
    (yamlspecification.py: the loader, verify, verify_*, validate_schema, the
    consumers;
    study.py: StudyStep, Study.add_step / __init__; dag.py: add_node and the
    guards of add_edge; studyenvironment.py: StudyEnvironment.add;
    parameters.py: ParameterGenerator.add_parameter) as compositions of the
    combinators of Spec/VerifyOps.v over the regenerated schemas of
    Gen/SpecData.v; Spec/VerifyGenProofs.v proves the functions below equal to
    the hand-written model of Spec/Verify.v that the theorems of Props/C13.v are
    about, so an edit of the source that changes what these functions do breaks
    a proof obligation.  Do not edit by hand. *)
From Coq Require Import List ZArith NArith Bool Arith.
From MWF Require Import Base.Str Spec.Json Spec.Schema Gen.SpecData Spec.Verify Spec.VerifyOps.
Import ListNotations.
"""


def parse(repo, rel):
    try:
        return ast.parse(open(os.path.join(repo, rel)).read())
    except (OSError, SyntaxError, ValueError) as e:
        raise NotTranslatable("%s: cannot parse: %s" % (rel, e))


def generate(repo):
    spec_tree = parse(repo, SRC_SPEC)
    study_tree = parse(repo, SRC_STUDY)
    dag_tree = parse(repo, SRC_DAG)
    env_tree = parse(repo, SRC_ENV)
    par_tree = parse(repo, SRC_PARAMS)

    cls = find_class(SRC_SPEC, spec_tree, "YAMLSpecification")
    ms = methods(SRC_SPEC, cls)
    defs = [gen_validate_schema(need(SRC_SPEC, cls, ms, "validate_schema")),
            gen_name_property(ms, cls)]
    for m in ("verify_description", "_verify_variables", "_verify_sources", "_verify_dependencies",
              "verify_environment", "_verify_steps", "verify_study", "verify_parameters", "verify"):
        defs.append(gen_spec_method(need(SRC_SPEC, cls, ms, m), m))
    defs.extend(gen_load(ms, cls))
    defs.append(gen_study_constants(study_tree))
    defs.append(gen_step_class(study_tree))
    defs.extend(gen_dag(dag_tree))
    defs.extend(gen_add_step(study_tree))
    defs.append(gen_env_add(env_tree))
    defs.append(gen_spec_method(need(SRC_SPEC, cls, ms, "get_study_environment"), "get_study_environment"))
    defs.append(gen_add_parameter(par_tree))
    defs.append(gen_spec_method(need(SRC_SPEC, cls, ms, "get_parameters"), "get_parameters"))
    defs.append(gen_spec_method(need(SRC_SPEC, cls, ms, "get_study_steps"), "get_study_steps"))
    text = HEADER
    for d in defs:
        text += "\n" + "\n".join(d) + "\n"
    return {OUT: text}


if __name__ == "__main__":
    import sys
    sys.stdout.write(generate(sys.argv[1] if len(sys.argv) > 1 else "/repo")[OUT])

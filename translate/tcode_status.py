"""T-code for C12: regenerate the Gallina text of the status path as
Status/StatusGen.v.

Sources (parsed with `ast`, never imported):
  maestrowf/datastructures/core/executiongraph.py
      ExecutionGraph.__init__ (`self._status_order = '<kind>'`),
      ExecutionGraph.status_subtree, ExecutionGraph.write_status
  maestrowf/utils.py        csvtable_to_dict
  maestrowf/conductor.py    Conductor.get_status

A fail-closed statement / expression level translator.  Every Python construct
it understands maps to one combinator of Status/StatusOps.v (or to a definition
of Csv.v / Rows.v / Lock.v where that already has the right granularity):

  expressions   string literals, local variables, record attributes of the loop
                variable (value.name, .jobid, .workspace.value, .status.name,
                .run_time, .elapsed_time, .time_start, .time_submitted,
                .time_end, .restarts, .restart_limit, .params[.items()]),
                str(e), list(e), e[-1], e[0], e[-n:], os.path.join(*e | a, b),
                os.path.normpath(e), os.path.split(e)[0|1], e.split(os.sep |
                "<c>"), e.strip("<chars>"), "<sep>".join(e), list displays,
                [fmt.format(a, b) for a, b in e], truth tests of lists / dicts
  statements    x = e; if / else made of assignments (-> one `let` per assigned
                variable); lst.append(e); the row loop `for key in
                self.status_subtree` with `value = self.values[key]`
  frames        status_subtree (cache test, 'bfs' / 'dfs' selection, the filter
                on "_source"); csvtable_to_dict (readlines, pop(0), the header
                loop, the row loop with the `range(len(..))` cell loop)
  lock          (acquire(timeout=<positive>) -> AcqWait, acquire() / `with lock` -> AcqForever,
                acquire(blocking=False) / timeout=0 -> AcqTry)
                the statements after the row loop of write_status and the body
                of get_status are walked in order and produce an ORDERED EVENT
                LIST: os.path.exists, entering `with lock.acquire(..)` / `with
                lock`, entering `with open(path, mode)`, f.write(..),
                csvtable_to_dict(f), leaving the `with`s (innermost first), and
                the Timeout handler of the enclosing `try`.

Python variable names are kept.  Column order, first / last job id,
restart_limit for restarts, a dropped strip, a different separator, opening the
file before the lock is held, a reader without the lock CHANGE the generated
text; Status/StatusGenProofs.v proves the generated definitions equal to the
hand-written models of Rows.v / Csv.v / Lock.v, so such a change breaks a proof
obligation.  Anything outside the templates (a row cache, a new record
property, os.path.relpath, read().splitlines(), ...) raises NotTranslatable.
Logging, doc strings and comments are dropped.
"""
import ast
import os

from translate.regen import NotTranslatable

EXECG = "maestrowf/datastructures/core/executiongraph.py"
UTILS = "maestrowf/utils.py"
COND = "maestrowf/conductor.py"
OUT = "Status/StatusGen.v"

RESERVED = set("""g src order values fuel at as end fun let match with return fix cofix forall exists struct where
using by then else if in Type Prop Set SProp mod s str nat list option bool true false Some None S O
rec graph table parse render join file lock step run init""".split())

# record attribute chain -> (accessor, type)
ATTRS = {
    "name": ("attr_name", "str"),
    "jobid": ("attr_jobid", "strlist"),
    "workspace.value": ("attr_workspace", "str"),
    "status.name": ("attr_status_name", "str"),
    "run_time": ("attr_run_time", "str"),
    "elapsed_time": ("attr_elapsed_time", "str"),
    "time_start": ("attr_time_start", "str"),
    "time_submitted": ("attr_time_submitted", "str"),
    "time_end": ("attr_time_end", "str"),
    "restarts": ("attr_restarts", "int"),
    "restart_limit": ("attr_restart_limit", "int"),
    "params": ("attr_params", "pairs"),
}


class T:
    """translation of one source file (for messages)"""
    src = "?"


def bad(node, why):
    raise NotTranslatable("%s: line %s: %s" % (T.src, getattr(node, "lineno", "?"), why))


def G(name):
    if name == "_":
        return "u_"
    return name + "_" if name in RESERVED or name.endswith("_gen") else name


def g_str(x):
    if x and all(32 <= ord(c) < 127 and c != '"' for c in x):
        return '(s "%s")' % x
    return "[" + "; ".join("%d%%N" % ord(c) for c in x) + "]"


def atom(t):
    if " " not in t or (t[0] == "[" and t[-1] == "]" and t.count("[") == 1):
        return t
    if t[0] == "(" and t[-1] == ")":
        depth = 0
        for i, ch in enumerate(t):
            depth += ch == "("
            depth -= ch == ")"
            if depth == 0 and i < len(t) - 1:
                break
        else:
            return t
    return "(%s)" % t


def src_of(node):
    return ast.unparse(node).split("\n")[0][:80]


def is_doc(st):
    return isinstance(st, ast.Expr) and isinstance(st.value, ast.Constant) and isinstance(st.value.value, str)


def is_logging(st):
    if isinstance(st, ast.Expr) and isinstance(st.value, ast.Call):
        f = st.value.func
        return isinstance(f, ast.Attribute) and isinstance(f.value, ast.Name) and \
            f.value.id in ("LOGGER", "logger", "logging")
    return False


def live(body):
    return [st for st in body if not is_doc(st) and not is_logging(st)]


def const_str(e):
    return e.value if isinstance(e, ast.Constant) and isinstance(e.value, str) else None


def attr_chain(e):
    """a.b.c -> ('a', 'b.c') or None"""
    parts = []
    while isinstance(e, ast.Attribute):
        parts.append(e.attr)
        e = e.value
    if isinstance(e, ast.Name):
        return e.id, ".".join(reversed(parts))
    return None


def is_os_path(e, fn):
    return isinstance(e, ast.Attribute) and e.attr == fn and attr_chain(e.value) == ("os", "path")


def small_int(e):
    if isinstance(e, ast.Constant) and isinstance(e.value, int) and not isinstance(e.value, bool):
        return e.value
    if isinstance(e, ast.UnaryOp) and isinstance(e.op, ast.USub) and isinstance(e.operand, ast.Constant) \
            and isinstance(e.operand.value, int):
        return -e.operand.value
    return None


# ----------------------------------------------------------------------------
# expressions:  expr(env, e) -> (Gallina text, type)
# types: str | int | strlist | pairs | rec | node | table | indices
# ----------------------------------------------------------------------------
def expr(env, e, subst=None):
    if subst:
        for pat, rep in subst:
            if ast.dump(e) == pat:
                return rep
    c = const_str(e)
    if c is not None:
        return g_str(c), "str"
    if isinstance(e, ast.Name):
        if e.id in env:
            return G(e.id), env[e.id]
        bad(e, "unknown variable `%s`" % e.id)
    if isinstance(e, ast.Attribute):
        ch = attr_chain(e)
        if ch and env.get(ch[0]) == "rec":
            if ch[1] in ATTRS:
                acc, ty = ATTRS[ch[1]]
                return "%s %s" % (acc, G(ch[0])), ty
            bad(e, "record attribute `%s` is outside the templates" % ch[1])
        if ch == ("os", "sep"):
            return "os_sep", "str"
        bad(e, "attribute `%s` is outside the templates" % src_of(e))
    if isinstance(e, ast.List):
        items = [expr(env, x, subst) for x in e.elts]
        if any(t != "str" for _x, t in items):
            bad(e, "list display with a non-string element (%s)" % ", ".join(t for _x, t in items))
        return "[" + "; ".join(x for x, _t in items) + "]", "strlist"
    if isinstance(e, ast.ListComp):
        if len(e.generators) != 1 or e.generators[0].ifs or e.generators[0].is_async:
            bad(e, "list comprehension outside the templates")
        gen = e.generators[0]
        it, ity = expr(env, gen.iter, subst)
        if ity != "pairs" or not (isinstance(gen.target, ast.Tuple) and len(gen.target.elts) == 2
                                  and all(isinstance(x, ast.Name) for x in gen.target.elts)):
            bad(e, "list comprehension is not `for a, b in <dict>.items()`")
        a, b = [x.id for x in gen.target.elts]
        env2 = dict(env)
        env2[a] = env2[b] = "str"
        body, bty = expr(env2, e.elt, subst)
        if bty != "str":
            bad(e, "list comprehension element is not a string")
        return "map (fun '(%s, %s) => %s) %s" % (G(a), G(b), body, atom(it)), "strlist"
    if isinstance(e, ast.Subscript):
        sl = e.slice
        if isinstance(e.value, ast.Call) and is_os_path(e.value.func, "split") and len(e.value.args) == 1:
            p, pty = expr(env, e.value.args[0], subst)
            k = small_int(sl)
            if pty == "str" and k in (0, 1):
                return "%s %s" % ("os_path_split_tail" if k == 1 else "os_path_split_head", atom(p)), "str"
            bad(e, "os.path.split(..)[..] outside the templates")
        v, vty = expr(env, e.value, subst)
        if vty != "strlist":
            bad(e, "subscript of a %s" % vty)
        k = small_int(sl)
        if k == -1:
            return "item_last %s" % atom(v), "str"
        if k == 0:
            return "item_first %s" % atom(v), "str"
        if isinstance(sl, ast.Slice) and sl.upper is None and sl.step is None and small_int(sl.lower) is not None \
                and small_int(sl.lower) < 0:
            return "last_n %d %s" % (-small_int(sl.lower), atom(v)), "strlist"
        bad(e, "subscript `%s` outside the templates" % src_of(e))
    if isinstance(e, ast.Call):
        f = e.func
        if e.keywords:
            bad(e, "keyword arguments outside the templates")
        if isinstance(f, ast.Name) and f.id == "str" and len(e.args) == 1:
            a, ty = expr(env, e.args[0], subst)
            if ty == "str":
                return "py_str %s" % atom(a), "str"
            if ty == "int":
                return "py_str_int %s" % atom(a), "str"
            bad(e, "str() of a %s" % ty)
        if isinstance(f, ast.Name) and f.id == "list" and len(e.args) == 1:
            a, ty = expr(env, e.args[0], subst)
            if ty in ("pairs", "strlist"):
                return a, ty
            bad(e, "list() of a %s" % ty)
        if is_os_path(f, "join"):
            if len(e.args) == 1 and isinstance(e.args[0], ast.Starred):
                a, ty = expr(env, e.args[0].value, subst)
                if ty == "strlist":
                    return "os_path_join %s" % atom(a), "str"
            elif e.args and not any(isinstance(x, ast.Starred) for x in e.args):
                items = [expr(env, x, subst) for x in e.args]
                if all(t == "str" for _x, t in items):
                    return "os_path_join [%s]" % "; ".join(x for x, _t in items), "str"
            bad(e, "os.path.join call outside the templates")
        if is_os_path(f, "normpath") and len(e.args) == 1:
            a, ty = expr(env, e.args[0], subst)
            if ty == "str":
                return "os_path_normpath %s" % atom(a), "str"
            bad(e, "os.path.normpath of a %s" % ty)
        if isinstance(f, ast.Attribute):
            if f.attr == "items" and not e.args:
                a, ty = expr(env, f.value, subst)
                if ty == "pairs":
                    return a, "pairs"
                bad(e, ".items() of a %s" % ty)
            if f.attr == "join" and len(e.args) == 1 and const_str(f.value) is not None:
                a, ty = expr(env, e.args[0], subst)
                if ty == "strlist":
                    return "py_join %s %s" % (g_str(f.value.value), atom(a)), "str"
                bad(e, "join of a %s" % ty)
            if f.attr == "format" and const_str(f.value) is not None and e.args:
                items = [expr(env, x, subst) for x in e.args]
                if all(t == "str" for _x, t in items):
                    return "py_format %s [%s]" % (g_str(f.value.value), "; ".join(x for x, _t in items)), "str"
                bad(e, "format of non-strings")
            if f.attr == "split" and len(e.args) == 1:
                a, ty = expr(env, f.value, subst)
                sep, sty = expr(env, e.args[0], subst)
                lit = const_str(e.args[0])
                if ty == "str" and sty == "str" and (lit is None or len(lit) == 1):
                    return "py_split %s %s" % (atom(sep), atom(a)), "strlist"
                bad(e, "split outside the templates (one-character separator only)")
            if f.attr == "strip" and len(e.args) == 1 and const_str(e.args[0]) is not None:
                a, ty = expr(env, f.value, subst)
                if ty == "str":
                    return "py_strip %s %s" % (g_str(e.args[0].value), atom(a)), "str"
                bad(e, "strip of a %s" % ty)
        bad(e, "call `%s` is outside the templates" % src_of(e))
    bad(e, "expression `%s` is outside the templates" % src_of(e))


def cond(env, e):
    if isinstance(e, ast.UnaryOp) and isinstance(e.op, ast.Not):
        return "negb %s" % atom(cond(env, e.operand))
    a, ty = expr(env, e)
    if ty in ("strlist", "pairs"):
        return "nonempty %s" % atom(a)
    bad(e, "truth test of a %s" % ty)


# ----------------------------------------------------------------------------
# straight-line statements -> `let` lines
# ----------------------------------------------------------------------------
def assigned(body):
    out = []
    for st in body:
        if isinstance(st, ast.Assign) and len(st.targets) == 1 and isinstance(st.targets[0], ast.Name):
            if st.targets[0].id not in out:
                out.append(st.targets[0].id)
        else:
            bad(st, "only plain assignments are understood inside an `if` here")
    return out


def branch_value(env, body, name, ind):
    """the value `name` has after the assignments of `body` (None = unchanged)"""
    env = dict(env)
    val = None
    for st in body:
        v, ty = expr(env, st.value)
        tgt = st.targets[0].id
        env[tgt] = ty
        if tgt == name:
            val = (v, ty)
        else:
            bad(st, "an `if` branch that assigns several variables is outside the templates")
    return val


def statements(env, body, ind, carried=None):
    """-> list of text lines; env is updated.  `carried`: the list variable the
    enclosing loop threads (the only one `.append` may be applied to)."""
    out = []
    pad = " " * ind
    for st in body:
        if isinstance(st, ast.Assign) and len(st.targets) == 1 and isinstance(st.targets[0], ast.Name):
            v, ty = expr(env, st.value)
            env[st.targets[0].id] = ty
            out.append("%slet %s := %s in" % (pad, G(st.targets[0].id), v))
        elif isinstance(st, ast.If):
            c = cond(env, st.test)
            names = assigned(st.body)
            for n in assigned(st.orelse):
                if n not in names:
                    names.append(n)
            if len(names) != 1:
                bad(st, "an `if` must assign exactly one variable here")
            n = names[0]
            tv = branch_value(env, st.body, n, ind)
            ev = branch_value(env, st.orelse, n, ind) if st.orelse else None
            if tv is None or (ev is None and n not in env):
                bad(st, "`%s` may be unassigned after this `if`" % n)
            ty = tv[1]
            if (ev and ev[1] != ty) or (not ev and env.get(n) != ty):
                bad(st, "`%s` has different types on the two paths" % n)
            out.append("%slet %s := if %s then %s else %s in" % (pad, G(n), c, tv[0], ev[0] if ev else G(n)))
            env[n] = ty
        elif isinstance(st, ast.Expr) and isinstance(st.value, ast.Call) and \
                isinstance(st.value.func, ast.Attribute) and st.value.func.attr == "append" and \
                isinstance(st.value.func.value, ast.Name) and len(st.value.args) == 1 and not st.value.keywords:
            lst = st.value.func.value.id
            if lst != carried or env.get(lst) != "strlist":
                bad(st, "`%s.append` is outside the templates here" % lst)
            v, ty = expr(env, st.value.args[0])
            if ty != "str":
                bad(st, "appending a %s" % ty)
            out.append("%slet %s := list_append %s %s in" % (pad, G(lst), G(lst), atom(v)))
        else:
            bad(st, "statement `%s` is outside the templates" % src_of(st))
    return out


# ----------------------------------------------------------------------------
# the lock discipline: ordered events
# ----------------------------------------------------------------------------
class Paths:
    def __init__(self, dirparam):
        self.dir = dirparam
        self.files = {}      # variable -> file name
        self.locks = {}      # variable -> lock file name


def path_assign(ps, st):
    """stat_path = os.path.join(<dir>, "<name>") | lock = FileLock(<path var>)  -> True when consumed"""
    if not (isinstance(st, ast.Assign) and len(st.targets) == 1 and isinstance(st.targets[0], ast.Name)):
        return False
    v = st.value
    name = st.targets[0].id
    if isinstance(v, ast.Call) and is_os_path(v.func, "join") and len(v.args) == 2 and not v.keywords and \
            isinstance(v.args[0], ast.Name) and v.args[0].id == ps.dir and const_str(v.args[1]) is not None:
        if name in ps.files or name in ps.locks:
            bad(st, "path variable `%s` is assigned twice" % name)
        ps.files[name] = v.args[1].value
        return True
    if isinstance(v, ast.Call) and isinstance(v.func, ast.Name) and v.func.id == "FileLock":
        if len(v.args) == 1 and not v.keywords and isinstance(v.args[0], ast.Name) and v.args[0].id in ps.files:
            if name in ps.files or name in ps.locks:
                bad(st, "lock variable `%s` is assigned twice" % name)
            ps.locks[name] = ps.files[v.args[0].id]
            return True
        bad(st, "FileLock(..) call outside the templates")
    return False


def acquire_mode(call):
    """lock.acquire(<args>) -> AcqWait | AcqForever | AcqTry  (filelock's signature:
    acquire(timeout=None, poll_interval=0.05, *, poll_intervall=None, blocking=None))"""
    def num(e):
        if isinstance(e, ast.Constant) and isinstance(e.value, (int, float)) and not isinstance(e.value, bool):
            return e.value
        if isinstance(e, ast.UnaryOp) and isinstance(e.op, ast.USub) and isinstance(e.operand, ast.Constant) \
                and isinstance(e.operand.value, (int, float)):
            return -e.operand.value
        return None
    args = {}
    if len(call.args) > 1:
        bad(call, "acquire(..) with more than one positional argument")
    if call.args:
        args["timeout"] = call.args[0]
    for k in call.keywords:
        if k.arg in args or k.arg not in ("timeout", "blocking", "poll_interval"):
            bad(call, "acquire(..) argument `%s` is outside the templates" % k.arg)
        args[k.arg] = k.value
    blocking = args.get("blocking")
    if blocking is not None:
        if not (isinstance(blocking, ast.Constant) and isinstance(blocking.value, bool)):
            bad(call, "acquire(blocking=..) is not a literal")
        if blocking.value is False:
            return "AcqTry"
    if "timeout" not in args:
        return "AcqForever"
    to = num(args["timeout"])
    if to is None:
        bad(call, "acquire(timeout=..) is not a numeric literal")
    return "AcqWait" if to > 0 else ("AcqTry" if to == 0 else "AcqForever")


def with_item(ps, item, handles):
    """-> (enter event, exit event)"""
    ce = item.context_expr
    if isinstance(ce, ast.Call) and isinstance(ce.func, ast.Attribute) and ce.func.attr == "acquire" and \
            isinstance(ce.func.value, ast.Name) and ce.func.value.id in ps.locks:
        return "EAcquire %s %s" % (g_str(ps.locks[ce.func.value.id]), acquire_mode(ce)), "ERelease"
    if isinstance(ce, ast.Name) and ce.id in ps.locks:
        return "EAcquire %s AcqForever" % g_str(ps.locks[ce.id]), "ERelease"
    if isinstance(ce, ast.Call) and isinstance(ce.func, ast.Name) and ce.func.id == "open" and not ce.keywords and \
            len(ce.args) == 2 and isinstance(ce.args[0], ast.Name) and ce.args[0].id in ps.files and \
            const_str(ce.args[1]) is not None and isinstance(item.optional_vars, ast.Name):
        handles.add(item.optional_vars.id)
        return "EOpen %s %s" % (g_str(ps.files[ce.args[0].id]), g_str(ce.args[1].value)), "EClose"
    bad(ce, "`with %s` is outside the templates" % src_of(ce))


def events(ps, body, io, handles=None):
    """walk statements in order -> (event list, handler or None).  io(st, handles)
    recognises the file I/O statement and returns its event, else None."""
    handles = set() if handles is None else handles
    evs, handler = [], None
    for st in live(body):
        if path_assign(ps, st):
            continue
        if isinstance(st, ast.Try):
            if st.orelse or st.finalbody or len(st.handlers) != 1 or handler is not None:
                bad(st, "try statement outside the templates")
            h = st.handlers[0]
            if not (isinstance(h.type, ast.Name) and h.type.id == "Timeout" and h.name is None
                    and len(h.body) == 1 and isinstance(h.body[0], ast.Pass)):
                bad(st, "the handler is not `except Timeout: pass`")
            inner, ih = events(ps, st.body, io, handles)
            if ih is not None:
                bad(st, "nested try")
            evs += inner
            handler = "HPass"
        elif isinstance(st, ast.With):
            pairs = [with_item(ps, it, handles) for it in st.items]
            evs += [p[0] for p in pairs]
            inner, ih = events(ps, st.body, io, handles)
            if ih is not None:
                bad(st, "try inside with")
            evs += inner
            evs += [p[1] for p in reversed(pairs)]
        elif isinstance(st, ast.Pass):
            continue
        else:
            ev = io(st, handles)
            if ev is None:
                bad(st, "statement `%s` is outside the templates" % src_of(st))
            evs.append(ev)
    return evs, handler


def g_events(name, evs):
    return "Definition %s : list levent :=\n  [%s]." % (name, ";\n   ".join(evs))


# ----------------------------------------------------------------------------
# ExecutionGraph.status_subtree / write_status
# ----------------------------------------------------------------------------
def find_class(tree, name):
    cs = [n for n in tree.body if isinstance(n, ast.ClassDef) and n.name == name]
    if len(cs) != 1:
        raise NotTranslatable("%s: class %s not found" % (T.src, name))
    return cs[0]


def find_fn(scope, name):
    fs = [n for n in scope.body if isinstance(n, ast.FunctionDef) and n.name == name]
    if len(fs) != 1:
        raise NotTranslatable("%s: expected one function %s, found %d" % (T.src, name, len(fs)))
    return fs[0]


def self_attr(e, name):
    return isinstance(e, ast.Attribute) and e.attr == name and isinstance(e.value, ast.Name) and e.value.id == "self"


def gen_status_subtree(cls):
    init = find_fn(cls, "__init__")
    kinds = [st.value for st in ast.walk(init) if isinstance(st, ast.Assign) and len(st.targets) == 1
             and self_attr(st.targets[0], "_status_order")]
    others = [st for st in ast.walk(cls) if isinstance(st, (ast.Assign, ast.AugAssign))
              and any(self_attr(t, "_status_order") for t in (st.targets if isinstance(st, ast.Assign) else [st.target]))]
    if len(kinds) != 1 or const_str(kinds[0]) is None or len(others) != 1:
        raise NotTranslatable("%s: `self._status_order` is not assigned exactly once, a literal, in __init__" % T.src)
    kind = kinds[0].value
    fn = find_fn(cls, "status_subtree")
    body = live(fn.body)
    if not (len(body) == 2 and isinstance(body[0], ast.If) and not body[0].orelse
            and isinstance(body[0].test, ast.UnaryOp) and isinstance(body[0].test.op, ast.Not)
            and self_attr(body[0].test.operand, "_status_subtree")
            and isinstance(body[1], ast.Return) and self_attr(body[1].value, "_status_subtree")):
        bad(fn, "status_subtree is not `if not self._status_subtree: ..; return self._status_subtree`")
    inner = live(body[0].body)
    if len(inner) != 2 or not isinstance(inner[0], ast.If):
        bad(fn, "status_subtree: cache fill outside the templates")
    # the if / elif chain selecting the traversal
    branches = []
    node = inner[0]
    var = None
    while True:
        t = node.test
        if not (isinstance(t, ast.Compare) and len(t.ops) == 1 and isinstance(t.ops[0], ast.Eq)
                and self_attr(t.left, "_status_order") and const_str(t.comparators[0]) is not None):
            bad(node, "traversal selection is not `self._status_order == '<kind>'`")
        b = live(node.body)
        if not (len(b) == 1 and isinstance(b[0], ast.Assign) and len(b[0].targets) == 1
                and isinstance(b[0].targets[0], ast.Tuple) and len(b[0].targets[0].elts) == 2
                and isinstance(b[0].targets[0].elts[0], ast.Name) and isinstance(b[0].value, ast.Call)
                and isinstance(b[0].value.func, ast.Attribute) and isinstance(b[0].value.func.value, ast.Name)
                and b[0].value.func.value.id == "self"):
            bad(node, "traversal branch is not `<path>, _ = self.<traversal>(..)`")
        v = b[0].targets[0].elts[0].id
        if var not in (None, v):
            bad(node, "the traversal branches assign different variables")
        var = v
        call = b[0].value
        meth = call.func.attr
        roots = [const_str(a) for a in call.args] + [const_str(k.value) for k in call.keywords]
        if meth not in ("bfs_subtree", "dfs_subtree") or not roots or any(r != "_source" for r in roots):
            bad(node, "traversal call `%s` is outside the templates" % src_of(call))
        branches.append((t.comparators[0].value, meth + "_path"))
        if len(node.orelse) == 1 and isinstance(node.orelse[0], ast.If):
            node = node.orelse[0]
        elif not node.orelse:
            break
        else:
            bad(node, "traversal selection has an else branch")
    fill = inner[1]
    ok = (isinstance(fill, ast.Assign) and len(fill.targets) == 1 and self_attr(fill.targets[0], "_status_subtree")
          and isinstance(fill.value, ast.ListComp) and len(fill.value.generators) == 1)
    if ok:
        gen = fill.value.generators[0]
        ok = (isinstance(gen.target, ast.Name) and isinstance(fill.value.elt, ast.Name)
              and fill.value.elt.id == gen.target.id and isinstance(gen.iter, ast.Name) and gen.iter.id == var
              and len(gen.ifs) == 1 and isinstance(gen.ifs[0], ast.Compare) and len(gen.ifs[0].ops) == 1
              and isinstance(gen.ifs[0].ops[0], ast.NotEq) and isinstance(gen.ifs[0].left, ast.Name)
              and gen.ifs[0].left.id == gen.target.id and const_str(gen.ifs[0].comparators[0]) == "_source")
    if not ok:
        bad(fill, "the cache is not filled with `[key for key in %s if key != '_source']`" % var)
    key = fill.value.generators[0].target.id
    sel = "[]"
    for lit, fnname in reversed(branches):
        sel = "if str_eqb status_order_gen %s then %s g src else %s" % (g_str(lit), fnname, sel)
    return "\n".join([
        "(* ExecutionGraph.__init__: self._status_order *)",
        "Definition status_order_gen : str := %s." % g_str(kind),
        "",
        "(* ExecutionGraph.status_subtree (the cache is a recomputation: the graph does not",
        "   change after the first status write); [src] is \"_source\" *)",
        "Definition status_subtree_gen (g : graph) (src : nat) : list nat :=",
        "  let %s := %s in" % (G(var), sel),
        "  filter (fun %s => negb (Nat.eqb %s src)) %s." % (G(key), G(key), G(var)),
    ])


def gen_write_status(cls):
    fn = find_fn(cls, "write_status")
    params = [a.arg for a in fn.args.args]
    if len(params) != 2 or params[0] != "self":
        bad(fn, "write_status(self, <dir>) expected")
    ps = Paths(params[1])
    body = live(fn.body)
    env = {}
    lines = []
    i = 0
    # statements before the row loop
    pre = []
    while i < len(body) and not isinstance(body[i], ast.For):
        pre.append(body[i])
        i += 1
    if i == len(body):
        bad(fn, "the row loop was not found")
    lines += statements(env, pre, 2)
    loop = body[i]
    if not (self_attr(loop.iter, "status_subtree") and isinstance(loop.target, ast.Name) and not loop.orelse):
        bad(loop, "the row loop is not `for <key> in self.status_subtree`")
    key = loop.target.id
    lbody = live(loop.body)
    if not (lbody and isinstance(lbody[0], ast.Assign) and len(lbody[0].targets) == 1
            and isinstance(lbody[0].targets[0], ast.Name) and isinstance(lbody[0].value, ast.Subscript)
            and self_attr(lbody[0].value.value, "values") and isinstance(lbody[0].value.slice, ast.Name)
            and lbody[0].value.slice.id == key):
        bad(loop, "the row loop does not start with `<value> = self.values[%s]`" % key)
    recvar = lbody[0].targets[0].id
    appended = [st.value.func.value.id for st in lbody
                if isinstance(st, ast.Expr) and isinstance(st.value, ast.Call)
                and isinstance(st.value.func, ast.Attribute) and st.value.func.attr == "append"
                and isinstance(st.value.func.value, ast.Name)]
    if len(set(appended)) != 1 or env.get(appended[0]) != "strlist":
        bad(loop, "the row loop does not append to exactly one list defined before it")
    carried = appended[0]
    env2 = dict(env)
    env2[key] = "node"
    env2[recvar] = "rec"
    inner = statements(env2, lbody[1:], 4, carried)
    lines.append("  let %s := for_each order %s (fun %s %s =>" % (G(carried), G(carried), G(key), G(carried)))
    lines.append("    let %s := values %s in" % (G(recvar), G(key)))
    lines += inner
    lines.append("    %s) in" % G(carried))
    # after the loop: paths, lock, the write
    payload = []

    def io(st, handles):
        if isinstance(st, ast.Expr) and isinstance(st.value, ast.Call) and isinstance(st.value.func, ast.Attribute) \
                and st.value.func.attr == "write" and isinstance(st.value.func.value, ast.Name) \
                and st.value.func.value.id in handles and len(st.value.args) == 1 and not st.value.keywords:
            v, ty = expr(env, st.value.args[0])
            if ty != "str":
                bad(st, "writing a %s" % ty)
            payload.append(v)
            return "EWrite"
        return None
    evs, handler = events(ps, body[i + 1:], io)
    if len(payload) != 1:
        bad(fn, "expected exactly one <file>.write(..) call, found %d" % len(payload))
    text = "\n".join(
        ["(* ExecutionGraph.write_status: the text handed to <file>.write; [order] is",
         "   self.status_subtree, [values] is self.values *)",
         "Definition write_status_text_gen (order : list nat) (values : nat -> xrec) : str :="]
        + lines + ["  %s." % payload[0], "",
                   "(* ExecutionGraph.write_status: file and lock operations, in program order *)",
                   g_events("writer_events_gen", evs),
                   "Definition writer_on_timeout_gen : handler := %s." % (handler or "HNone")])
    return text


# ----------------------------------------------------------------------------
# utils.csvtable_to_dict
# ----------------------------------------------------------------------------
def dump(src, mode="exec"):
    t = ast.parse(src, mode=mode)
    return ast.dump(t.body[0] if mode == "exec" else t.body)


def gen_reader(tree):
    fn = find_fn(tree, "csvtable_to_dict")
    if len(fn.args.args) != 1:
        bad(fn, "csvtable_to_dict(<stream>) expected")
    stream = fn.args.args[0].arg
    body = live(fn.body)
    if len(body) != 8:
        bad(fn, "csvtable_to_dict has %d statements, the frame has 8" % len(body))
    lines = []
    # 1. lines = fstream.readlines()
    st = body[0]
    if not (isinstance(st, ast.Assign) and len(st.targets) == 1 and isinstance(st.targets[0], ast.Name)
            and ast.dump(st.value) == dump("%s.readlines()" % stream, "eval")):
        bad(st, "not `<lines> = %s.readlines()`" % stream)
    lv = st.targets[0].id
    env = {stream: "str", lv: "strlist"}
    lines.append("  let %s := py_readlines %s in" % (G(lv), G(stream)))
    # 2. hdr = lines.pop(0)<...>
    st = body[1]
    pop = dump("%s.pop(0)" % lv, "eval")
    if not (isinstance(st, ast.Assign) and len(st.targets) == 1 and isinstance(st.targets[0], ast.Name)):
        bad(st, "header assignment expected")
    pops = [n for n in ast.walk(st.value) if ast.dump(n) == pop]
    if len(pops) != 1:
        bad(st, "expected exactly one `%s.pop(0)`" % lv)
    hv = st.targets[0].id
    env2 = dict(env)
    env2["popped"] = "str"
    h, hty = expr(env2, st.value, subst=[(pop, ("popped", "str"))])
    if hty != "strlist":
        bad(st, "the header is not a list of strings")
    lines.append("  pop_first %s PIndexError (fun popped %s =>" % (G(lv), G(lv)))
    lines.append("  let %s := %s in" % (G(hv), h))
    env[hv] = "strlist"
    # 3-5. table = OrderedDict(); indices = {}; i = 0
    names = {}
    for st, what in ((body[2], "OrderedDict()"), (body[3], "{}"), (body[4], "0")):
        if not (isinstance(st, ast.Assign) and len(st.targets) == 1 and isinstance(st.targets[0], ast.Name)
                and ast.dump(st.value) == dump(what, "eval")):
            bad(st, "not `<name> = %s`" % what)
        names[what] = st.targets[0].id
    tv, iv, cv = names["OrderedDict()"], names["{}"], names["0"]
    # 6. the header loop
    st = body[5]
    want = dump("for item in %s:\n %s[%s] = item\n %s[item] = []\n %s += 1" % (hv, iv, cv, tv, cv))
    if not (isinstance(st, ast.For) and isinstance(st.target, ast.Name)
            and ast.dump(st) == want.replace("'item'", repr(st.target.id))):
        bad(st, "the header loop is not `for item in %s: %s[%s] = item; %s[item] = []; %s += 1`"
            % (hv, iv, cv, tv, cv))
    lines.append("  let '(%s, %s) := header_loop %s in" % (G(iv), G(tv), G(hv)))
    # 7. the row loop
    st = body[6]
    if not (isinstance(st, ast.For) and isinstance(st.target, ast.Name) and isinstance(st.iter, ast.Name)
            and st.iter.id == lv and not st.orelse):
        bad(st, "the row loop is not `for <line> in %s`" % lv)
    line = st.target.id
    rb = live(st.body)
    if not (len(rb) == 2 and isinstance(rb[0], ast.Assign) and len(rb[0].targets) == 1
            and isinstance(rb[0].targets[0], ast.Name) and isinstance(rb[1], ast.For)):
        bad(st, "the row loop body is not `<cells> = ..; for <i> in range(len(<cells>)): ..`")
    cells = rb[0].targets[0].id
    envr = {line: "str"}
    ce, cty = expr(envr, rb[0].value)
    if cty != "strlist":
        bad(rb[0], "the cells are not a list of strings")
    cl = rb[1]
    if not (isinstance(cl.target, ast.Name) and ast.dump(cl.iter) == dump("range(len(%s))" % cells, "eval")
            and not cl.orelse and len(live(cl.body)) == 1):
        bad(cl, "the cell loop is not `for <i> in range(len(%s)): <one statement>`" % cells)
    ix = cl.target.id
    ap = live(cl.body)[0]
    ok = (isinstance(ap, ast.Expr) and isinstance(ap.value, ast.Call) and isinstance(ap.value.func, ast.Attribute)
          and ap.value.func.attr == "append" and len(ap.value.args) == 1 and not ap.value.keywords
          and ast.dump(ap.value.func.value) == dump("%s[%s[%s]]" % (tv, iv, ix), "eval"))
    if not ok:
        bad(ap, "the cell statement is not `%s[%s[%s]].append(..)`" % (tv, iv, ix))
    cellpat = dump("%s[%s]" % (cells, ix), "eval")
    ve, vty = expr({"cell": "str"}, ap.value.args[0], subst=[(cellpat, ("cell", "str"))])
    if vty != "str":
        bad(ap, "the appended value is not a string")
    lines.append("  return_table (rows_loop %s %s (fun %s %s =>" % (G(lv), G(tv), G(line), G(tv)))
    lines.append("    let %s := %s in" % (G(cells), ce))
    lines.append("    cells_loop %s %s (fun %s cell %s =>" % (G(cells), G(tv), G(ix), G(tv)))
    lines.append("      tbl_append_at %s %s %s %s))))." % (G(iv), G(ix), atom(ve), G(tv)))
    # 8. return table
    st = body[7]
    if not (isinstance(st, ast.Return) and isinstance(st.value, ast.Name) and st.value.id == tv):
        bad(st, "not `return %s`" % tv)
    return "\n".join(["(* utils.csvtable_to_dict; [%s] is the text the stream delivers *)" % G(stream),
                      "Definition csvtable_to_dict_gen (%s : str) : presult :=" % G(stream)] + lines)


# ----------------------------------------------------------------------------
# Conductor.get_status
# ----------------------------------------------------------------------------
def gen_get_status(cls):
    fn = find_fn(cls, "get_status")
    params = [a.arg for a in fn.args.args]
    if len(params) != 2:
        bad(fn, "get_status(cls, <dir>) expected")
    ps = Paths(params[1])
    body = live(fn.body)
    # <paths> ; _ = {} ; if os.path.exists(stat_path): <locked read> ; return _
    rest = [st for st in body if not path_assign(ps, st)]
    if len(rest) != 3:
        bad(fn, "get_status: expected `<r> = {}; if os.path.exists(..): ..; return <r>`")
    d, iff, ret = rest
    if not (isinstance(d, ast.Assign) and len(d.targets) == 1 and isinstance(d.targets[0], ast.Name)
            and isinstance(d.value, ast.Dict) and not d.value.keys):
        bad(d, "the default answer is not `{}`")
    res = d.targets[0].id
    if not (isinstance(ret, ast.Return) and isinstance(ret.value, ast.Name) and ret.value.id == res):
        bad(ret, "not `return %s`" % res)
    t = iff.test if isinstance(iff, ast.If) else None
    if not (t is not None and not iff.orelse and isinstance(t, ast.Call) and is_os_path(t.func, "exists")
            and len(t.args) == 1 and isinstance(t.args[0], ast.Name) and t.args[0].id in ps.files):
        bad(iff, "not `if os.path.exists(<status path>):` without else")
    called = []

    def io(st, handles):
        if isinstance(st, ast.Assign) and len(st.targets) == 1 and isinstance(st.targets[0], ast.Name) \
                and st.targets[0].id == res and isinstance(st.value, ast.Call) \
                and isinstance(st.value.func, ast.Name) and len(st.value.args) == 1 and not st.value.keywords \
                and isinstance(st.value.args[0], ast.Name) and st.value.args[0].id in handles:
            called.append(st.value.func.id)
            return "ERead"
        return None
    evs, handler = events(ps, iff.body, io)
    if called != ["csvtable_to_dict"]:
        bad(fn, "the answer is not `csvtable_to_dict(<file>)` exactly once")
    evs = ["EExists %s" % g_str(ps.files[t.args[0].id])] + evs
    return "\n".join([
        "(* Conductor.get_status: file and lock operations, in program order *)",
        g_events("reader_events_gen", evs),
        "Definition reader_on_timeout_gen : handler := %s." % (handler or "HNone"),
        "",
        "(* Conductor.get_status: {} unless the file exists and the lock was obtained; [file] is",
        "   status.csv (None = absent) as text mode delivers it, [timed_out] the Timeout branch *)",
        "Definition get_status_gen (file : option str) (timed_out : bool) : option presult :=",
        "  match file with",
        "  | None => None",
        "  | Some text => if timed_out then %s else Some (csvtable_to_dict_gen text)"
        % ("None" if handler == "HPass" else "Some POther"),
        "  end.",
    ])


def _parse(repo, rel):
    T.src = rel
    try:
        return ast.parse(open(os.path.join(repo, rel)).read())
    except SyntaxError as e:
        raise NotTranslatable("%s: %s" % (rel, e))


def generate(repo):
    eg = _parse(repo, EXECG)
    cls = find_class(eg, "ExecutionGraph")
    sub = gen_status_subtree(cls)
    wr = gen_write_status(cls)
    rd = gen_reader(_parse(repo, UTILS))
    gs = gen_get_status(find_class(_parse(repo, COND), "Conductor"))
    head = "\n".join([
        "(** The status path of maestrowf, statement by statement.",
        "    GENERATED by translate/tcode_status.py from /repo's current source",
        "    (ExecutionGraph.status_subtree / write_status, utils.csvtable_to_dict,",
        "    Conductor.get_status) as compositions of the combinators of Status/StatusOps.v;",
        "    Status/StatusGenProofs.v proves every definition below equal to the hand-written",
        "    model (Rows.v, Csv.v, Lock.v) the theorems of Props/C12.v are about, so an edit of",
        "    the source that changes what these functions do breaks a proof obligation.",
        "    Do not edit by hand. *)",
        "From Coq Require Import List Arith Bool NArith.",
        "From MWF Require Import Base.Util Base.Str Status.Csv Status.Rows Status.Lock Status.StatusOps.",
        "Import ListNotations.",
        ""])
    return {OUT: "\n\n".join([head, sub, wr, rd, gs]) + "\n"}

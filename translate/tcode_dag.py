"""T-code for C14: regenerate the Gallina text of class DAG
(maestrowf/datastructures/dag.py) as Dag/DagGen.v.

A fail-closed statement-level translator over the Python `ast` (the module is
parsed, never imported).  Every statement / expression template maps to one
application of a hand-written combinator of Dag/DagOps.v:

  guards            `a == b`, `x in self.values|self.adjacency_table`,
                    `x in self.adjacency_table[y]`, `x in <container>`,
                    `d[x]` (flag dictionary), not / and / or
  table effects     values[n] = obj + adjacency_table[n] = []  -> tbl_add
                    adjacency_table[a].append(b)               -> adj_append
                    adjacency_table[a].remove(b)               -> adj_remove (ValueError when absent)
  local containers  set() / .add / .remove, deque() / .append / .appendleft /
                    .popleft / .pop, lists ([x], .append, a + b, .extend),
                    flag dictionaries, key sets of dictionaries
  control           if / elif / else (code after a non-terminating `if` is
                    copied into both branches), `for x in ...` -> for_in,
                    `while q:` -> while_nonempty (fuelled), continue / break /
                    return / raise ValueError / raise Exception
  calls             self.detect_cycle(), self._detect_cycle(..),
                    self._topological_sort(..), self.dfs_subtree(..): fuelled
                    recursion with DagModel's fuel discipline (number of
                    nodes; +1 for the BFS loop)

Python variable names are kept, so using the wrong container (`in queue` for
`in path`, `rstack` for `visited`), the wrong end of a deque, `break` for
`continue`, a dropped rollback or a reordered guard CHANGES the generated text;
Dag/DagGenProofs.v proves the generated functions equal to DagModel.v's, so
such a change breaks a proof obligation.  Logging and message strings are
dropped.  Anything outside the templates raises NotTranslatable.
"""
import ast
import os
import re

from translate.regen import NotTranslatable  # noqa

SRC = "maestrowf/datastructures/dag.py"
OUT = "Dag/DagGen.v"

_CTX = re.compile(r", (?:Load|Store|Del)\(\)")

CONTAINERS = ("set", "list", "deque", "flags", "dict")

# identifiers the emitted text itself uses, and Gallina keywords
RESERVED = set("""g fuel cyc r at as end fun let match with return fix cofix forall exists struct where using by
then Type Prop Set SProp mod mem keys adj has_key negb length nat list option bool true false Some None S O
Continue Break Return""".split())


def bad(node, why):
    raise NotTranslatable("%s: line %s: %s" % (SRC, getattr(node, "lineno", "?"), why))


def D(node):
    return _CTX.sub("", ast.dump(node, annotate_fields=False))


def P(src, mode="eval"):
    t = ast.parse(src, mode=mode)
    return D(t.body if mode == "eval" else t.body[0])


def G(name):
    """Gallina identifier of a Python variable"""
    return name + "_" if name in RESERVED or name.endswith("_gen") else name


def src_of(node):
    return ast.unparse(node).split("\n")[0]


def atom(t):
    """parenthesise a term unless it is atomic"""
    if " " not in t:
        return t
    if t[0] == "(" and t[-1] == ")":
        depth = 0
        for i, ch in enumerate(t):
            depth += ch == "("
            depth -= ch == ")"
            if depth == 0 and i < len(t) - 1:
                break
        else:
            return t
    if t[0] == "[" and t[-1] == "]" and t.count("[") == 1:
        return t
    return "(%s)" % t


def tup(names):
    return G(names[0]) if len(names) == 1 else "(%s)" % ", ".join(G(n) for n in names)


def pat(names):
    return G(names[0]) if len(names) == 1 else "'(%s)" % ", ".join(G(n) for n in names)


def wrap(depth, text):
    """`return text` from inside `depth` nested loops"""
    for _ in range(depth):
        text = "Return " + atom(text)
    return text


def close(lines):
    lines = list(lines)
    lines[-1] += ")"
    return lines


def is_logging(st):
    if isinstance(st, ast.Expr) and isinstance(st.value, ast.Call):
        f = st.value.func
        return isinstance(f, ast.Attribute) and isinstance(f.value, ast.Name) and \
            f.value.id in ("logger", "logging", "LOGGER") and \
            f.attr in ("debug", "info", "warning", "error", "critical", "exception")
    return False


def is_doc(st):
    return isinstance(st, ast.Expr) and isinstance(st.value, ast.Constant) and isinstance(st.value.value, str)


def self_attr(e, name):
    return isinstance(e, ast.Attribute) and e.attr == name and isinstance(e.value, ast.Name) and e.value.id == "self"


def is_keys(e):
    """self.values | self.adjacency_table | either .keys(): the node names in insertion order"""
    if isinstance(e, ast.Call) and not e.args and not e.keywords and isinstance(e.func, ast.Attribute) and \
            e.func.attr == "keys":
        e = e.func.value
    return self_attr(e, "values") or self_attr(e, "adjacency_table")


def self_call(e, name):
    return isinstance(e, ast.Call) and self_attr(e.func, name) and not e.keywords


class Cx:
    """Translation context of one function."""

    def __init__(self, fn, kind, nodes=()):
        self.fn = fn
        self.kind = kind            # 'op' | 'dres' | 'proc' | 'list'
        self.vars = {}              # python variable -> 'node' | container kind
        self.order = []             # container variables in definition order
        self.strs = set()           # message-string variables (dropped)
        self.ignored = set()        # parameters / results that are not modelled
        self.drop = []              # statements without model effect (canonical dumps)
        self.calls = {}             # callable methods: name -> (gen name, kind, container kinds)
        self.fuel = False           # a recursion budget is in scope
        self.payload = None         # add_node's object parameter
        self.fall_vars = None       # 'proc': the two containers handed back
        self.while_used = False
        for n in nodes:
            self.vars[n] = "node"

    def fork(self):
        c = Cx(self.fn, self.kind)
        c.__dict__.update(self.__dict__)
        c.vars = dict(self.vars)
        c.order = list(self.order)
        c.strs = set(self.strs)
        return c

    def define(self, node, name, kind):
        if name in self.vars and self.vars[name] != kind:
            bad(node, "variable `%s` changes from %s to %s" % (name, self.vars[name], kind))
        if name in self.strs or name in self.ignored:
            bad(node, "variable `%s` is reused for a container" % name)
        if name not in self.vars:
            self.order.append(name)
        self.vars[name] = kind

    def kind_of(self, e):
        return self.vars.get(e.id) if isinstance(e, ast.Name) else None

    def state(self):
        return list(self.order)


# ----------------------------------------------------------------------------
# expressions
# ----------------------------------------------------------------------------
def node(cx, e):
    if isinstance(e, ast.Name) and cx.vars.get(e.id) == "node":
        return G(e.id)
    bad(e, "`%s` is not a node name variable" % src_of(e))


def container(cx, e, kinds):
    if isinstance(e, ast.Name) and cx.vars.get(e.id) in kinds:
        return G(e.id)
    if isinstance(e, ast.Name) and (e.id in cx.ignored or e.id in cx.strs):
        bad(e, "`%s` is not modelled in this function" % e.id)
    bad(e, "`%s` is not a local %s" % (src_of(e), "/".join(kinds)))


def adj_of(cx, e):
    """self.adjacency_table[x] -> adj g x (None when e is something else)"""
    if isinstance(e, ast.Subscript) and self_attr(e.value, "adjacency_table"):
        return "adj g %s" % node(cx, e.slice)
    return None


def cond(cx, e):
    if isinstance(e, ast.BoolOp):
        parts = [atom(cond(cx, v)) if isinstance(v, ast.BoolOp) else cond(cx, v) for v in e.values]
        return (" && " if isinstance(e.op, ast.And) else " || ").join(parts)
    if isinstance(e, ast.UnaryOp) and isinstance(e.op, ast.Not):
        return "negb " + atom(cond(cx, e.operand))
    if isinstance(e, ast.Compare) and len(e.ops) == 1:
        l, op, r = e.left, e.ops[0], e.comparators[0]
        if isinstance(op, (ast.Eq, ast.NotEq)):
            t = "Nat.eqb %s %s" % (node(cx, l), node(cx, r))
            return t if isinstance(op, ast.Eq) else "negb (%s)" % t
        if isinstance(op, (ast.In, ast.NotIn)):
            x = node(cx, l)
            if is_keys(r):
                t = "has_key %s g" % x
            elif adj_of(cx, r):
                t = "mem %s (%s)" % (x, adj_of(cx, r))
            else:
                t = "mem %s %s" % (x, container(cx, r, ("set", "list", "deque", "dict")))
            return t if isinstance(op, ast.In) else "negb (%s)" % t
    if isinstance(e, ast.Subscript) and cx.kind_of(e.value) == "flags":
        return "flag_get %s %s" % (node(cx, e.slice), G(e.value.id))
    if any(self_call(n, m) for n in ast.walk(e) for m in ("detect_cycle", "_detect_cycle")):
        bad(e, "a cycle-check call inside a compound condition is not supported: " + src_of(e))
    bad(e, "unknown condition `%s`" % src_of(e))


def node_list(cx, e):
    """[a, b] of node variables"""
    if isinstance(e, ast.List):
        return "[%s]" % "; ".join(node(cx, x) for x in e.elts)
    bad(e, "`%s` is not a list of node names" % src_of(e))


def iter_expr(cx, e):
    if is_keys(e):
        return "keys g"
    a = adj_of(cx, e)
    if a:
        return a
    if isinstance(e, ast.Name) and cx.vars.get(e.id) in ("list", "deque"):
        return G(e.id)
    bad(e, "cannot iterate over `%s`" % src_of(e))


def init_value(cx, e):
    """right-hand side that creates a container -> (kind, text) or None"""
    if isinstance(e, ast.Call) and isinstance(e.func, ast.Name) and not e.keywords:
        if e.func.id == "set" and not e.args:
            return "set", "set_empty"
        if e.func.id == "deque" and not e.args:
            return "deque", "deque_empty"
        if e.func.id == "deque" and len(e.args) == 1:
            return "deque", "deque_of %s" % node_list(cx, e.args[0])
    if isinstance(e, ast.List):
        return "list", (node_list(cx, e) if e.elts else "list_empty")
    if isinstance(e, ast.Dict) and len(e.keys) == 1 and e.keys[0] is not None:
        v = e.values[0]
        if (isinstance(v, ast.Constant) and v.value is None) or \
                (isinstance(v, ast.Name) and (cx.vars.get(v.id) == "node" or v.id in cx.ignored)):
            return "dict", "dict_of_key %s" % node(cx, e.keys[0])
    if isinstance(e, ast.DictComp) and len(e.generators) == 1:
        gen = e.generators[0]
        if isinstance(gen.target, ast.Name) and isinstance(e.key, ast.Name) and e.key.id == gen.target.id and \
                isinstance(e.value, ast.Constant) and e.value.value is False and not gen.ifs and \
                not gen.is_async and is_keys(gen.iter):
            return "flags", "flags_all_false (keys g)"
    return None


def is_string_expr(cx, e):
    if isinstance(e, ast.Constant) and isinstance(e.value, str):
        return True
    if isinstance(e, ast.Name) and e.id in cx.strs:
        return True
    if isinstance(e, ast.Call) and isinstance(e.func, ast.Attribute) and e.func.attr == "format":
        return is_string_expr(cx, e.func.value)
    return False


# ----------------------------------------------------------------------------
# statements
# ----------------------------------------------------------------------------
def effective(cx, stmts):
    out = []
    for st in stmts:
        if is_logging(st) or is_doc(st) or isinstance(st, ast.Pass):
            continue
        if D(st) in cx.drop:
            continue
        if isinstance(st, ast.Assign) and len(st.targets) == 1 and isinstance(st.targets[0], ast.Name) and \
                st.targets[0].id not in cx.vars and is_string_expr(cx, st.value):
            cx.strs.add(st.targets[0].id)
            continue
        out.append(st)
    return out


def fall(cx, st_for_msg, loops, mut):
    """falling off the end of the current block"""
    if loops:
        return "Continue " + tup(loops[-1])
    if cx.kind == "op":
        return "(%s, g)" % ("KOk" if mut else "KRefused")
    if cx.kind == "proc":
        return "Some (%s, %s)" % tuple(G(v) for v in cx.fall_vars)
    bad(st_for_msg, "%s must return a value on every path" % cx.fn.name)


def ret_value(cx, st, mut):
    v = st.value
    if cx.kind == "op":
        if v is not None:
            bad(st, "%s returns a value" % cx.fn.name)
        return "(%s, g)" % ("KOk" if mut else "KRefused")
    if cx.kind == "proc":
        if v is not None:
            bad(st, "%s returns a value" % cx.fn.name)
        return "Some (%s, %s)" % tuple(G(x) for x in cx.fall_vars)
    if cx.kind == "dres":
        if isinstance(v, ast.Constant) and v.value is True:
            return "DCycle"
        if isinstance(v, ast.Constant) and v.value is False:
            sets = [n for n in cx.order if cx.vars[n] == "set"]
            if len(sets) != 2 or len(cx.order) != 2:
                bad(st, "the cycle search must work on exactly two sets here")
            return "DDone %s %s" % (G(sets[0]), G(sets[1]))
        bad(st, "the cycle search must return True or False")
    if cx.kind == "list":
        if isinstance(v, ast.Tuple) and len(v.elts) == 2 and isinstance(v.elts[1], ast.Name) and \
                (cx.vars.get(v.elts[1].id) == "dict" or v.elts[1].id in cx.ignored):
            v = v.elts[0]                     # (path, parent): only the path is modelled
        if isinstance(v, ast.Name) and cx.vars.get(v.id) == "list":
            return "Some %s" % G(v.id)
        if isinstance(v, ast.Call) and isinstance(v.func, ast.Name) and v.func.id == "list" and \
                len(v.args) == 1 and cx.kind_of(v.args[0]) in ("deque", "list"):
            k = cx.kind_of(v.args[0])
            return "Some (deque_to_list %s)" % G(v.args[0].id) if k == "deque" else "Some %s" % G(v.args[0].id)
        bad(st, "unknown return value `%s`" % src_of(st))
    bad(st, "internal: kind")


def raise_value(cx, st):
    e = st.exc
    if cx.kind == "op" and isinstance(e, ast.Call) and isinstance(e.func, ast.Name) and not e.keywords and \
            len(e.args) == 1 and isinstance(e.args[0], ast.Name) and e.args[0].id in cx.strs:
        if e.func.id == "ValueError":
            return "(KValueError, g)"
        if e.func.id == "Exception":
            return "(KCycle, g)"
    bad(st, "unknown raise `%s`" % src_of(st))


def fuel_err(cx, st):
    if cx.kind in ("proc", "list"):
        return "None"
    if cx.kind == "dres":
        return "DFuel"
    bad(st, "`%s` is not supported in %s" % (src_of(st), cx.fn.name))


def callee(cx, st, call, kind):
    """a call self.<m>(node, A, B) of a fuelled helper of the given kind -> (gen, node text, [A, B])"""
    m = call.func.attr
    if m not in cx.calls or cx.calls[m][1] != kind:
        bad(st, "call of self.%s is not supported here" % m)
    if not cx.fuel:
        bad(st, "internal: no recursion budget in scope")
    gen, _, kinds = cx.calls[m]
    if len(call.args) != 1 + len(kinds):
        bad(st, "self.%s is called with %d arguments" % (m, len(call.args)))
    names = []
    for a, k in zip(call.args[1:], kinds):
        container(cx, a, (k,))
        names.append(a.id)
    if len(set(names)) != len(names):
        bad(st, "the same container is passed twice to self.%s" % m)
    return gen, node(cx, call.args[0]), names


def simple(cx, st):
    """an effect on one local container -> (variable, kind or None, text) or None"""
    if isinstance(st, ast.Assign) and len(st.targets) == 1:
        t, v = st.targets[0], st.value
        if isinstance(t, ast.Name):
            iv = init_value(cx, v)
            if iv:
                return t.id, iv[0], iv[1]
            # path = path + subpath
            if isinstance(v, ast.BinOp) and isinstance(v.op, ast.Add) and cx.vars.get(t.id) == "list":
                return t.id, None, "list_concat %s %s" % (container(cx, v.left, ("list",)),
                                                          container(cx, v.right, ("list",)))
        if isinstance(t, ast.Subscript) and isinstance(t.value, ast.Name):
            k = cx.vars.get(t.value.id)
            if k == "flags":
                if isinstance(v, ast.Constant) and v.value is True:
                    return t.value.id, None, "flag_set %s %s" % (node(cx, t.slice), G(t.value.id))
                bad(st, "a flag dictionary is only ever set to True in the translated subset")
            if k == "dict":
                if (isinstance(v, ast.Constant) and v.value is None) or cx.kind_of(v) == "node":
                    return t.value.id, None, "dict_set %s %s" % (node(cx, t.slice), G(t.value.id))
    if isinstance(st, ast.Expr) and isinstance(st.value, ast.Call) and not st.value.keywords:
        c = st.value
        f = c.func
        if isinstance(f, ast.Attribute) and isinstance(f.value, ast.Name) and len(c.args) == 1:
            k = cx.vars.get(f.value.id)
            V = G(f.value.id)
            if k == "set" and f.attr == "add":
                return f.value.id, None, "set_add %s %s" % (node(cx, c.args[0]), V)
            if k == "set" and f.attr in ("remove", "discard"):
                return f.value.id, None, "set_remove %s %s" % (node(cx, c.args[0]), V)
            if k == "list" and f.attr == "append":
                return f.value.id, None, "list_append %s %s" % (node(cx, c.args[0]), V)
            if k == "deque" and f.attr == "append":
                return f.value.id, None, "deque_append %s %s" % (node(cx, c.args[0]), V)
            if k == "deque" and f.attr == "appendleft":
                return f.value.id, None, "deque_appendleft %s %s" % (node(cx, c.args[0]), V)
            if k == "list" and f.attr == "extend":
                a = c.args[0]
                if cx.kind_of(a) == "list":
                    return f.value.id, None, "list_extend %s %s" % (V, G(a.id))
                if cx.kind_of(a) == "deque":
                    return f.value.id, None, "list_extend %s (deque_to_list %s)" % (V, G(a.id))
    return None


def table_write(st):
    """self.values[n] = x -> ('values', n, x);  self.adjacency_table[n] = [] -> ('adj', n, None)"""
    if isinstance(st, ast.Assign) and len(st.targets) == 1 and isinstance(st.targets[0], ast.Subscript):
        t = st.targets[0]
        if self_attr(t.value, "values"):
            return "values", t.slice, st.value
        if self_attr(t.value, "adjacency_table"):
            return "adj", t.slice, st.value
    return None


def block(cx, stmts, ind, loops, mut):
    """Translate a statement list in tail position; returns lines."""
    pad = "  " * ind
    stmts = effective(cx, stmts)
    if not stmts:
        return [pad + fall(cx, cx.fn, loops, mut)]
    st, rest = stmts[0], stmts[1:]
    depth = len(loops)

    def go(c=cx, r=rest, i=ind, m=mut):
        return block(c, r, i, loops, m)

    # --- terminators ---------------------------------------------------------
    if isinstance(st, ast.Return):
        return [pad + wrap(depth, ret_value(cx, st, mut))]
    if isinstance(st, ast.Raise):
        return [pad + wrap(depth, raise_value(cx, st))]
    if isinstance(st, ast.Continue):
        if not loops:
            bad(st, "continue outside a loop")
        return [pad + "Continue " + tup(loops[-1])]
    if isinstance(st, ast.Break):
        if not loops:
            bad(st, "break outside a loop")
        return [pad + "Break " + tup(loops[-1])]

    # --- if --------------------------------------------------------------------
    if isinstance(st, ast.If):
        t, neg = st.test, False
        if isinstance(t, ast.UnaryOp) and isinstance(t.op, ast.Not) and isinstance(t.operand, ast.Call):
            t, neg = t.operand, True
        if self_call(t, "detect_cycle"):
            if cx.kind != "op" or loops or t.args:
                bad(st, "self.detect_cycle() is only supported as a guard of a table operation")
            a = block(cx.fork(), list(st.body) + rest, ind + 1, loops, mut)
            b = block(cx.fork(), list(st.orelse) + rest, ind + 1, loops, mut)
            return [pad + "on_detect (detect_cycle_gen g) (KFuel, g) (fun cyc =>",
                    pad + "if %s then" % ("negb cyc" if neg else "cyc")] + a + [pad + "else"] + close(b)
        if self_call(t, "_detect_cycle"):
            body = effective(cx.fork(), st.body)
            if neg or st.orelse or len(body) != 1 or not isinstance(body[0], ast.Return) or \
                    not (isinstance(body[0].value, ast.Constant) and body[0].value.value is True) or \
                    cx.kind != "dres":
                bad(st, "the recursive cycle search is only supported as `if self._detect_cycle(..): return True`")
            gen, x, names = callee(cx, st, t, "dres")
            ret = "(fun r => %s)" % wrap(depth, "r") if depth != 1 else "Return"
            return [pad + "if_true_return (%s g fuel %s %s) %s (fun %s =>" % (
                gen, x, " ".join(G(n) for n in names), ret, " ".join(G(n) for n in names))] + close(go())
        c = cond(cx, st.test)
        lines = [pad + "if %s then" % c] + block(cx.fork(), list(st.body) + rest, ind + 1, loops, mut)
        els = effective(cx.fork(), list(st.orelse) + rest)
        if els and isinstance(els[0], ast.If):
            sub = block(cx.fork(), els, ind, loops, mut)
            if sub[0].startswith(pad + "if "):
                return lines + [pad + "else " + sub[0].strip()] + sub[1:]
        return lines + [pad + "else"] + block(cx.fork(), els, ind + 1, loops, mut)

    # --- loops -----------------------------------------------------------------
    if isinstance(st, ast.For):
        if st.orelse or not isinstance(st.target, ast.Name):
            bad(st, "unsupported form of for loop")
        x = st.target.id
        if x in cx.vars and cx.vars[x] != "node":
            bad(st, "loop variable `%s` shadows a container" % x)
        it = iter_expr(cx, st.iter)
        S = cx.state()
        if not S:
            bad(st, "a loop without local containers has no effect in the model")
        b = cx.fork()
        b.vars[x] = "node"
        body = block(b, st.body, ind + 1, loops + [S], mut)
        return [pad + "for_in %s (fun %s %s =>" % (atom(it), G(x), pat(S))] + close(body) + \
               [pad + "%s (fun %s =>" % (tup(S), pat(S))] + close(go())
    if isinstance(st, ast.While):
        if st.orelse or loops or cx.kind != "list" or not cx.fuel or cx.while_used:
            bad(st, "unsupported position / form of while loop")
        q = container(cx, st.test, ("deque", "list"))
        cx.while_used = True
        S = cx.state()
        body = block(cx.fork(), st.body, ind + 1, loops + [S], mut)
        return [pad + "while_nonempty fuel (fun %s => %s) (fun %s =>" % (pat(S), q, pat(S))] + close(body) + \
               [pad + "%s (fun %s =>" % (tup(S), pat(S))] + close(go())

    # --- the table -------------------------------------------------------------
    tw = table_write(st)
    if tw:
        other = table_write(rest[0]) if rest else None
        if cx.kind != "op" or loops or not other or {tw[0], other[0]} != {"values", "adj"} or \
                D(tw[1]) != D(other[1]):
            bad(st, "values[n] and adjacency_table[n] must be created together, for the same n")
        val = tw[2] if tw[0] == "values" else other[2]
        lst = tw[2] if tw[0] == "adj" else other[2]
        if not (isinstance(val, ast.Name) and val.id == cx.payload) or D(lst) != P("[]"):
            bad(st, "a new node must get the caller's object and an empty successor list")
        return [pad + "let g := tbl_add %s g in" % node(cx, tw[1])] + go(r=rest[1:], m=True)
    if isinstance(st, ast.Expr) and isinstance(st.value, ast.Call) and isinstance(st.value.func, ast.Attribute) and \
            adj_of(cx, st.value.func.value) and len(st.value.args) == 1 and not st.value.keywords:
        if cx.kind != "op" or loops:
            bad(st, "the table is only written by the table operations")
        a = node(cx, st.value.func.value.slice)
        bname = node(cx, st.value.args[0])
        if st.value.func.attr == "append":
            return [pad + "let g := adj_append %s %s g in" % (a, bname)] + go(m=True)
        if st.value.func.attr == "remove":
            return [pad + "adj_remove %s %s g (KValueError, g) (fun g =>" % (a, bname)] + close(go(m=True))
        bad(st, "unknown table operation `%s`" % src_of(st))

    # --- calls -----------------------------------------------------------------
    if isinstance(st, ast.Expr) and self_call(st.value, "_topological_sort"):
        gen, x, names = callee(cx, st, st.value, "proc")
        return [pad + "call_proc (%s g fuel %s %s) %s (fun %s =>" % (
            gen, x, " ".join(G(n) for n in names), atom(wrap(depth, fuel_err(cx, st))),
            " ".join(G(n) for n in names))] + close(go())
    if isinstance(st, ast.Assign) and len(st.targets) == 1 and self_call(st.value, "dfs_subtree"):
        t = st.targets[0]
        if not (isinstance(t, ast.Tuple) and len(t.elts) == 2 and all(isinstance(x, ast.Name) for x in t.elts)):
            bad(st, "the result of dfs_subtree must be unpacked into (path, parents)")
        call = st.value
        if "dfs_subtree" not in cx.calls or not cx.fuel or len(call.args) != 2:
            bad(st, "call of self.dfs_subtree is not supported here")
        node(cx, call.args[1])
        c2 = cx.fork()
        c2.define(st, t.elts[0].id, "list")
        c2.order.remove(t.elts[0].id)          # a value, not a container the loops thread through
        c2.ignored = set(cx.ignored) | {t.elts[1].id}
        return [pad + "call_fun (%s g fuel %s) %s (fun %s =>" % (
            cx.calls["dfs_subtree"][0], node(cx, call.args[0]), atom(wrap(depth, fuel_err(cx, st))),
            G(t.elts[0].id))] + close(block(c2, rest, ind, loops, mut))
    # x = q.popleft() / q.pop()
    if isinstance(st, ast.Assign) and len(st.targets) == 1 and isinstance(st.targets[0], ast.Name) and \
            isinstance(st.value, ast.Call) and isinstance(st.value.func, ast.Attribute) and \
            st.value.func.attr in ("popleft", "pop") and not st.value.args and not st.value.keywords and \
            cx.kind_of(st.value.func.value) == "deque":
        x = st.targets[0].id
        if x in cx.vars and cx.vars[x] != "node":
            bad(st, "`%s` is a container" % x)
        q = G(st.value.func.value.id)
        c2 = cx.fork()
        c2.vars[x] = "node"
        return [pad + "deque_%s %s %s (fun %s %s =>" % (
            st.value.func.attr, q, atom(wrap(depth, fuel_err(cx, st))), G(x), q)] + \
            close(block(c2, rest, ind, loops, mut))

    # <dict>.update(<parents returned by the recursive call>): only key sets nobody reads are affected
    if isinstance(st, ast.Expr) and isinstance(st.value, ast.Call) and isinstance(st.value.func, ast.Attribute) and \
            st.value.func.attr == "update" and cx.kind_of(st.value.func.value) == "dict" and \
            len(st.value.args) == 1 and isinstance(st.value.args[0], ast.Name) and \
            st.value.args[0].id in cx.ignored and not st.value.keywords:
        return go()

    # --- one effect on a local container ------------------------------------------
    r = simple(cx, st)
    if r:
        name, kind, text = r
        c2 = cx.fork()
        if kind:
            c2.define(st, name, kind)
        return [pad + "let %s := %s in" % (G(name), text)] + block(c2, rest, ind, loops, mut)
    bad(st, "unknown statement `%s`" % src_of(st))


# ----------------------------------------------------------------------------
# frames
# ----------------------------------------------------------------------------
METHODS = ["__init__", "add_node", "add_edge", "remove_edge", "dfs_subtree", "bfs_subtree", "_topological_sort",
           "topological_sort", "detect_cycle", "_detect_cycle"]

CALLS = {
    "_detect_cycle": ("detect_cycle_rec_gen", "dres", ["set", "set"]),
    "_topological_sort": ("topological_sort_rec_gen", "proc", ["flags", "deque"]),
    "dfs_subtree": ("dfs_subtree_rec_gen", "list", []),
}


def find_class(tree, name):
    for n in tree.body:
        if isinstance(n, ast.ClassDef) and n.name == name:
            return n
    bad(tree, "class %s not found" % name)


def params(fn, n, defaults=0):
    a = fn.args
    if a.vararg or a.kwarg or a.kwonlyargs or getattr(a, "posonlyargs", None) or fn.decorator_list or \
            len(a.args) != n + 1 or a.args[0].arg != "self" or len(a.defaults) != defaults:
        bad(fn, "signature of %s changed" % fn.name)
    return [x.arg for x in a.args[1:]]


def gen_init(fn):
    params(fn, 0)
    body = [D(s) for s in fn.body if not is_doc(s)]
    if sorted(body) != sorted([P("self.adjacency_table = OrderedDict()", "exec"),
                               P("self.values = OrderedDict()", "exec")]):
        bad(fn, "DAG.__init__ no longer creates exactly the two empty ordered dictionaries "
                "adjacency_table and values")


def gen_op(fn, nnodes, payload=False):
    ps = params(fn, nnodes + (1 if payload else 0))
    cx = Cx(fn, "op", ps[:nnodes])
    if payload:
        cx.payload = ps[-1]
        cx.ignored.add(ps[-1])
    return ["(* DAG.%s *)" % fn.name,
            "Definition %s_gen (g : graph) (%s : nat) : rkind * graph :=" % (fn.name, " ".join(G(p) for p in ps[:nnodes]))
            ] + block(cx, fn.body, 1, [], False)


def gen_rec(fn, rtype, ignored_defaults=0):
    gen, kind, kinds = CALLS[fn.name]
    ps = params(fn, 1 + len(kinds) + ignored_defaults, ignored_defaults)
    cx = Cx(fn, kind, ps[:1])
    for p, k in zip(ps[1:], kinds):
        cx.define(fn, p, k)
    for p in ps[1 + len(kinds):]:
        cx.ignored.add(p)
    cx.fuel = True
    cx.calls = {fn.name: CALLS[fn.name]}
    if kind == "proc":
        cx.fall_vars = ps[1:3]
    conts = " (%s : list nat)" % " ".join(G(p) for p in ps[1:1 + len(kinds)]) if kinds else ""
    return ["(* DAG.%s: recursion depth bounded by [fuel] *)" % fn.name,
            "Fixpoint %s (g : graph) (fuel %s : nat)%s {struct fuel} : %s :=" % (gen, G(ps[0]), conts, rtype),
            "  match fuel with",
            "  | O => %s" % fuel_err(cx, fn),
            "  | S fuel =>"] + block(cx, fn.body, 2, [], False) + ["  end"]


def gen_top(fn, kind, callee_name, rtype, fuel, wrapper, nnodes=0):
    ps = params(fn, nnodes)
    cx = Cx(fn, kind, ps)
    cx.fuel = True
    if callee_name:
        cx.calls = {callee_name: CALLS[callee_name]}
    body = block(cx, fn.body, 1, [], False)
    sig = " (%s : nat)" % " ".join(G(p) for p in ps) if ps else ""
    pre, post = wrapper
    return ["(* DAG.%s *)" % fn.name,
            "Definition %s_gen (g : graph)%s : %s :=" % (fn.name, sig, rtype)] + pre + \
           ["  let fuel := %s in" % fuel] + body[:-1] + [body[-1] + post]


HEADER = """(** The class DAG of maestrowf/datastructures/dag.py, statement by statement.
    GENERATED by translate/tcode_dag.py from /repo's current source, as
    compositions of the combinators of Dag/DagOps.v; Dag/DagGenProofs.v proves
    every function below equal to the hand-written model of Dag/DagModel.v that
    the theorems of Props/C14.v are about, so an edit of dag.py breaks a proof
    obligation.  Do not edit by hand. *)
From Coq Require Import List Arith Bool.
From MWF Require Import Base.Util Dag.DagModel Dag.DagOps.
Import ListNotations.
"""


def generate(repo):
    path = os.path.join(repo, SRC)
    try:
        tree = ast.parse(open(path).read())
    except (OSError, SyntaxError, ValueError) as e:
        raise NotTranslatable("%s: cannot parse: %s" % (SRC, e))
    cls = find_class(tree, "DAG")
    fns = {}
    for n in cls.body:
        if is_doc(n):
            continue
        if not isinstance(n, ast.FunctionDef) or n.name not in METHODS or n.name in fns:
            bad(n, "class DAG has a member outside the translated set: `%s`" % src_of(n))
        fns[n.name] = n
    for m in METHODS:
        if m not in fns:
            bad(cls, "method DAG.%s not found" % m)
    gen_init(fns["__init__"])
    dfs = fns["dfs_subtree"]
    defs = [
        gen_op(fns["add_node"], 1, payload=True),
        gen_rec(fns["_detect_cycle"], "dres"),
        gen_top(fns["detect_cycle"], "dres", "_detect_cycle", "option bool", "length g", (["  dres_result ("], ")")),
        gen_op(fns["add_edge"], 2),
        gen_op(fns["remove_edge"], 2),
        gen_rec(fns["_topological_sort"], "option (list nat * list nat)"),
        gen_top(fns["topological_sort"], "list", "_topological_sort", "tres", "length g", (["  of_opt ("], ")")),
        gen_top(fns["bfs_subtree"], "list", None, "tres", "S (length g)",
                (["  key_error_unless (has_key %s g) (of_opt (" % G(params(fns["bfs_subtree"], 1)[0])], "))"), nnodes=1),
        gen_rec(dfs, "option (list nat)", ignored_defaults=1),
        ["(* DAG.dfs_subtree, as called from outside *)",
         "Definition dfs_subtree_gen (g : graph) (%s : nat) : tres :=" % G(params(dfs, 2, 1)[0]),
         "  key_error_unless (has_key %s g) (of_opt (" % G(params(dfs, 2, 1)[0]),
         "  let fuel := length g in",
         "  dfs_subtree_rec_gen g fuel %s))" % G(params(dfs, 2, 1)[0])],
    ]
    text = HEADER
    for d in defs:
        d = list(d)
        d[-1] += "."
        text += "\n" + "\n".join(d) + "\n"
    return {OUT: text}


if __name__ == "__main__":
    import sys
    sys.stdout.write(generate(sys.argv[1] if len(sys.argv) > 1 else "/repo")[OUT])

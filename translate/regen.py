"""Regenerate every translated Gallina file from /repo's current source.

Each generator is `module.generate(repo) -> {relative .v path under coq/theories: text}`.
Generators are fail-closed: they raise NotTranslatable when the source no
longer fits the subset they understand; the committed file then stays in place
(the proofs compiled against it stand) and the status records it -- the
correspondence run is then what carries the tie.  Status: _work/gen_status.json.
"""
import importlib
import json
import os
import traceback

from harness import common

GENERATORS = []   # filled below; module names under translate/


class NotTranslatable(Exception):
    pass


def register(name):
    if name not in GENERATORS:
        GENERATORS.append(name)


for _n in ("tdata_enums", "tdata_sched", "tdata_misc", "tcode_exec", "tdata_headers", "tdata_exit"):
    if os.path.exists(os.path.join(os.path.dirname(__file__), _n + ".py")):
        register(_n)


def regenerate_all(verbose=False):
    status = {}
    for name in GENERATORS:
        try:
            mod = importlib.import_module("translate." + name)
            files = mod.generate(common.REPO)
            changed = []
            for rel, text in files.items():
                if common.write_if_changed(os.path.join(common.THEORIES, rel), text):
                    changed.append(rel)
            status[name] = {"ok": True, "files": sorted(files), "changed": changed}
        except NotTranslatable as e:
            status[name] = {"ok": False, "not_translatable": str(e)}
        except Exception as e:  # translator crash = fail closed as well
            status[name] = {"ok": False, "not_translatable": "translator error: %r" % (e,),
                            "trace": traceback.format_exc()[-1500:]}
        if verbose:
            print("regen", name, status[name])
    os.makedirs(common.WORK, exist_ok=True)
    with open(os.path.join(common.WORK, "gen_status.json"), "w") as f:
        json.dump(status, f, indent=1)
    return status


def status():
    try:
        return json.load(open(os.path.join(common.WORK, "gen_status.json")))
    except OSError:
        return {}

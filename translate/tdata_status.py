"""T-data generator for C12: the literals of the status-table writer and reader.

Parses (python `ast`, never imports /repo) and emits
coq/theories/Gen/StatusData.v:

* `gen_header_text`  -- the header literal of `ExecutionGraph.write_status`;
* `gen_cell_sep`, `gen_line_sep` -- the separators of the `",".join(row)` and
  `"\\n".join(status)` calls (recognised by what they join: the row list / the
  list that starts with the header);
* `gen_param_sep`, `gen_param_fmt` -- `";".join(["{}:{}".format(..) ..])`;
* `gen_row_width` -- the number of cells of the row list;
* `gen_reader_sep`, `gen_reader_strip` -- the `split(..)` / `strip(..)`
  arguments of `utils.csvtable_to_dict`;
* `gen_open_modes` -- the mode strings of the two `open(stat_path, ..)` calls.

Status/TData.v proves that these are the literals the hand-written models
(Status/Csv.v, Rows.v) were proved against.  Fail-closed: NotTranslatable when
the source no longer has this shape (the committed file then stays and the
correspondence run carries the tie).
"""
import ast
import os

from translate.regen import NotTranslatable

EXECG = "maestrowf/datastructures/core/executiongraph.py"
UTILS = "maestrowf/utils.py"
COND = "maestrowf/conductor.py"
OUT = "Gen/StatusData.v"


def _fn(tree, name, where):
    fns = [n for n in ast.walk(tree) if isinstance(n, ast.FunctionDef) and n.name == name]
    if len(fns) != 1:
        raise NotTranslatable("%s: expected one function %s, found %d" % (where, name, len(fns)))
    return fns[0]


def _g_str(x):
    if all(32 <= ord(c) < 127 and c != '"' for c in x):
        return '(s "%s")' % x
    return "[" + "; ".join("%d%%N" % ord(c) for c in x) + "]"


def _const_str(node):
    return node.value if isinstance(node, ast.Constant) and isinstance(node.value, str) else None


def _join_calls(fn):
    """[(separator, argument node)] for every "<literal>".join(arg) in fn"""
    out = []
    for n in ast.walk(fn):
        if (isinstance(n, ast.Call) and isinstance(n.func, ast.Attribute) and n.func.attr == "join"
                and _const_str(n.func.value) is not None and len(n.args) == 1):
            out.append((n.func.value.value, n.args[0]))
    return out


def generate(repo):
    src = open(os.path.join(repo, EXECG)).read()
    ws = _fn(ast.parse(src), "write_status", EXECG)
    # header literal: the single string constant assigned to a name that is then the
    # first element of the list that gets joined with the line separator
    assigns = {}
    for n in ast.walk(ws):
        if isinstance(n, ast.Assign) and len(n.targets) == 1 and isinstance(n.targets[0], ast.Name):
            assigns.setdefault(n.targets[0].id, []).append(n.value)
    headers = [(k, _const_str(v[0])) for k, v in assigns.items()
               if len(v) == 1 and _const_str(v[0]) is not None and "Step Name" in v[0].value]
    if len(headers) != 1:
        raise NotTranslatable("write_status: header literal not found")
    header_name, header = headers[0]
    lists_with_header = [k for k, v in assigns.items()
                         if any(isinstance(x, ast.List) and len(x.elts) == 1 and isinstance(x.elts[0], ast.Name)
                                and x.elts[0].id == header_name for x in v)]
    if len(lists_with_header) != 1:
        raise NotTranslatable("write_status: the list [header] not found")
    status_name = lists_with_header[0]
    # the row list: the only list display with more than 3 elements
    rows = [n for n in ast.walk(ws) if isinstance(n, ast.List) and len(n.elts) > 3]
    if len(rows) != 1:
        raise NotTranslatable("write_status: expected one row list, found %d" % len(rows))
    width = len(rows[0].elts)
    joins = _join_calls(ws)
    line_sep = [sep for sep, arg in joins if isinstance(arg, ast.Name) and arg.id == status_name]
    param = [(sep, arg) for sep, arg in joins if isinstance(arg, (ast.ListComp, ast.GeneratorExp))]
    cell = [sep for sep, arg in joins
            if isinstance(arg, ast.Name) and arg.id != status_name or isinstance(arg, ast.List)]
    if len(line_sep) != 1 or len(param) != 1 or len(cell) != 1:
        raise NotTranslatable("write_status: join calls not recognised (%d line, %d param, %d cell)"
                              % (len(line_sep), len(param), len(cell)))
    elt = param[0][1].elt
    if not (isinstance(elt, ast.Call) and isinstance(elt.func, ast.Attribute) and elt.func.attr == "format"
            and _const_str(elt.func.value) is not None):
        raise NotTranslatable("write_status: parameter cell is not '<literal>'.format(..)")
    param_fmt = elt.func.value.value

    # reader
    rd = _fn(ast.parse(open(os.path.join(repo, UTILS)).read()), "csvtable_to_dict", UTILS)
    splits, strips = set(), set()
    for n in ast.walk(rd):
        if isinstance(n, ast.Call) and isinstance(n.func, ast.Attribute) and len(n.args) == 1 \
                and _const_str(n.args[0]) is not None:
            if n.func.attr == "split":
                splits.add(n.args[0].value)
            elif n.func.attr == "strip":
                strips.add(n.args[0].value)
    if len(splits) != 1 or len(strips) != 1:
        raise NotTranslatable("csvtable_to_dict: split/strip literals not recognised")

    # open modes
    modes = []
    for rel, name in ((EXECG, "write_status"), (COND, "get_status")):
        fn = _fn(ast.parse(open(os.path.join(repo, rel)).read()), name, rel)
        ops = [n for n in ast.walk(fn) if isinstance(n, ast.Call) and isinstance(n.func, ast.Name)
               and n.func.id == "open"]
        if len(ops) != 1 or len(ops[0].args) != 2 or _const_str(ops[0].args[1]) is None or ops[0].keywords:
            raise NotTranslatable("%s:%s: open(path, '<mode>') not recognised" % (rel, name))
        modes.append(ops[0].args[1].value)

    text = "\n".join([
        "(** GENERATED by translate/tdata_status.py from /repo's current source",
        "    (ExecutionGraph.write_status, utils.csvtable_to_dict, Conductor.get_status).",
        "    Do not edit by hand. *)",
        "From MWF Require Import Base.Str.",
        "",
        "Definition gen_header_text : str := %s." % _g_str(header),
        "Definition gen_cell_sep : str := %s." % _g_str(cell[0]),
        "Definition gen_line_sep : str := %s." % _g_str(line_sep[0]),
        "Definition gen_param_sep : str := %s." % _g_str(param[0][0]),
        "Definition gen_param_fmt : str := %s." % _g_str(param_fmt),
        "Definition gen_row_width : nat := %d." % width,
        "Definition gen_reader_sep : str := %s." % _g_str(sorted(splits)[0]),
        "Definition gen_reader_strip : str := %s." % _g_str(sorted(strips)[0]),
        "Definition gen_open_modes : list str := [%s]." % "; ".join(_g_str(m) for m in modes),
        ""])
    return {OUT: text}

"""T-data generator for C05: study status values and the process exit code.

Parses (python `ast`, never imports /repo) and emits coq/theories/Gen/ExitCodes.v:

* `StudyStatus_value : SStatus -> Z` -- the integer values of the members of
  `StudyStatus` (maestrowf/abstracts/enums/__init__.py);
* `exit_code_conductor`, `exit_code_maestro_fg : SStatus -> Z` -- what the two
  entry points hand to the operating system for a study status, as the source
  says NOW.  Understood shape (fail closed on anything else):
    - `Conductor.monitor_study` (maestrowf/conductor.py): one local variable is
      initialised to `StudyStatus.RUNNING`, re-assigned only from
      `<dag>.execute_ready_steps()` inside `while <var> == StudyStatus.RUNNING`,
      and is what the single `return` returns;
    - `conductor.main`: `<v> = <conductor>.monitor_study()` and exactly one
      `sys.exit(E)`; every `except` clause around it ends by re-raising;
    - `maestro.run_study` (maestrowf/maestro.py), foreground branch:
      `<v> = <conductor>.monitor_study()` ... `return E`;
      `maestro.main`: `<rc> = args.func(args)`, `sys.exit(<rc>)`;
      where E is `<v>.value`, an integer literal, or a conditional expression
      `E1 if <v> ==/!= StudyStatus.M else E2` over those (so that a rewritten
      mapping is TRANSLATED and the theorem about it re-checked, not skipped);
    - an ERROR query code makes `execute_ready_steps` raise (the model's
      SABORT); nothing on the way catches it without re-raising, so the
      interpreter exits with status 1 (CPython's status for an uncaught
      exception -- a fact about the interpreter, recorded as `abort_exit`).
* `exit_code := exit_code_conductor`, plus `exit_paths_agree`.
"""
import ast
import os

from translate.regen import NotTranslatable

ENUMS = "maestrowf/abstracts/enums/__init__.py"
COND = "maestrowf/conductor.py"
MAESTRO = "maestrowf/maestro.py"
EXECG = "maestrowf/datastructures/core/executiongraph.py"
OUT = "Gen/ExitCodes.v"
MEMBERS = {"FINISHED": "SFINISHED", "RUNNING": "SRUNNING", "FAILURE": "SFAILURE", "CANCELLED": "SCANCELLED"}
UNCAUGHT_EXIT = 1


def _fail(msg, node=None):
    if node is not None and hasattr(node, "lineno"):
        msg = "%s (line %d)" % (msg, node.lineno)
    raise NotTranslatable(msg)


def _parse(repo, rel):
    p = os.path.join(repo, rel)
    try:
        with open(p, encoding="utf-8") as f:
            return ast.parse(f.read(), filename=p)
    except (OSError, SyntaxError) as e:
        _fail("cannot parse %s: %r" % (rel, e))


def _one(items, what):
    items = list(items)
    if len(items) != 1:
        _fail("expected exactly one %s, found %d" % (what, len(items)))
    return items[0]


def _is_status_member(node, member):
    return (isinstance(node, ast.Attribute) and node.attr == member and
            isinstance(node.value, ast.Name) and node.value.id == "StudyStatus")


def _is_call_method(node, method):
    """<anything>.<method>() without arguments"""
    return (isinstance(node, ast.Call) and isinstance(node.func, ast.Attribute) and node.func.attr == method
            and not node.args and not node.keywords)


def _is_value_of(node, var):
    return (isinstance(node, ast.Attribute) and node.attr == "value" and
            isinstance(node.value, ast.Name) and node.value.id == var)


def _code_expr(node, var, what):
    """Gallina text (over `r : SStatus`, with `sv r` the value of the status) of the integer
    expression `node`, in which the study status is the local variable `var`."""
    if _is_value_of(node, var):
        return "sv r"
    if isinstance(node, ast.Constant) and isinstance(node.value, int) and not isinstance(node.value, bool) \
            and abs(node.value) < 10 ** 6:
        return "(%d)%%Z" % node.value
    if isinstance(node, ast.UnaryOp) and isinstance(node.op, ast.USub):
        inner = _code_expr(node.operand, var, what)
        return "(Z.opp %s)" % inner
    if isinstance(node, ast.IfExp):
        t = node.test
        if isinstance(t, ast.Compare) and len(t.ops) == 1 and isinstance(t.ops[0], (ast.Eq, ast.NotEq, ast.Is, ast.IsNot)) \
                and isinstance(t.left, ast.Name) and t.left.id == var \
                and isinstance(t.comparators[0], ast.Attribute) and t.comparators[0].attr in MEMBERS \
                and isinstance(t.comparators[0].value, ast.Name) and t.comparators[0].value.id == "StudyStatus":
            a, b = _code_expr(node.body, var, what), _code_expr(node.orelse, var, what)
            if isinstance(t.ops[0], (ast.NotEq, ast.IsNot)):
                a, b = b, a
            return "(if sstatus_eqb r %s then %s else %s)" % (MEMBERS[t.comparators[0].attr], a, b)
    _fail("%s: exit-status expression not understood" % what, node)


def _is_sys_exit(node):
    return (isinstance(node, ast.Call) and isinstance(node.func, ast.Attribute) and node.func.attr == "exit"
            and isinstance(node.func.value, ast.Name) and node.func.value.id == "sys")


def _walk_no_nested_defs(fn):
    """all nodes of a function body, not descending into nested defs/lambdas/classes"""
    todo = list(fn.body)
    while todo:
        n = todo.pop()
        yield n
        for ch in ast.iter_child_nodes(n):
            if isinstance(ch, (ast.FunctionDef, ast.AsyncFunctionDef, ast.Lambda, ast.ClassDef)):
                _fail("nested definition inside %s" % fn.name, ch)
            todo.append(ch)


def _assigned_names(fn):
    out = []
    for n in _walk_no_nested_defs(fn):
        if isinstance(n, ast.Assign):
            for t in n.targets:
                for m in ast.walk(t):
                    if isinstance(m, ast.Name):
                        out.append((m.id, n))
        elif isinstance(n, (ast.AugAssign, ast.AnnAssign)):
            for m in ast.walk(n.target):
                if isinstance(m, ast.Name):
                    out.append((m.id, n))
        elif isinstance(n, (ast.For, ast.AsyncFor)):
            for m in ast.walk(n.target):
                if isinstance(m, ast.Name):
                    out.append((m.id, n))
        elif isinstance(n, (ast.With, ast.AsyncWith)):
            for it in n.items:
                if it.optional_vars is not None:
                    for m in ast.walk(it.optional_vars):
                        if isinstance(m, ast.Name):
                            out.append((m.id, n))
        elif isinstance(n, ast.ExceptHandler) and n.name:
            out.append((n.name, n))
        elif isinstance(n, ast.NamedExpr):
            out.append((n.target.id, n))
        elif isinstance(n, (ast.Global, ast.Nonlocal, ast.Delete)):
            _fail("global/nonlocal/del in %s" % fn.name, n)
    return out


# ----------------------------------------------------------------------------
def enum_values(repo):
    tree = _parse(repo, ENUMS)
    cls = _one((n for n in tree.body if isinstance(n, ast.ClassDef) and n.name == "StudyStatus"),
               "class StudyStatus in " + ENUMS)
    if not any(isinstance(b, ast.Name) and b.id == "Enum" for b in cls.bases):
        _fail("StudyStatus is not an Enum", cls)
    vals = {}
    for st in cls.body:
        if isinstance(st, ast.Expr) and isinstance(st.value, ast.Constant) and isinstance(st.value.value, str):
            continue
        if isinstance(st, ast.Pass):
            continue
        if isinstance(st, ast.Assign) and len(st.targets) == 1 and isinstance(st.targets[0], ast.Name):
            v = st.value
            if not (isinstance(v, ast.Constant) and isinstance(v.value, int) and not isinstance(v.value, bool)):
                _fail("StudyStatus member with a non-integer-literal value", st)
            if st.targets[0].id in vals:
                _fail("StudyStatus member defined twice", st)
            vals[st.targets[0].id] = v.value
        else:
            _fail("unsupported statement in StudyStatus (custom methods could change .value)", st)
    if set(vals) != set(MEMBERS):
        _fail("StudyStatus members are %s, the model knows %s" % (sorted(vals), sorted(MEMBERS)))
    if not all(abs(v) < 10 ** 6 for v in vals.values()):
        _fail("StudyStatus value out of range")
    return vals


def check_monitor_study(tree):
    cls = _one((n for n in tree.body if isinstance(n, ast.ClassDef) and n.name == "Conductor"),
               "class Conductor in " + COND)
    fn = _one((n for n in cls.body if isinstance(n, ast.FunctionDef) and n.name == "monitor_study"),
              "Conductor.monitor_study")
    rets = [n for n in _walk_no_nested_defs(fn) if isinstance(n, ast.Return)]
    ret = _one(rets, "return statement in monitor_study")
    if fn.body[-1] is not ret or not isinstance(ret.value, ast.Name):
        _fail("monitor_study does not end with `return <variable>`", ret)
    var = ret.value.id
    assigns = [n for name, n in _assigned_names(fn) if name == var]
    if len(assigns) != 2:
        _fail("monitor_study assigns its result variable %d times (expected 2)" % len(assigns), fn)
    loops = [n for n in fn.body if isinstance(n, ast.While)]
    loop = _one(loops, "top-level while loop in monitor_study")
    t = loop.test
    if not (isinstance(t, ast.Compare) and len(t.ops) == 1 and isinstance(t.ops[0], ast.Eq)
            and isinstance(t.left, ast.Name) and t.left.id == var
            and _is_status_member(t.comparators[0], "RUNNING")) or loop.orelse:
        _fail("monitor_study's loop is not `while <result> == StudyStatus.RUNNING`", loop)
    init, upd = sorted(assigns, key=lambda n: n.lineno)
    if not (isinstance(init, ast.Assign) and init in fn.body and fn.body.index(init) < fn.body.index(loop)
            and len(init.targets) == 1 and isinstance(init.targets[0], ast.Name)
            and _is_status_member(init.value, "RUNNING")):
        _fail("monitor_study's result is not initialised to StudyStatus.RUNNING before the loop", init)
    if not (isinstance(upd, ast.Assign) and upd in loop.body and len(upd.targets) == 1
            and isinstance(upd.targets[0], ast.Name) and _is_call_method(upd.value, "execute_ready_steps")):
        _fail("monitor_study's result is not assigned from execute_ready_steps() directly in the loop body", upd)
    for n in ast.walk(loop):
        if isinstance(n, (ast.Break, ast.Return)):
            _fail("break/return inside the monitor loop", n)
    after = fn.body[fn.body.index(loop) + 1:]
    if after != [ret]:
        _fail("statements between the monitor loop and the return", after[0])


def _ends_reraising(handler):
    last = handler.body[-1]
    if not isinstance(last, ast.Raise):
        return False
    if last.exc is None:
        return True
    return isinstance(last.exc, ast.Name) and last.exc.id == handler.name and last.cause is None


def check_conductor_main(tree):
    fn = _one((n for n in tree.body if isinstance(n, ast.FunctionDef) and n.name == "main"), "main in " + COND)
    nodes = list(_walk_no_nested_defs(fn))
    exits = [n for n in nodes if _is_sys_exit(n)]
    ex = _one(exits, "sys.exit call in conductor.main")
    if len(ex.args) != 1 or ex.keywords:
        _fail("conductor.main does not call sys.exit(<one expression>)", ex)
    cands = [n for name, n in _assigned_names(fn)
             if isinstance(n, ast.Assign) and _is_call_method(n.value, "monitor_study")]
    a = _one(cands, "`<v> = <conductor>.monitor_study()` in conductor.main")
    if not (len(a.targets) == 1 and isinstance(a.targets[0], ast.Name)):
        _fail("conductor.main's status assignment not understood", a)
    var = a.targets[0].id
    if len([1 for name, _ in _assigned_names(fn) if name == var]) != 1:
        _fail("conductor.main re-assigns %s" % var, a)
    if not (a.lineno < ex.lineno):
        _fail("sys.exit precedes monitor_study() in conductor.main", ex)
    expr = _code_expr(ex.args[0], var, "conductor.main")
    for n in nodes:
        if isinstance(n, ast.Return) and n.value is not None:
            _fail("conductor.main returns a value", n)
        if isinstance(n, ast.Try):
            for h in n.handlers:
                if not _ends_reraising(h):
                    _fail("an except clause of conductor.main does not re-raise", h)
            for f in ast.walk(ast.Module(body=n.finalbody, type_ignores=[])):
                if isinstance(f, (ast.Return, ast.Break, ast.Continue)) or _is_sys_exit(f):
                    _fail("finally block of conductor.main can replace the exit status", f)
    # `if __name__ == "__main__": main()`
    tail = [n for n in tree.body if isinstance(n, ast.If)]
    if not any(any(isinstance(m, ast.Call) and isinstance(m.func, ast.Name) and m.func.id == "main" and not m.args
                   for m in ast.walk(t)) for t in tail):
        _fail("conductor module does not call main() under __main__")
    return expr


def check_maestro(tree):
    fn = _one((n for n in tree.body if isinstance(n, ast.FunctionDef) and n.name == "run_study"),
              "run_study in " + MAESTRO)
    found = None
    for blk in ast.walk(fn):
        body = getattr(blk, "body", None)
        if not isinstance(body, list):
            continue
        for lst in (body, getattr(blk, "orelse", [])):
            for i, st in enumerate(lst):
                if isinstance(st, ast.Assign) and _is_call_method(st.value, "monitor_study"):
                    if found is not None:
                        _fail("run_study calls monitor_study more than once", st)
                    found = (lst, i, st)
    if found is None:
        _fail("run_study does not call monitor_study()")
    lst, i, st = found
    if not (len(st.targets) == 1 and isinstance(st.targets[0], ast.Name)):
        _fail("run_study's status assignment not understood", st)
    var = st.targets[0].id
    if len([1 for name, _ in _assigned_names(fn) if name == var]) != 1:
        _fail("run_study re-assigns %s" % var, st)
    rest = lst[i + 1:]
    if not rest or not isinstance(rest[-1], ast.Return) or rest[-1].value is None:
        _fail("run_study's foreground branch does not end with `return <expression>`", st)
    expr = _code_expr(rest[-1].value, var, "run_study")
    for mid in rest[:-1]:
        for n in ast.walk(mid):
            if isinstance(n, (ast.Return, ast.Raise)) or _is_sys_exit(n):
                _fail("run_study can leave between monitor_study() and the return of its value", n)
    # the foreground block must not be wrapped into a try that swallows or a loop
    for n in ast.walk(fn):
        if isinstance(n, (ast.Try, ast.While, ast.For)) and any(m is st for m in ast.walk(n)):
            _fail("run_study's foreground launch sits inside a try/loop", n)
    main = _one((n for n in tree.body if isinstance(n, ast.FunctionDef) and n.name == "main"), "main in " + MAESTRO)
    nodes = list(_walk_no_nested_defs(main))
    ex = _one((n for n in nodes if _is_sys_exit(n)), "sys.exit call in maestro.main")
    if len(ex.args) != 1 or not isinstance(ex.args[0], ast.Name):
        _fail("maestro.main does not call sys.exit(<rc>)", ex)
    rc = ex.args[0].id
    a = _one((n for name, n in _assigned_names(main) if name == rc), "assignment to %s in maestro.main" % rc)
    v = a.value if isinstance(a, ast.Assign) else None
    if not (isinstance(v, ast.Call) and isinstance(v.func, ast.Attribute) and v.func.attr == "func"
            and isinstance(v.func.value, ast.Name) and v.func.value.id == "args"
            and len(v.args) == 1 and isinstance(v.args[0], ast.Name) and v.args[0].id == "args" and not v.keywords):
        _fail("maestro.main's exit status is not `args.func(args)`", a)
    for n in nodes:
        if isinstance(n, ast.Try):
            _fail("maestro.main has a try block (could swallow the abort)", n)
    # the `run` sub-command dispatches to run_study
    src_ok = False
    for n in ast.walk(tree):
        if isinstance(n, ast.Call) and isinstance(n.func, ast.Attribute) and n.func.attr == "set_defaults":
            for kw in n.keywords:
                if kw.arg == "func" and isinstance(kw.value, ast.Name) and kw.value.id == "run_study":
                    src_ok = True
    if not src_ok:
        _fail("no sub-command dispatches to run_study through set_defaults(func=run_study)")
    return expr


def check_abort(repo):
    """execute_ready_steps raises on JobStatusCode.ERROR (the model's SABORT)."""
    tree = _parse(repo, EXECG)
    cls = _one((n for n in tree.body if isinstance(n, ast.ClassDef) and n.name == "ExecutionGraph"),
               "class ExecutionGraph")
    fn = _one((n for n in cls.body if isinstance(n, ast.FunctionDef) and n.name == "execute_ready_steps"),
              "ExecutionGraph.execute_ready_steps")
    for n in ast.walk(fn):
        if isinstance(n, ast.If):
            t = n.test
            if (isinstance(t, ast.Compare) and len(t.ops) == 1 and isinstance(t.ops[0], ast.Eq)
                    and isinstance(t.comparators[0], ast.Attribute) and t.comparators[0].attr == "ERROR"
                    and isinstance(t.comparators[0].value, ast.Name)
                    and t.comparators[0].value.id == "JobStatusCode"):
                if n.body and isinstance(n.body[-1], ast.Raise):
                    return
                _fail("the JobStatusCode.ERROR branch of execute_ready_steps does not raise", n)
    _fail("no JobStatusCode.ERROR branch found in execute_ready_steps")


def generate(repo):
    vals = enum_values(repo)
    ctree = _parse(repo, COND)
    check_monitor_study(ctree)
    e_cond = check_conductor_main(ctree)
    e_fg = check_maestro(_parse(repo, MAESTRO))
    check_abort(repo)
    order = ["FINISHED", "RUNNING", "FAILURE", "CANCELLED"]
    lines = []
    lines.append("(** GENERATED by translate/tdata_exit.py from the source text of /repo -- do not edit.")
    lines.append("    Sources: %s (StudyStatus), %s (monitor_study, main)," % (ENUMS, COND))
    lines.append("    %s (run_study foreground branch, main), %s (ERROR branch raises). *)" % (MAESTRO, EXECG))
    lines.append("From Coq Require Import ZArith.")
    lines.append("From MWF Require Import Exec.ExecBase.")
    lines.append("")
    lines.append("(* %s : class StudyStatus *)" % ENUMS)
    lines.append("Definition StudyStatus_value (r : SStatus) : option Z :=")
    lines.append("  match r with")
    for m in order:
        lines.append("  | %s => Some (%d)%%Z" % (MEMBERS[m], vals[m]))
    lines.append("  | SABORT => None   (* not a StudyStatus: execute_ready_steps raises RuntimeError *)")
    lines.append("  end.")
    lines.append("")
    lines.append("(* exit status of the interpreter when an exception reaches the top level *)")
    lines.append("Definition abort_exit : Z := (%d)%%Z." % UNCAUGHT_EXIT)
    lines.append("")
    lines.append("Definition sv (r : SStatus) : Z := match StudyStatus_value r with Some v => v | None => abort_exit end.")
    lines.append("")
    lines.append("(* %s : main -- sys.exit(<expression of monitor_study()'s result>); except clauses re-raise *)" % COND)
    lines.append("Definition exit_code_conductor (r : SStatus) : Z :=")
    lines.append("  match r with SABORT => abort_exit | _ => %s end." % e_cond)
    lines.append("")
    lines.append("(* %s : run_study -fg returns <expression of monitor_study()'s result>; main: sys.exit(args.func(args)) *)" % MAESTRO)
    lines.append("Definition exit_code_maestro_fg (r : SStatus) : Z :=")
    lines.append("  match r with SABORT => abort_exit | _ => %s end." % e_fg)
    lines.append("")
    lines.append("Definition exit_code : SStatus -> Z := exit_code_conductor.")
    lines.append("")
    return {OUT: "\n".join(lines)}

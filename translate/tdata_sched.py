"""T-data generator for C16: scheduler state tables and parser constants.

Parses (python `ast`, never imports) the three scheduler adapters of /repo and
emits coq/theories/Gen/SchedTables.v:

* `State`, `JobStatusCode` constructors with their numeric values
  (maestrowf/abstracts/enums/__init__.py);
* the `_state` / `state` if-chains of the Slurm, LSF and Flux adapters as
  first-match decision lists `list (str * State)` plus a default;
* the LSF `EXIT` refinement rules (trigger state, (needle, new state) list);
* parser constants: `data_row_offset`, `state_index`, `jobid_index`,
  `term_reason`, row/field separators, the regex texts, the output formats the
  commands request, and the return-code -> JobStatusCode maps of the three
  query functions (with a flag telling which branch parses the output).

Fail-closed: every shape that is not understood raises NotTranslatable.  The
recognisers accept harmless rewrites: `x == "A" or x == "B"`, `"A" == x`,
`x in ("A", "B")` / `[..]` / `{..}`, `if/elif/else`, a sequence of
`if ...: return` statements followed by a final `return`, interleaved logging
calls / docstrings / `pass`.
"""
import ast
import os

from translate.regen import NotTranslatable

ENUMS = "maestrowf/abstracts/enums/__init__.py"
SLURM = "maestrowf/interfaces/script/slurmscriptadapter.py"
LSF = "maestrowf/interfaces/script/lsfscriptadapter.py"
FLUX_DIR = "maestrowf/interfaces/script/_flux"
FLUX_MAIN = "flux0_49_0.py"
FLUX_ALSO = ("flux0_26_0.py",)     # same `status_abbrev` vocabulary


def _fail(msg, node=None):
    if node is not None and hasattr(node, "lineno"):
        msg = "%s (line %d)" % (msg, node.lineno)
    raise NotTranslatable(msg)


def _parse(repo, rel):
    p = os.path.join(repo, rel)
    try:
        with open(p, encoding="utf-8") as f:
            return ast.parse(f.read(), filename=p)
    except (OSError, SyntaxError) as e:
        _fail("cannot parse %s: %r" % (rel, e))


# ----------------------------------------------------------------------------
# generic ast helpers
# ----------------------------------------------------------------------------
def _classes(tree):
    return [n for n in tree.body if isinstance(n, ast.ClassDef)]


def _find_class(tree, pred, what):
    cs = [c for c in _classes(tree) if pred(c)]
    if len(cs) != 1:
        _fail("expected exactly one class %s, found %d" % (what, len(cs)))
    return cs[0]


def _find_func(cls, name):
    fs = [n for n in cls.body if isinstance(n, ast.FunctionDef) and n.name == name]
    if len(fs) != 1:
        _fail("expected exactly one method %s.%s, found %d" % (cls.name, name, len(fs)))
    return fs[0]


def _is_noise(st):
    """Statements without influence on the result: docstrings, logging calls, pass."""
    if isinstance(st, ast.Pass):
        return True
    if isinstance(st, ast.Expr):
        v = st.value
        if isinstance(v, ast.Constant):
            return True
        if isinstance(v, ast.Tuple) and all(_is_log_call(e) for e in v.elts):
            return True          # `LOGGER.warning(...),`  (stray comma in the source)
        return _is_log_call(v)
    return False


def _is_log_call(v):
    return (isinstance(v, ast.Call) and isinstance(v.func, ast.Attribute)
            and isinstance(v.func.value, ast.Name)
            and v.func.value.id in ("LOGGER", "logger", "logging", "LOG")
            and v.func.attr in ("debug", "info", "warning", "error", "critical", "exception", "log"))


def _enum_attr(node, enum):
    """`State.X` -> "X"."""
    if (isinstance(node, ast.Attribute) and isinstance(node.value, ast.Name)
            and node.value.id == enum):
        return node.attr
    return None


def _str_const(node):
    if isinstance(node, ast.Constant) and isinstance(node.value, str):
        return node.value
    return None


def _int_const(node):
    if isinstance(node, ast.Constant) and isinstance(node.value, int) and not isinstance(node.value, bool):
        return node.value
    if (isinstance(node, ast.UnaryOp) and isinstance(node.op, ast.USub)
            and isinstance(node.operand, ast.Constant) and isinstance(node.operand.value, int)):
        return -node.operand.value
    return None


# ----------------------------------------------------------------------------
# enums
# ----------------------------------------------------------------------------
def _enum_members(tree, name):
    cls = _find_class(tree, lambda c: c.name == name, name)
    out = []
    for st in cls.body:
        if _is_noise(st):
            continue
        if isinstance(st, ast.FunctionDef):
            continue
        if (isinstance(st, ast.Assign) and len(st.targets) == 1
                and isinstance(st.targets[0], ast.Name) and _int_const(st.value) is not None):
            out.append((st.targets[0].id, _int_const(st.value)))
        else:
            _fail("enum %s: unexpected member statement" % name, st)
    if not out:
        _fail("enum %s has no members" % name)
    if len(set(n for n, _ in out)) != len(out) or len(set(v for _, v in out)) != len(out):
        _fail("enum %s: duplicate names/values (aliases) not supported" % name)
    if any(v < 0 for _, v in out):
        _fail("enum %s: negative value" % name)
    return out


# ----------------------------------------------------------------------------
# state tables: if-chains of string equalities
# ----------------------------------------------------------------------------
def _test_strings(test, arg):
    """The list of string constants the test compares `arg` against
    (a disjunction of equalities / a membership test in a literal)."""
    if isinstance(test, ast.BoolOp) and isinstance(test.op, ast.Or):
        out = []
        for v in test.values:
            out.extend(_test_strings(v, arg))
        return out
    if isinstance(test, ast.Compare) and len(test.ops) == 1 and len(test.comparators) == 1:
        l, op, r = test.left, test.ops[0], test.comparators[0]
        if isinstance(op, ast.Eq):
            if isinstance(l, ast.Name) and l.id == arg and _str_const(r) is not None:
                return [_str_const(r)]
            if isinstance(r, ast.Name) and r.id == arg and _str_const(l) is not None:
                return [_str_const(l)]
        if isinstance(op, ast.In) and isinstance(l, ast.Name) and l.id == arg \
                and isinstance(r, (ast.Tuple, ast.List, ast.Set)):
            vals = [_str_const(e) for e in r.elts]
            if all(v is not None for v in vals):
                return vals
    _fail("state test is not a disjunction of string equalities on %r" % arg, test)


def _state_chain(stmts, arg, enum="State"):
    """stmts -> ([(string, member)] in first-match order, default member)."""
    table = []
    rest = [s for s in stmts if not _is_noise(s)]
    while True:
        if not rest:
            _fail("state chain of %r falls off the end without a default return" % arg)
        st = rest[0]
        if isinstance(st, ast.Return):
            m = _enum_attr(st.value, enum)
            if m is None:
                _fail("default return is not %s.<member>" % enum, st)
            return table, m
        if not isinstance(st, ast.If):
            _fail("unexpected statement in state chain", st)
        keys = _test_strings(st.test, arg)
        body = [s for s in st.body if not _is_noise(s)]
        if len(body) != 1 or not isinstance(body[0], ast.Return) or _enum_attr(body[0].value, enum) is None:
            _fail("branch body is not a single `return %s.<member>`" % enum, st)
        m = _enum_attr(body[0].value, enum)
        table.extend((k, m) for k in keys)
        if st.orelse:
            if len([s for s in rest[1:] if not _is_noise(s)]) > 0:
                # statements after an if/else whose branches all return are unreachable
                pass
            rest = [s for s in st.orelse if not _is_noise(s)]
        else:
            rest = rest[1:]


def _state_table(cls, fname):
    fn = _find_func(cls, fname)
    args = [a.arg for a in fn.args.args if a.arg not in ("self", "cls")]
    if len(args) != 1:
        _fail("%s.%s: expected one argument" % (cls.name, fname), fn)
    return _state_chain(fn.body, args[0])


# ----------------------------------------------------------------------------
# parser constants
# ----------------------------------------------------------------------------
def _walk_no_nested_funcs(node):
    for n in ast.walk(node):
        yield n


def _name_consts(fn):
    """Top-level-in-function simple assignments NAME = <int|str|[str,..]>;
    a name assigned twice (anywhere in the function) is rejected."""
    vals, count = {}, {}
    for n in ast.walk(fn):
        tgts = []
        if isinstance(n, ast.Assign):
            tgts = [t for t in n.targets]
        elif isinstance(n, (ast.AugAssign, ast.AnnAssign)):
            tgts = [n.target]
        for t in tgts:
            for nm in ast.walk(t):
                if isinstance(nm, ast.Name) and isinstance(nm.ctx, ast.Store):
                    count[nm.id] = count.get(nm.id, 0) + 1
    for st in fn.body:
        if isinstance(st, ast.Assign) and len(st.targets) == 1 and isinstance(st.targets[0], ast.Name):
            v = st.value
            if _int_const(v) is not None:
                vals[st.targets[0].id] = _int_const(v)
            elif _str_const(v) is not None:
                vals[st.targets[0].id] = _str_const(v)
            elif isinstance(v, ast.List) and all(_str_const(e) is not None for e in v.elts):
                vals[st.targets[0].id] = [_str_const(e) for e in v.elts]
    return {k: v for k, v in vals.items() if count.get(k) == 1}


def _resolve_int(node, consts, what):
    v = _int_const(node)
    if v is None and isinstance(node, ast.Name) and isinstance(consts.get(node.id), int):
        v = consts[node.id]
    if v is None or v < 0:
        _fail("%s is not a non-negative integer constant" % what, node)
    return v


def _need(consts, name, ty, where):
    v = consts.get(name)
    if not isinstance(v, ty) or isinstance(v, bool) or (ty is int and v < 0):
        _fail("%s: constant %s not found (or assigned more than once / not a literal)" % (where, name))
    return v


def _row_loop(stmts, consts, where):
    """Find `for <row> in <out>.split(SEP)[K:]:` directly in stmts."""
    loops = [s for s in stmts if isinstance(s, ast.For)]
    if len(loops) != 1:
        _fail("%s: expected exactly one row loop, found %d" % (where, len(loops)))
    lp = loops[0]
    it = lp.iter
    if not (isinstance(it, ast.Subscript) and isinstance(it.slice, ast.Slice)
            and it.slice.upper is None and it.slice.step is None and it.slice.lower is not None):
        _fail("%s: row loop does not iterate over <text>.split(sep)[k:]" % where, lp)
    call = it.value
    if not (isinstance(call, ast.Call) and isinstance(call.func, ast.Attribute) and call.func.attr == "split"
            and isinstance(call.func.value, ast.Name) and call.func.value.id == "output"
            and len(call.args) == 1 and not call.keywords and _str_const(call.args[0]) is not None):
        _fail("%s: row loop does not split `output` on a literal separator" % where, lp)
    sep = _str_const(call.args[0])
    if len(sep) != 1:
        _fail("%s: row separator is not one character" % where, lp)
    if not isinstance(lp.target, ast.Name):
        _fail("%s: row loop target" % where, lp)
    return lp, sep, _resolve_int(it.slice.lower, consts, where + " data row offset")


def _field_split(lp, where):
    """The statement that splits a row into fields:  re.split(PAT, row)  or
    [x.strip() for x in row.split(DELIM)]."""
    row = lp.target.id
    for st in lp.body:
        if not (isinstance(st, ast.Assign) and len(st.targets) == 1 and isinstance(st.targets[0], ast.Name)):
            continue
        v = st.value
        if (isinstance(v, ast.Call) and isinstance(v.func, ast.Attribute) and v.func.attr == "split"
                and isinstance(v.func.value, ast.Name) and v.func.value.id == "re"
                and len(v.args) == 2 and _str_const(v.args[0]) is not None
                and isinstance(v.args[1], ast.Name) and v.args[1].id == row and not v.keywords):
            return ("re", _str_const(v.args[0]), st.targets[0].id)
        if (isinstance(v, ast.ListComp) and len(v.generators) == 1 and not v.generators[0].ifs
                and isinstance(v.elt, ast.Call) and isinstance(v.elt.func, ast.Attribute)
                and v.elt.func.attr == "strip" and not v.elt.args
                and isinstance(v.elt.func.value, ast.Name)
                and isinstance(v.generators[0].target, ast.Name)
                and v.elt.func.value.id == v.generators[0].target.id):
            it = v.generators[0].iter
            if (isinstance(it, ast.Call) and isinstance(it.func, ast.Attribute) and it.func.attr == "split"
                    and isinstance(it.func.value, ast.Name) and it.func.value.id == row
                    and len(it.args) == 1 and _str_const(it.args[0]) is not None
                    and len(_str_const(it.args[0])) == 1):
                return ("strip", _str_const(it.args[0]), st.targets[0].id)
        break
    _fail("%s: first assignment of the row loop is not a recognised field split" % where, lp)


def _uses_index(lp, fields, idx_names):
    """Every subscript of the field list inside the loop is by one of the
    named constants, literal 0, or a `[1:]` slice (dropping a blank head)."""
    for n in ast.walk(lp):
        if isinstance(n, ast.Subscript) and isinstance(n.value, ast.Name) and n.value.id == fields:
            s = n.slice
            if isinstance(s, ast.Name) and s.id in idx_names:
                continue
            if _int_const(s) == 0:
                continue
            if (isinstance(s, ast.Slice) and _int_const(s.lower) == 1 and s.upper is None and s.step is None):
                continue
            _fail("field list indexed by something other than the named column constants", n)


def _has_blank_head_drop(lp, fields, kind):
    """kind 'if' / 'while' / None: `if|while fields[0] == "": fields = fields[1:]`."""
    found = None
    for st in lp.body:
        if isinstance(st, (ast.If, ast.While)) and not st.orelse:
            t = st.test
            if (isinstance(t, ast.Compare) and len(t.ops) == 1 and isinstance(t.ops[0], ast.Eq)
                    and isinstance(t.left, ast.Subscript) and isinstance(t.left.value, ast.Name)
                    and t.left.value.id == fields and _int_const(t.left.slice) == 0
                    and _str_const(t.comparators[0]) == ""):
                body = [s for s in st.body if not _is_noise(s)]
                if (len(body) == 1 and isinstance(body[0], ast.Assign)
                        and isinstance(body[0].targets[0], ast.Name) and body[0].targets[0].id == fields
                        and isinstance(body[0].value, ast.Subscript)
                        and isinstance(body[0].value.slice, ast.Slice)
                        and _int_const(body[0].value.slice.lower) == 1):
                    k = "if" if isinstance(st, ast.If) else "while"
                    if found is not None:
                        _fail("two blank-head drops in one row loop", st)
                    found = k
    if found != kind:
        _fail("row loop: blank-head handling is %r, expected %r" % (found, kind), lp)
    return found


def _rc_chain(fn, where):
    """The top-level `if retcode == K: ... elif ...: else:` of a query function
    -> ([(K, parses_output, code)], default_code, parse_branch_stmts)."""
    chains = [s for s in fn.body if isinstance(s, ast.If) and _rc_test(s.test) is not None]
    if len(chains) != 1:
        _fail("%s: expected exactly one `if retcode == <int>` chain, found %d" % (where, len(chains)))
    st = chains[0]
    after = [s for s in fn.body[fn.body.index(st) + 1:] if not _is_noise(s)]
    out, parse_body = [], None
    while True:
        k = _rc_test(st.test)
        if k is None:
            _fail("%s: return-code test is not `retcode == <int>`" % where, st)
        body = [s for s in st.body if not _is_noise(s)]
        code, _ = _ret_code(body[-1] if body else None, where)
        parses = any(isinstance(s, ast.For) for s in body)
        if parses:
            if parse_body is not None:
                _fail("%s: two branches parse the output" % where, st)
            parse_body = body
        else:
            if len(body) != 1:
                _fail("%s: non-parsing return-code branch does more than return" % where, st)
            if not _second_is_status(body[0]):
                _fail("%s: non-parsing branch does not return the untouched status dict" % where, st)
        out.append((k, parses, code))
        rest = [s for s in st.orelse if not _is_noise(s)]
        if not rest:
            rest = after
            if not rest:
                _fail("%s: return-code chain has no default" % where, st)
        if len(rest) == 1 and isinstance(rest[0], ast.If):
            st = rest[0]
            continue
        if len(rest) != 1 or not _second_is_status(rest[0]):
            _fail("%s: default branch is not a single `return <code>, status`" % where, st)
        dcode, _ = _ret_code(rest[0], where)
        break
    if parse_body is None:
        _fail("%s: no return-code branch parses the output" % where)
    if len(set(k for k, _, _ in out)) != len(out):
        _fail("%s: duplicate return-code tests" % where)
    return out, dcode, parse_body


def _rc_test(t):
    if (isinstance(t, ast.Compare) and len(t.ops) == 1 and isinstance(t.ops[0], ast.Eq)):
        l, r = t.left, t.comparators[0]
        if isinstance(l, ast.Name) and l.id == "retcode" and _int_const(r) is not None:
            return _int_const(r)
        if isinstance(r, ast.Name) and r.id == "retcode" and _int_const(l) is not None:
            return _int_const(l)
    return None


def _ret_code(st, where):
    if not (isinstance(st, ast.Return) and isinstance(st.value, ast.Tuple) and len(st.value.elts) == 2):
        _fail("%s: branch does not end in `return JobStatusCode.X, <dict>`" % where, st)
    c = _enum_attr(st.value.elts[0], "JobStatusCode")
    if c is None:
        _fail("%s: returned code is not JobStatusCode.<member>" % where, st)
    return c, st.value.elts[1]


def _second_is_status(st):
    return (isinstance(st, ast.Return) and isinstance(st.value, ast.Tuple) and len(st.value.elts) == 2
            and isinstance(st.value.elts[1], ast.Name) and st.value.elts[1].id == "status")


def _membership_update(lp, fields, where):
    """The `if fields[jobid_index] in status:` statement of the row loop."""
    for st in lp.body:
        if isinstance(st, ast.If) and not st.orelse:
            t = st.test
            if (isinstance(t, ast.Compare) and len(t.ops) == 1 and isinstance(t.ops[0], ast.In)
                    and isinstance(t.left, ast.Subscript) and isinstance(t.left.value, ast.Name)
                    and t.left.value.id == fields and isinstance(t.left.slice, ast.Name)
                    and t.left.slice.id == "jobid_index"
                    and isinstance(t.comparators[0], ast.Name) and t.comparators[0].id == "status"):
                return st
    _fail("%s: `if %s[jobid_index] in status:` not found in the row loop" % (where, fields), lp)


def _slurm_query(cls, fname, fmt_name, blank_kind):
    fn = _find_func(cls, fname)
    consts = _name_consts(fn)
    rc, dflt, body = _rc_chain(fn, fname)
    lp, sep, off = _row_loop(body, consts, fname)
    kind, pat, fields = _field_split(lp, fname)
    if kind != "re":
        _fail("%s: fields are not split with re.split" % fname, lp)
    _uses_index(lp, fields, ("jobid_index", "state_index"))
    _has_blank_head_drop(lp, fields, blank_kind)
    upd = _membership_update(lp, fields, fname)
    # the update must be  status[fields[jobid_index]] = self._state(fields[state_index])
    asg = [s for s in upd.body if not _is_noise(s)]
    ok = (len(asg) == 1 and isinstance(asg[0], ast.Assign) and len(asg[0].targets) == 1)
    if ok:
        t, v = asg[0].targets[0], asg[0].value
        ok = (isinstance(t, ast.Subscript) and isinstance(t.value, ast.Name) and t.value.id == "status"
              and isinstance(t.slice, ast.Subscript) and isinstance(t.slice.slice, ast.Name)
              and t.slice.slice.id == "jobid_index"
              and isinstance(v, ast.Call) and isinstance(v.func, ast.Attribute) and v.func.attr == "_state"
              and len(v.args) == 1 and isinstance(v.args[0], ast.Subscript)
              and isinstance(v.args[0].slice, ast.Name) and v.args[0].slice.id == "state_index")
    if not ok:
        _fail("%s: update is not status[f[jobid_index]] = self._state(f[state_index])" % fname, upd)
    fmt = consts.get(fmt_name)
    if isinstance(fmt, list):
        fmt = ",".join(fmt)
    if not isinstance(fmt, str):
        _fail("%s: output format %s not found" % (fname, fmt_name))
    return {
        "offset": off, "sep": sep, "pattern": pat,
        "state_index": _need(consts, "state_index", int, fname),
        "jobid_index": _need(consts, "jobid_index", int, fname),
        "fmt": fmt, "rc": rc, "rc_default": dflt,
        "drop_blank_head": blank_kind is not None,
    }


def _lsf_query(cls):
    fname = "check_jobs"
    fn = _find_func(cls, fname)
    consts = _name_consts(fn)
    rc, dflt, body = _rc_chain(fn, fname)
    lp, sep, off = _row_loop(body, consts, fname)
    kind, delim, fields = _field_split(lp, fname)
    if kind != "strip":
        _fail("lsf check_jobs: fields are not `[x.strip() for x in row.split(d)]`", lp)
    _uses_index(lp, fields, ("jobid_index", "state_index", "term_reason"))
    _has_blank_head_drop(lp, fields, "while")
    # minimum field count:  if len(fields) < N: continue
    minf = None
    for st in lp.body:
        if isinstance(st, ast.If) and not st.orelse:
            t = st.test
            if (isinstance(t, ast.Compare) and len(t.ops) == 1 and isinstance(t.ops[0], ast.Lt)
                    and isinstance(t.left, ast.Call) and isinstance(t.left.func, ast.Name)
                    and t.left.func.id == "len" and len(t.left.args) == 1
                    and isinstance(t.left.args[0], ast.Name) and t.left.args[0].id == fields
                    and _int_const(t.comparators[0]) is not None):
                b = [s for s in st.body if not _is_noise(s)]
                if len(b) == 1 and isinstance(b[0], ast.Continue):
                    minf = _int_const(t.comparators[0])
    if minf is None or minf < 0:
        _fail("lsf check_jobs: `if len(fields) < N: continue` not found", lp)
    # the no-jobs early return of the parsing branch
    nj = None
    for st in body:
        if isinstance(st, ast.If) and isinstance(st.test, ast.Name) and st.test.id == "no_jobs" and not st.orelse:
            b = [s for s in st.body if not _is_noise(s)]
            if len(b) == 1:
                code, d = _ret_code(b[0], "lsf no-jobs")
                if isinstance(d, ast.Dict) and not d.keys:
                    nj = (code, True)
                elif isinstance(d, ast.Name) and d.id == "status":
                    nj = (code, False)
    if nj is None:
        _fail("lsf check_jobs: `if no_jobs: return <code>, {}` not found")
    # no_jobs = re.search(self.NOJOB_REGEX, output)
    okre = False
    for st in body:
        if (isinstance(st, ast.Assign) and len(st.targets) == 1 and isinstance(st.targets[0], ast.Name)
                and st.targets[0].id == "no_jobs"):
            v = st.value
            okre = (isinstance(v, ast.Call) and isinstance(v.func, ast.Attribute) and v.func.attr == "search"
                    and isinstance(v.func.value, ast.Name) and v.func.value.id == "re" and len(v.args) == 2
                    and isinstance(v.args[0], ast.Attribute) and v.args[0].attr == "NOJOB_REGEX"
                    and isinstance(v.args[1], ast.Name) and v.args[1].id == "output" and not v.keywords)
    if not okre:
        _fail("lsf check_jobs: `no_jobs = re.search(self.NOJOB_REGEX, output)` not found")
    regex = None
    for st in cls.body:
        if (isinstance(st, ast.Assign) and len(st.targets) == 1 and isinstance(st.targets[0], ast.Name)
                and st.targets[0].id == "NOJOB_REGEX"):
            v = st.value
            if (isinstance(v, ast.Call) and isinstance(v.func, ast.Attribute) and v.func.attr == "compile"
                    and len(v.args) == 1 and not v.keywords and _str_const(v.args[0]) is not None):
                regex = _str_const(v.args[0])
    if regex is None:
        _fail("lsf: NOJOB_REGEX = re.compile(<literal>) not found")
    # EXIT refinement
    upd = _membership_update(lp, fields, fname)
    trigger, rules, var = _lsf_refinement(upd, fields)
    fmt = consts.get("o_format")
    if not isinstance(fmt, str):
        _fail("lsf check_jobs: o_format not found")
    return {
        "offset": off, "sep": sep, "delim": delim, "min_fields": minf,
        "state_index": _need(consts, "state_index", int, fname),
        "jobid_index": _need(consts, "jobid_index", int, fname),
        "term_reason": _need(consts, "term_reason", int, fname),
        "fmt": fmt, "rc": rc, "rc_default": dflt,
        "nojob_code": nj[0], "nojob_empty": nj[1], "nojob_regex": regex,
        "exit_trigger": trigger, "exit_rules": rules,
    }


def _is_field(node, fields, idx):
    return (isinstance(node, ast.Subscript) and isinstance(node.value, ast.Name) and node.value.id == fields
            and isinstance(node.slice, ast.Name) and node.slice.id == idx)


def _lsf_refinement(upd, fields):
    """
    if f[state_index] == "EXIT":
        if "A" in f[term_reason]: v = "X"
        elif "B" in f[term_reason]: v = "Y"
        else: v = f[state_index]
    else: v = f[state_index]
    <x> = self._state(v) ; status[f[jobid_index]] = <x>
    """
    body = [s for s in upd.body if not _is_noise(s)]
    if not body or not isinstance(body[0], ast.If):
        _fail("lsf: EXIT refinement `if` not found", upd)
    top = body[0]
    t = top.test
    if not (isinstance(t, ast.Compare) and len(t.ops) == 1 and isinstance(t.ops[0], ast.Eq)
            and _is_field(t.left, fields, "state_index") and _str_const(t.comparators[0]) is not None):
        _fail("lsf: refinement trigger is not f[state_index] == <literal>", top)
    trigger = _str_const(t.comparators[0])

    def ident(stmts):
        b = [s for s in stmts if not _is_noise(s)]
        if (len(b) == 1 and isinstance(b[0], ast.Assign) and isinstance(b[0].targets[0], ast.Name)
                and _is_field(b[0].value, fields, "state_index")):
            return b[0].targets[0].id
        return None

    var = ident(top.orelse)
    if var is None:
        _fail("lsf: non-trigger branch is not `v = f[state_index]`", top)
    rules = []
    cur = [s for s in top.body if not _is_noise(s)]
    while True:
        if len(cur) == 1 and isinstance(cur[0], ast.If):
            st = cur[0]
            tt = st.test
            if not (isinstance(tt, ast.Compare) and len(tt.ops) == 1 and isinstance(tt.ops[0], ast.In)
                    and _str_const(tt.left) is not None and _is_field(tt.comparators[0], fields, "term_reason")):
                _fail("lsf: refinement rule test is not `<literal> in f[term_reason]`", st)
            b = [s for s in st.body if not _is_noise(s)]
            if not (len(b) == 1 and isinstance(b[0], ast.Assign) and isinstance(b[0].targets[0], ast.Name)
                    and b[0].targets[0].id == var and _str_const(b[0].value) is not None):
                _fail("lsf: refinement rule body is not `%s = <literal>`" % var, st)
            rules.append((_str_const(tt.left), _str_const(b[0].value)))
            cur = [s for s in st.orelse if not _is_noise(s)]
            continue
        if ident(cur) == var:
            break
        _fail("lsf: refinement chain does not end in `%s = f[state_index]`" % var, top)
    rest = body[1:]
    ok = len(rest) == 2
    if ok:
        a, b = rest
        ok = (isinstance(a, ast.Assign) and isinstance(a.targets[0], ast.Name)
              and isinstance(a.value, ast.Call) and isinstance(a.value.func, ast.Attribute)
              and a.value.func.attr == "_state" and len(a.value.args) == 1
              and isinstance(a.value.args[0], ast.Name) and a.value.args[0].id == var
              and isinstance(b, ast.Assign) and isinstance(b.targets[0], ast.Subscript)
              and isinstance(b.targets[0].value, ast.Name) and b.targets[0].value.id == "status"
              and _is_field(b.targets[0].slice, fields, "jobid_index")
              and isinstance(b.value, ast.Name) and b.value.id == a.targets[0].id)
    if not ok:
        _fail("lsf: update is not `x = self._state(%s); status[f[jobid_index]] = x`" % var, upd)
    return trigger, rules, var


# ----------------------------------------------------------------------------
# Gallina printing
# ----------------------------------------------------------------------------
def g_str(s):
    if all(32 <= ord(c) < 127 and c != '"' for c in s):
        return '(s "%s")' % s
    return "[" + "; ".join("%d%%N" % ord(c) for c in s) + "]"


def g_table(name, tbl, default, src):
    rows = ";\n".join("  (%s, %s)" % (g_str(k), m) for k, m in tbl)
    return ("(* %s *)\nDefinition %s_table : list (str * State) := [\n%s\n].\n"
            "Definition %s_default : State := %s.\n" % (src, name, rows, name, default))


def g_rc(name, rc, dflt):
    rows = "; ".join("((%d)%%Z, (%s, JS_%s))" % (k, "true" if p else "false", c) for k, p, c in rc)
    return ("Definition %s_rc_map : list (Z * (bool * JobStatusCode)) := [%s].\n"
            "Definition %s_rc_default : JobStatusCode := JS_%s.\n" % (name, rows, name, dflt))


def generate(repo):
    en = _parse(repo, ENUMS)
    states = _enum_members(en, "State")
    jsc = _enum_members(en, "JobStatusCode")
    if sorted(n for n, _ in jsc) != ["ERROR", "NOJOBS", "OK"]:
        _fail("JobStatusCode members changed: %r" % (jsc,))
    state_names = set(n for n, _ in states)

    sl = _parse(repo, SLURM)
    slcls = _find_class(sl, lambda c: any(isinstance(n, ast.FunctionDef) and n.name == "_check_jobs_squeue"
                                          for n in c.body), "with _check_jobs_squeue")
    slurm_tbl, slurm_def = _state_table(slcls, "_state")
    sq = _slurm_query(slcls, "_check_jobs_squeue", "squeue_fmt", "if")
    sa = _slurm_query(slcls, "_check_jobs_sacct", "sacct_fmt", None)

    ls = _parse(repo, LSF)
    lscls = _find_class(ls, lambda c: any(isinstance(n, ast.Assign) and isinstance(n.targets[0], ast.Name)
                                          and n.targets[0].id == "NOJOB_REGEX" for n in c.body),
                        "with NOJOB_REGEX")
    lsf_tbl, lsf_def = _state_table(lscls, "_state")
    lq = _lsf_query(lscls)

    flux = []
    for fn in (FLUX_MAIN,) + FLUX_ALSO:
        p = os.path.join(FLUX_DIR, fn)
        if not os.path.exists(os.path.join(repo, p)):
            if fn == FLUX_MAIN:
                _fail("missing " + p)
            continue
        tr = _parse(repo, p)
        cls = _find_class(tr, lambda c: any(isinstance(n, ast.FunctionDef) and n.name == "state"
                                            for n in c.body), "with state() in " + fn)
        t, d = _state_table(cls, "state")
        flux.append((fn[:-3], p, t, d))

    for nm, tbl, d in [("slurm", slurm_tbl, slurm_def), ("lsf", lsf_tbl, lsf_def)] + \
                      [(f[0], f[2], f[3]) for f in flux]:
        for k, m in tbl + [("<default>", d)]:
            if m not in state_names:
                _fail("%s table: State.%s is not a member of the State enum" % (nm, m))

    o = []
    o.append("(** GENERATED by translate/tdata_sched.py from the source text of /repo -- do not edit.\n"
             "    State/JobStatusCode enums, the three scheduler state tables (first-match decision\n"
             "    lists), the LSF EXIT refinement and the parser constants of squeue/sacct/bjobs. *)\n"
             "From Coq Require Import List NArith ZArith String.\n"
             "From MWF Require Import Base.Str.\n"
             "Import ListNotations.\n")
    o.append("(* %s : class State *)\nInductive State : Set :=\n%s.\n" % (
        ENUMS, "\n".join("| %s" % n for n, _ in states)))
    o.append("Definition State_value (x : State) : N :=\n  match x with\n%s\n  end.\n" % (
        "\n".join("  | %s => %d%%N" % (n, v) for n, v in states)))
    o.append("Definition State_all : list State := [%s].\n" % "; ".join(n for n, _ in states))
    o.append("(* %s : class JobStatusCode *)\nInductive JobStatusCode : Set :=\n%s.\n" % (
        ENUMS, "\n".join("| JS_%s" % n for n, _ in jsc)))
    o.append("Definition JobStatusCode_value (x : JobStatusCode) : N :=\n  match x with\n%s\n  end.\n" % (
        "\n".join("  | JS_%s => %d%%N" % (n, v) for n, v in jsc)))

    o.append(g_table("slurm", slurm_tbl, slurm_def, SLURM + " : _state"))
    o.append(g_table("lsf", lsf_tbl, lsf_def, LSF + " : _state"))
    for nm, p, t, d in flux:
        o.append(g_table(nm, t, d, p + " : state"))
    o.append("Definition flux_table := %s_table.\nDefinition flux_default := %s_default.\n" % (flux[0][0], flux[0][0]))
    o.append("Definition flux_tables : list (str * (list (str * State) * State)) := [%s].\n" % "; ".join(
        "(%s, (%s_table, %s_default))" % (g_str(nm), nm, nm) for nm, _, _, _ in flux))

    o.append("(* %s : check_jobs -- refinement of the bjobs state by the exit reason *)" % LSF)
    o.append("Definition lsf_exit_trigger : str := %s." % g_str(lq["exit_trigger"]))
    o.append("Definition lsf_exit_rules : list (str * str) := [%s].\n" % "; ".join(
        "(%s, %s)" % (g_str(a), g_str(b)) for a, b in lq["exit_rules"]))

    for nm, q, src in (("sq", sq, "_check_jobs_squeue"), ("sa", sa, "_check_jobs_sacct")):
        o.append("(* %s : %s *)" % (SLURM, src))
        o.append("Definition %s_row_sep : N := %d%%N." % (nm, ord(q["sep"])))
        o.append("Definition %s_split_regex : str := %s." % (nm, g_str(q["pattern"])))
        o.append("Definition %s_data_row_offset : nat := %d." % (nm, q["offset"]))
        o.append("Definition %s_state_index : nat := %d." % (nm, q["state_index"]))
        o.append("Definition %s_jobid_index : nat := %d." % (nm, q["jobid_index"]))
        o.append("Definition %s_drop_blank_head : bool := %s." % (nm, "true" if q["drop_blank_head"] else "false"))
        o.append("Definition %s_format : str := %s." % (nm, g_str(q["fmt"])))
        o.append(g_rc(nm, q["rc"], q["rc_default"]))
    o.append("(* %s : check_jobs *)" % LSF)
    o.append("Definition bj_row_sep : N := %d%%N." % ord(lq["sep"]))
    o.append("Definition bj_delim : N := %d%%N." % ord(lq["delim"]))
    o.append("Definition bj_data_row_offset : nat := %d." % lq["offset"])
    o.append("Definition bj_min_fields : nat := %d." % lq["min_fields"])
    o.append("Definition bj_state_index : nat := %d." % lq["state_index"])
    o.append("Definition bj_jobid_index : nat := %d." % lq["jobid_index"])
    o.append("Definition bj_term_reason : nat := %d." % lq["term_reason"])
    o.append("Definition bj_format : str := %s." % g_str(lq["fmt"]))
    o.append("Definition bj_nojob_regex : str := %s." % g_str(lq["nojob_regex"]))
    o.append("Definition bj_nojob_code : JobStatusCode := JS_%s." % lq["nojob_code"])
    o.append("Definition bj_nojob_empty_dict : bool := %s." % ("true" if lq["nojob_empty"] else "false"))
    o.append(g_rc("bj", lq["rc"], lq["rc_default"]))
    for q in (sq, sa, lq):
        for v in (q["offset"], q["state_index"], q["jobid_index"]):
            if v > 1000:
                _fail("index constant too large")
    return {"Gen/SchedTables.v": "\n".join(o)}
